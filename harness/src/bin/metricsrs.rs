//! Engine `metricsrs` (C20): the metrics.rs bridge (`metrique-metricsrs`) reports every counter increment and every
//! histogram sample exactly once, gauges report the last value set, every readout writes each metric under its
//! registered name with its labels as dimensions and its described unit.
//!
//! Kinds of case lines (names, label keys/values and units are ids into fixed pools, see `NAMES` …):
//!
//! * `script <emit_zero 0|1> <tok>…` — a sequential script over one real `MetricRecorder<dyn metrics::Recorder>`
//!   (tokens as in `lean/Driver/MetricsRs.lean`: `rc/rg/rh:<key>`, `c:<key>:<n>`, `ci:<key>:<n>`, `g:<key>:<bits>`,
//!   `h:<key>:<bits>`, `d:<name>:<unit>`, `R`). Every `R` is a real `readout()` replayed into a recording
//!   `EntryWriter`. Oracle (a ledger written from the property statement, independent of Lean): each readout reports
//!   for every counter exactly the increments since the previous readout (zero deltas dropped unless
//!   `emit_zero_counters`), for every gauge the last value set, for every histogram as many occurrences as values were
//!   recorded since the previous readout, each at a bucket value within 1/16 of the recorded value; every value is
//!   written under the registered name, the labels as dimensions (as a set), the unit described for that name at the
//!   time of the readout; timestamp once, `AllowSplitEntries` set, no flags. Correspondence: the same line goes to the
//!   Lean model (`runScript`); entries are compared item for item (items sorted, dimensions sorted).
//! * `conc <emit_zero> <readers> <rep> <tok>… | <tok>… | …` — one op list per updater thread (each thread runs its
//!   list `rep` times), run concurrently on one recorder
//!   while `<readers>` reader threads call `readout()` in a loop; after the join one final readout. Oracle: per
//!   counter key the reported deltas sum to the total incremented; per histogram the reported occurrences, summed per
//!   bucket value over all readouts, account for every recorded value within the bucket error; a gauge's final value
//!   is the last value set by one of the threads that set it, intermediate values are values that were set (or the
//!   initial 0.0); units are either absent or the described one, and the described one in the final readout; shape
//!   as above. Correspondence: the aggregate over all readouts equals the single readout of the model run on any
//!   sequentialisation of the same ops (theorems `c20_counter_conservation`, `c20_hist_conservation` say the
//!   aggregate is schedule independent).
//!
//! * `window <emit_zero> <fillers> <kind><unit>…` — see `WindowCase`: a describe + registration + update lands inside a
//!   readout that is in progress (hook point 20 at the start of the registry walk, or a released second thread).
//! * `reporter <emit_zero> <ct|mt> <interval ms> <step>… [| …]` — see `ReporterCase`: the public `MetricReporter` task
//!   (periodic publishes, `shutdown()`), including a shutdown that starts before the task was ever polled or right
//!   after a periodic publish.
//!
//! Extra (opt-in, `--u32-probe 1`): 2^32 records into one bucket between two readouts — `bucket.count() as u32`
//! in `metrics_histogram::Histogram::drain` truncates (see notes/C20.md).

use metrics_024 as metrics;
use metrics::{Key, KeyName, Label, Recorder};
use metrique_metricsrs::MetricRecorder;
use metrique_writer_core::config::AllowSplitEntries;
use metrique_writer_core::{Entry, EntryConfig, EntryWriter, Observation, Unit, ValidationError, Value, ValueWriter};
use std::any::Any;
use std::borrow::Cow;
use std::collections::{BTreeMap, BTreeSet, HashMap};
use std::sync::atomic::{AtomicBool, AtomicUsize, Ordering};
use std::sync::{Arc, Barrier};
use std::time::SystemTime;
use verif_harness::*;

type Rec = MetricRecorder<dyn metrics::Recorder>;

// ------------------------------------------------------------------------------------------------
// pools (ids in case lines index these)

const NAMES: &[&str] = &[
    "requests", "latency", "", "a", "A", "with space", "dot.ted.name", "ünïcode-名前", "Requests", "0", "_",
    "a-very-long-metric-name-a-very-long-metric-name-a-very-long-metric-name-a-very-long-metric-name-a-very-long-name",
];
const LKEYS: &[&str] = &["region", "op", "", "k", "Ünï", "status", "az", "host"];
const LVALS: &[&str] = &["us-east-1", "", "GET", "v", "名", "500", "a b", "region"];

/// metrics.rs units by id (0 = not given); the expected metrique unit *name* is hand-written from the meaning of the unit
const UNITS: &[(&str, &str)] = &[
    ("None", "None"),
    ("Count", "Count"),
    ("Percent", "Percent"),
    ("Seconds", "Seconds"),
    ("Milliseconds", "Milliseconds"),
    ("Microseconds", "Microseconds"),
    ("Nanoseconds", "Nanoseconds"),
    ("Tebibytes", "Tebibytes"),
    ("Gibibytes", "Gibibytes"),
    ("Mebibytes", "Mebibytes"),
    ("Kibibytes", "Kibibytes"),
    ("Bytes", "Bytes"),
    ("TerabitsPerSecond", "Terabits/Second"),
    ("GigabitsPerSecond", "Gigabits/Second"),
    ("MegabitsPerSecond", "Megabits/Second"),
    ("KilobitsPerSecond", "Kilobits/Second"),
    ("BitsPerSecond", "Bits/Second"),
    ("CountPerSecond", "Count/Second"),
];

fn metrics_unit(id: usize) -> Option<metrics::Unit> {
    use metrics::Unit as U;
    Some(match id {
        0 => return None,
        1 => U::Count,
        2 => U::Percent,
        3 => U::Seconds,
        4 => U::Milliseconds,
        5 => U::Microseconds,
        6 => U::Nanoseconds,
        7 => U::Tebibytes,
        8 => U::Gibibytes,
        9 => U::Mebibytes,
        10 => U::Kibibytes,
        11 => U::Bytes,
        12 => U::TerabitsPerSecond,
        13 => U::GigabitsPerSecond,
        14 => U::MegabitsPerSecond,
        15 => U::KilobitsPerSecond,
        16 => U::BitsPerSecond,
        17 => U::CountPerSecond,
        _ => return None,
    })
}

// ------------------------------------------------------------------------------------------------
// cases

#[derive(Clone, Debug, PartialEq, Eq, PartialOrd, Ord, Hash)]
struct KeyId {
    name: usize,
    /// sorted by label key id, label keys distinct
    labels: Vec<(usize, usize)>,
}

impl KeyId {
    fn enc(&self) -> String {
        let mut s = self.name.to_string();
        for (k, v) in &self.labels {
            s.push_str(&format!("/{k}={v}"));
        }
        s
    }
    fn dec(s: &str) -> Option<KeyId> {
        let mut it = s.split('/');
        let name: usize = it.next()?.parse().ok()?;
        if name >= NAMES.len() {
            return None;
        }
        let mut labels = vec![];
        for l in it {
            let (k, v) = l.split_once('=')?;
            let (k, v): (usize, usize) = (k.parse().ok()?, v.parse().ok()?);
            if k >= LKEYS.len() || v >= LVALS.len() {
                return None;
            }
            labels.push((k, v));
        }
        if !labels.windows(2).all(|w| w[0].0 < w[1].0) {
            return None;
        }
        Some(KeyId { name, labels })
    }
    /// the real key; `salt` picks the order in which the labels are given (metrics 0.24 keys are label-order insensitive)
    fn key(&self, salt: usize) -> Key {
        let mut ls: Vec<Label> = self.labels.iter().map(|(k, v)| Label::new(LKEYS[*k], LVALS[*v])).collect();
        if !ls.is_empty() {
            let n = ls.len();
            ls.rotate_left(salt % n);
            if (salt / n) % 2 == 1 {
                ls.reverse();
            }
        }
        Key::from_parts(NAMES[self.name], ls)
    }
}

#[derive(Clone, Debug, PartialEq)]
enum Op {
    RegC(KeyId),
    RegG(KeyId),
    RegH(KeyId),
    C(KeyId, u64),
    Ci(KeyId, u64),
    G(KeyId, u64),
    H(KeyId, u64),
    /// `Histogram::record_many(f64, n)`
    Hm(KeyId, u64, u64),
    /// `Counter::absolute(n)` (sequential scripts only: its result depends on where the readouts fall)
    Ca(KeyId, u64),
    /// `Gauge::increment(f64)` / `Gauge::decrement(f64)`
    Gi(KeyId, u64),
    Gd(KeyId, u64),
    D(usize, usize),
    R,
}

impl Op {
    fn enc(&self) -> String {
        match self {
            Op::RegC(k) => format!("rc:{}", k.enc()),
            Op::RegG(k) => format!("rg:{}", k.enc()),
            Op::RegH(k) => format!("rh:{}", k.enc()),
            Op::C(k, n) => format!("c:{}:{n}", k.enc()),
            Op::Ci(k, n) => format!("ci:{}:{n}", k.enc()),
            Op::G(k, b) => format!("g:{}:{b:016x}", k.enc()),
            Op::H(k, b) => format!("h:{}:{b:016x}", k.enc()),
            Op::Hm(k, b, n) => format!("hm:{}:{b:016x}:{n}", k.enc()),
            Op::Ca(k, n) => format!("ca:{}:{n}", k.enc()),
            Op::Gi(k, b) => format!("gi:{}:{b:016x}", k.enc()),
            Op::Gd(k, b) => format!("gd:{}:{b:016x}", k.enc()),
            Op::D(n, u) => format!("d:{n}:{u}"),
            Op::R => "R".into(),
        }
    }
    fn dec(s: &str) -> Option<Op> {
        if s == "R" {
            return Some(Op::R);
        }
        let parts: Vec<&str> = s.split(':').collect();
        Some(match parts.as_slice() {
            ["rc", k] => Op::RegC(KeyId::dec(k)?),
            ["rg", k] => Op::RegG(KeyId::dec(k)?),
            ["rh", k] => Op::RegH(KeyId::dec(k)?),
            ["c", k, n] => Op::C(KeyId::dec(k)?, n.parse().ok()?),
            ["ci", k, n] => Op::Ci(KeyId::dec(k)?, n.parse().ok()?),
            ["g", k, b] => Op::G(KeyId::dec(k)?, u64::from_str_radix(b, 16).ok()?),
            ["h", k, b] => Op::H(KeyId::dec(k)?, u64::from_str_radix(b, 16).ok()?),
            ["hm", k, b, n] => Op::Hm(KeyId::dec(k)?, u64::from_str_radix(b, 16).ok()?, n.parse().ok()?),
            ["ca", k, n] => Op::Ca(KeyId::dec(k)?, n.parse().ok()?),
            ["gi", k, b] => Op::Gi(KeyId::dec(k)?, u64::from_str_radix(b, 16).ok()?),
            ["gd", k, b] => Op::Gd(KeyId::dec(k)?, u64::from_str_radix(b, 16).ok()?),
            ["d", n, u] => {
                let (n, u): (usize, usize) = (n.parse().ok()?, u.parse().ok()?);
                if n >= NAMES.len() || u >= UNITS.len() {
                    return None;
                }
                Op::D(n, u)
            }
            _ => return None,
        })
    }
}

/// the public entry point an op goes through (for the input distribution of the report)
fn op_kind(o: &Op) -> &'static str {
    match o {
        Op::RegC(_) | Op::RegG(_) | Op::RegH(_) => "op:register",
        Op::C(..) => "op:Counter::increment",
        Op::Ci(..) => "op:Counter::increment (kept handle)",
        Op::Ca(..) => "op:Counter::absolute",
        Op::G(..) => "op:Gauge::set",
        Op::Gi(..) => "op:Gauge::increment",
        Op::Gd(..) => "op:Gauge::decrement",
        Op::H(..) => "op:Histogram::record",
        Op::Hm(..) => "op:Histogram::record_many",
        Op::D(..) => "op:describe",
        Op::R => "op:readout",
    }
}

fn enc_ops(ops: &[Op]) -> String {
    ops.iter().map(|o| o.enc()).collect::<Vec<_>>().join(" ")
}

fn dec_ops(s: &str) -> Option<Vec<Op>> {
    s.split_whitespace().map(Op::dec).collect()
}

#[derive(Clone, Debug)]
enum Case {
    Script { ez: bool, ops: Vec<Op> },
    Conc { ez: bool, readers: usize, rep: usize, threads: Vec<Vec<Op>> },
    Window(WindowCase),
    Reporter(ReporterCase),
}

impl Case {
    fn encode(&self) -> String {
        match self {
            Case::Window(w) => w.encode(),
            Case::Reporter(r) => r.encode(),
            Case::Script { ez, ops } => format!("script {} {}", *ez as u8, enc_ops(ops)),
            Case::Conc { ez, readers, rep, threads } => format!(
                "conc {} {} {} {}",
                *ez as u8,
                readers,
                rep,
                threads.iter().map(|t| enc_ops(t)).collect::<Vec<_>>().join(" | ")
            ),
        }
    }
    fn decode(s: &str) -> Option<Case> {
        let s = s.trim();
        if s.starts_with("window ") {
            return WindowCase::decode(s).map(Case::Window);
        }
        if s.starts_with("reporter ") {
            return ReporterCase::decode(s).map(Case::Reporter);
        }
        if let Some(rest) = s.strip_prefix("script ") {
            let (ez, ops) = rest.split_once(' ').unwrap_or((rest, ""));
            let ops = dec_ops(ops)?;
            // a handle increment needs a handle
            let mut have = BTreeSet::new();
            for o in &ops {
                match o {
                    Op::RegC(k) | Op::C(k, _) | Op::Ca(k, _) => {
                        have.insert(k.clone());
                    }
                    Op::Ci(k, _) if !have.contains(k) => return None,
                    _ => {}
                }
            }
            Some(Case::Script { ez: parse_bool(ez)?, ops })
        } else if let Some(rest) = s.strip_prefix("conc ") {
            let mut it = rest.splitn(4, ' ');
            let ez = parse_bool(it.next()?)?;
            let readers: usize = it.next()?.parse().ok()?;
            let rep: usize = it.next()?.parse().ok()?;
            let body = it.next().unwrap_or("");
            let threads: Option<Vec<Vec<Op>>> = body.split('|').map(dec_ops).collect();
            let threads = threads?;
            if threads.iter().flatten().any(|o| matches!(o, Op::R | Op::Ci(..) | Op::Ca(..))) {
                return None;
            }
            Some(Case::Conc { ez, readers, rep, threads })
        } else {
            None
        }
    }
}

fn parse_bool(s: &str) -> Option<bool> {
    match s {
        "0" => Some(false),
        "1" => Some(true),
        _ => None,
    }
}

// ------------------------------------------------------------------------------------------------
// recording EntryWriter: what the readout entry writes

#[derive(Clone, Debug)]
enum RecVal {
    Metric { obs: Vec<Observation>, unit: Unit, dims: Vec<(String, String)>, flags: String },
    Str(String),
    Error(String),
    Nothing,
}

#[derive(Default, Debug)]
struct RecEntry {
    timestamps: usize,
    split_cfg: usize,
    other_cfg: usize,
    values: Vec<(String, RecVal)>,
}

struct RecValueWriter<'r>(&'r mut RecVal);

impl ValueWriter for RecValueWriter<'_> {
    fn string(self, value: &str) {
        *self.0 = RecVal::Str(value.to_string());
    }
    fn metric<'a>(
        self,
        distribution: impl IntoIterator<Item = Observation>,
        unit: Unit,
        dimensions: impl IntoIterator<Item = (&'a str, &'a str)>,
        flags: metrique_writer_core::value::MetricFlags<'_>,
    ) {
        *self.0 = RecVal::Metric {
            obs: distribution.into_iter().collect(),
            unit,
            dims: dimensions.into_iter().map(|(k, v)| (k.to_string(), v.to_string())).collect(),
            flags: format!("{flags:?}"),
        };
    }
    fn error(self, error: ValidationError) {
        *self.0 = RecVal::Error(format!("{error:?}"));
    }
}

impl<'a> EntryWriter<'a> for RecEntry {
    fn timestamp(&mut self, _timestamp: SystemTime) {
        self.timestamps += 1;
    }
    fn value(&mut self, name: impl Into<Cow<'a, str>>, value: &(impl Value + ?Sized)) {
        let mut v = RecVal::Nothing;
        value.write(RecValueWriter(&mut v));
        self.values.push((name.into().into_owned(), v));
    }
    fn config(&mut self, config: &'a dyn EntryConfig) {
        if (config as &dyn Any).downcast_ref::<AllowSplitEntries>().is_some() {
            self.split_cfg += 1;
        } else {
            self.other_cfg += 1;
        }
    }
}

fn replay(e: &impl Entry) -> RecEntry {
    let mut r = RecEntry::default();
    e.write(&mut r);
    r
}

/// one written value, canonical: ids instead of strings, dimensions sorted
#[derive(Clone, Debug, PartialEq)]
struct Item {
    kind: char,
    key: Result<KeyId, String>,
    unit: Result<usize, String>,
    /// C: [delta]; G: [bits]; H: (value, count, total bits) triples flattened
    obs: Vec<ObsC>,
}

#[derive(Clone, Debug, PartialEq)]
enum ObsC {
    U(u64),
    F(u64),
    R { total: u64, occ: u64 },
}

fn canon_item(name: &str, v: &RecVal) -> Result<Item, String> {
    let RecVal::Metric { obs, unit, dims, flags } = v else {
        return Err(format!("value {name:?} is not a metric: {v:?}"));
    };
    if flags != "MetricFlags(None)" {
        return Err(format!("value {name:?} written with flags {flags}"));
    }
    let obs: Vec<ObsC> = obs
        .iter()
        .map(|o| match o {
            Observation::Unsigned(n) => ObsC::U(*n),
            Observation::Floating(f) => ObsC::F(f.to_bits()),
            Observation::Repeated { total, occurrences } => ObsC::R { total: total.to_bits(), occ: *occurrences },
            #[allow(unreachable_patterns)]
            _ => ObsC::U(u64::MAX),
        })
        .collect();
    let kind = match obs.first() {
        Some(ObsC::U(_)) => 'C',
        Some(ObsC::F(_)) => 'G',
        _ => 'H',
    };
    let key = (|| {
        let name_id = match NAMES.iter().position(|n| *n == name) {
            Some(i) => i,
            None => FRESH_BASE + name.strip_prefix("fresh_")?.parse::<usize>().ok()?,
        };
        let mut labels = vec![];
        for (k, v) in dims {
            labels.push((LKEYS.iter().position(|x| x == k)?, LVALS.iter().position(|x| x == v)?));
        }
        labels.sort();
        Some(KeyId { name: name_id, labels })
    })()
    .ok_or_else(|| format!("{name:?}{dims:?}"));
    let unit = UNITS.iter().position(|(_, expect)| *expect == unit.name()).ok_or_else(|| unit.name().to_string());
    Ok(Item { kind, key, unit, obs })
}

/// bucket value of a `Repeated { total = value * count, occurrences = count }`
fn bucket_value(total_bits: u64, occ: u64) -> Option<u64> {
    let total = f64::from_bits(total_bits);
    if occ == 0 || !(total >= 0.0) || total.fract() != 0.0 || total >= 1.8e19 {
        return None;
    }
    let t = total as u128;
    // `total` may have been rounded (53 bits): take the nearest quotient
    Some(((t + occ as u128 / 2) / occ as u128) as u64)
}

fn item_str(it: &Item) -> String {
    let (name, dims) = match &it.key {
        Ok(k) => (
            k.name.to_string(),
            if k.labels.is_empty() {
                "-".to_string()
            } else {
                k.labels.iter().map(|(a, b)| format!("{a}={b}")).collect::<Vec<_>>().join(",")
            },
        ),
        Err(e) => (format!("?{e}"), "?".into()),
    };
    let unit = match &it.unit {
        Ok(0) => "-".to_string(),
        Ok(u) => u.to_string(),
        Err(e) => format!("?{e}"),
    };
    let obs = if it.obs.is_empty() {
        "-".to_string()
    } else {
        it.obs
            .iter()
            .map(|o| match o {
                ObsC::U(n) => format!("u{n}"),
                ObsC::F(b) => format!("f{:016x}", canon_nan(*b)),
                ObsC::R { total, occ } => match bucket_value(*total, *occ) {
                    Some(v) => format!("r{v}x{occ}x{total:016x}"),
                    None => format!("r?x{occ}x{total:016x}"),
                },
            })
            .collect::<Vec<_>>()
            .join(",")
    };
    format!("{}|{}|{}|{}|{}", it.kind, name, dims, unit, obs)
}

struct CanonEntry {
    ts: usize,
    split: usize,
    other_cfg: usize,
    items: Vec<Item>,
    errors: Vec<String>,
}

fn canon_entry(r: &RecEntry) -> CanonEntry {
    let mut items = vec![];
    let mut errors = vec![];
    for (name, v) in &r.values {
        match canon_item(name, v) {
            Ok(it) => items.push(it),
            Err(e) => errors.push(e),
        }
    }
    CanonEntry { ts: r.timestamps, split: r.split_cfg, other_cfg: r.other_cfg, items, errors }
}

fn entry_str(e: &CanonEntry) -> String {
    let mut items: Vec<String> = e.items.iter().map(item_str).collect();
    items.sort();
    let mut s = format!("ts={};split={}", e.ts, e.split);
    for i in items {
        s.push(';');
        s.push_str(&i);
    }
    s
}

/// gauge values are compared up to the NaN payload: a NaN produced by arithmetic (`inf - inf`) has an unspecified sign /
/// payload (x86 gives `fff8…`, Lean's `Float.toBits` a canonical `7ff8…`); the ledger oracle compares exact bits
fn canon_nan(bits: u64) -> u64 {
    if f64::from_bits(bits).is_nan() { 0x7ff8_0000_0000_0000 } else { bits }
}

fn canon_nan_item(it: &str) -> String {
    let f: Vec<&str> = it.split('|').collect();
    if f.len() == 5 && f[0] == "G" {
        if let Some(b) = f[4].strip_prefix('f').and_then(|h| u64::from_str_radix(h, 16).ok()) {
            return format!("G|{}|{}|{}|f{:016x}", f[1], f[2], f[3], canon_nan(b));
        }
    }
    it.to_string()
}

/// sort the items of a model reply the same way
fn canon_model_reply(reply: &str) -> String {
    if reply == "-" || reply == "bad-op" {
        return reply.to_string();
    }
    reply
        .split(" # ")
        .map(|e| {
            let owned: Vec<String> = e.split(';').map(canon_nan_item).collect();
            let mut parts: Vec<&str> = owned.iter().map(|s| s.as_str()).collect();
            if parts.len() > 2 {
                parts[2..].sort();
            }
            parts.join(";")
        })
        .collect::<Vec<_>>()
        .join(" # ")
}

// ------------------------------------------------------------------------------------------------
// running the implementation

static META: metrics::Metadata<'static> = metrics::Metadata::new("verif", metrics::Level::INFO, None);

/// `HistogramFn::record(f64)` as the property reads it: the sample is the value clamped to `u32`
fn clamp_u32(bits: u64) -> u32 {
    let x = f64::from_bits(bits);
    if x.is_nan() || x <= 0.0 {
        0
    } else if x >= 4294967295.0 {
        u32::MAX
    } else {
        x.trunc() as u32
    }
}

/// applies one updater op to the real recorder; `salt` varies label order and the API path (macro / trait)
/// handles handed out by the bridge that a script keeps (and clones)
#[derive(Default)]
struct Handles {
    c: HashMap<KeyId, metrics::Counter>,
    g: HashMap<KeyId, metrics::Gauge>,
    h: HashMap<KeyId, metrics::Histogram>,
}

fn labels_of(k: &KeyId, salt: usize) -> Vec<Label> {
    k.key(salt).labels().cloned().collect()
}

/// the counter / gauge / histogram handle for `k`, obtained one of four ways (by `salt`): the `counter!`… macro under
/// `with_local_recorder`, the `Recorder` trait, a handle kept from an earlier op, a clone of such a handle
fn counter_handle(rec: &Rec, handles: &mut Handles, k: &KeyId, salt: usize) -> metrics::Counter {
    let c = match (salt % 4, handles.c.get(k)) {
        (2, Some(h)) => return h.clone(),
        (3, Some(h)) => {
            let c2 = h.clone();
            return c2.clone();
        }
        (0, _) => {
            let labels = labels_of(k, salt);
            metrics::with_local_recorder(rec, || metrics::counter!(NAMES[k.name], labels.clone()))
        }
        _ => rec.register_counter(&k.key(salt), &META),
    };
    handles.c.entry(k.clone()).or_insert(c).clone()
}

fn gauge_handle(rec: &Rec, handles: &mut Handles, k: &KeyId, salt: usize) -> metrics::Gauge {
    let g = match (salt % 4, handles.g.get(k)) {
        (2, Some(h)) => return h.clone(),
        (3, Some(h)) => {
            let g2 = h.clone();
            return g2.clone();
        }
        (0, _) => {
            let labels = labels_of(k, salt);
            metrics::with_local_recorder(rec, || metrics::gauge!(NAMES[k.name], labels.clone()))
        }
        _ => rec.register_gauge(&k.key(salt), &META),
    };
    handles.g.entry(k.clone()).or_insert(g).clone()
}

fn histogram_handle(rec: &Rec, handles: &mut Handles, k: &KeyId, salt: usize) -> metrics::Histogram {
    let h = match (salt % 4, handles.h.get(k)) {
        (2, Some(h)) => return h.clone(),
        (3, Some(h)) => {
            let h2 = h.clone();
            return h2.clone();
        }
        (0, _) => {
            let labels = labels_of(k, salt);
            metrics::with_local_recorder(rec, || metrics::histogram!(NAMES[k.name], labels.clone()))
        }
        _ => rec.register_histogram(&k.key(salt), &META),
    };
    handles.h.entry(k.clone()).or_insert(h).clone()
}

/// applies one updater op to the real recorder; `salt` varies label order and the API path
fn apply(rec: &Rec, handles: &mut Handles, op: &Op, salt: usize) {
    match op {
        Op::RegC(k) => {
            let c = rec.register_counter(&k.key(salt), &META);
            handles.c.insert(k.clone(), c);
        }
        Op::RegG(k) => {
            let g = rec.register_gauge(&k.key(salt), &META);
            handles.g.insert(k.clone(), g);
        }
        Op::RegH(k) => {
            let h = rec.register_histogram(&k.key(salt), &META);
            handles.h.insert(k.clone(), h);
        }
        Op::C(k, n) => counter_handle(rec, handles, k, salt).increment(*n),
        Op::Ca(k, n) => counter_handle(rec, handles, k, salt).absolute(*n),
        Op::Ci(k, n) => {
            handles.c.get(k).expect("decode checked the handle").increment(*n);
        }
        Op::G(k, b) => gauge_handle(rec, handles, k, salt).set(f64::from_bits(*b)),
        Op::Gi(k, b) => gauge_handle(rec, handles, k, salt).increment(f64::from_bits(*b)),
        Op::Gd(k, b) => gauge_handle(rec, handles, k, salt).decrement(f64::from_bits(*b)),
        Op::H(k, b) => histogram_handle(rec, handles, k, salt).record(f64::from_bits(*b)),
        Op::Hm(k, b, n) => histogram_handle(rec, handles, k, salt).record_many(f64::from_bits(*b), *n as usize),
        Op::D(n, u) => {
            let name = KeyName::from(NAMES[*n]);
            match salt % 3 {
                0 => rec.describe_counter(name, metrics_unit(*u), "verif".into()),
                1 => rec.describe_gauge(name, metrics_unit(*u), "verif".into()),
                _ => rec.describe_histogram(name, metrics_unit(*u), "verif".into()),
            }
        }
        Op::R => unreachable!(),
    }
}

// ------------------------------------------------------------------------------------------------
// the property oracle

/// shape checks common to every readout entry; returns (key of failure class, description)
fn check_shape(e: &CanonEntry) -> Option<(&'static str, String)> {
    if let Some(err) = e.errors.first() {
        return Some(("metricsrs:entry-shape", err.clone()));
    }
    if e.ts != 1 {
        return Some(("metricsrs:entry-shape", format!("timestamp written {} times", e.ts)));
    }
    if e.split != 1 || e.other_cfg != 0 {
        return Some((
            "metricsrs:entry-shape",
            format!("AllowSplitEntries set {} times, {} other configs", e.split, e.other_cfg),
        ));
    }
    let mut seen = BTreeSet::new();
    for it in &e.items {
        let k = match &it.key {
            Ok(k) => k,
            Err(s) => return Some(("metricsrs:entry-shape", format!("value written under an unknown name/dimension: {s}"))),
        };
        if !seen.insert((it.kind, k.clone())) {
            return Some(("metricsrs:entry-shape", format!("{} {} written twice in one readout", it.kind, k.enc())));
        }
        match it.kind {
            'C' | 'G' if it.obs.len() != 1 => {
                return Some(("metricsrs:entry-shape", format!("{} {} has {} observations", it.kind, k.enc(), it.obs.len())));
            }
            'H' if it.obs.iter().any(|o| !matches!(o, ObsC::R { .. })) => {
                return Some(("metricsrs:entry-shape", format!("histogram {} has a non-Repeated observation", k.enc())));
            }
            _ => {}
        }
    }
    None
}

/// are `recorded` (the clamped samples) accounted for by `buckets` (value -> occurrences): same number of
/// samples, and with both sorted, every sample within 1/16 of the value of the bucket it falls to
fn check_hist(recorded: &mut Vec<u32>, buckets: &BTreeMap<u64, u64>) -> Option<(&'static str, String)> {
    let total: u64 = buckets.values().sum();
    if total != recorded.len() as u64 {
        return Some((
            "metricsrs:hist-exactly-once",
            format!("{} samples recorded, {} occurrences reported", recorded.len(), total),
        ));
    }
    recorded.sort();
    let mut i = 0usize;
    for (bv, occ) in buckets {
        for _ in 0..*occ {
            let v = recorded[i] as u64;
            i += 1;
            let diff = bv.abs_diff(v);
            if 16 * diff as u128 > v as u128 {
                return Some((
                    "metricsrs:hist-value-error",
                    format!("sample {v} reported at bucket value {bv} (error above 1/16)"),
                ));
            }
        }
    }
    None
}

fn hist_buckets(it: &Item) -> Result<BTreeMap<u64, u64>, String> {
    let mut m = BTreeMap::new();
    let mut last: Option<u64> = None;
    for o in &it.obs {
        let ObsC::R { total, occ } = o else { return Err("non-Repeated observation".into()) };
        if *occ == 0 {
            return Err("bucket with zero occurrences reported".into());
        }
        let Some(v) = bucket_value(*total, *occ) else {
            return Err(format!("Repeated total {} is not value*count", f64::from_bits(*total)));
        };
        if f64::from_bits(*total) != v as f64 * *occ as f64 {
            return Err(format!("Repeated total {} is not {v} * {occ}", f64::from_bits(*total)));
        }
        if last.map(|l| l >= v).unwrap_or(false) {
            return Err("bucket values not strictly increasing within one readout".into());
        }
        last = Some(v);
        *m.entry(v).or_insert(0) += *occ;
    }
    Ok(m)
}

#[derive(Default)]
struct Ledger {
    ctr: BTreeMap<KeyId, u64>,
    gauge: BTreeMap<KeyId, u64>,
    hist: BTreeMap<KeyId, Vec<u32>>,
    units: BTreeMap<usize, usize>,
}

impl Ledger {
    fn update(&mut self, op: &Op) {
        match op {
            Op::RegC(k) => {
                self.ctr.entry(k.clone()).or_insert(0);
            }
            Op::RegG(k) => {
                self.gauge.entry(k.clone()).or_insert(0);
            }
            Op::RegH(k) => {
                self.hist.entry(k.clone()).or_default();
            }
            Op::C(k, n) | Op::Ci(k, n) => {
                let c = self.ctr.entry(k.clone()).or_insert(0);
                *c = c.wrapping_add(*n); // the counter is a u64
            }
            Op::G(k, b) => {
                self.gauge.insert(k.clone(), *b);
            }
            Op::H(k, b) => self.hist.entry(k.clone()).or_default().push(clamp_u32(*b)),
            Op::Hm(k, b, n) => {
                let h = self.hist.entry(k.clone()).or_default();
                h.extend(std::iter::repeat_n(clamp_u32(*b), *n as usize));
            }
            Op::Ca(k, n) => {
                // `absolute(n)`: the counter is at least `n` afterwards
                let c = self.ctr.entry(k.clone()).or_insert(0);
                *c = (*c).max(*n);
            }
            Op::Gi(k, b) => {
                let g = self.gauge.entry(k.clone()).or_insert(0);
                *g = (f64::from_bits(*g) + f64::from_bits(*b)).to_bits();
            }
            Op::Gd(k, b) => {
                let g = self.gauge.entry(k.clone()).or_insert(0);
                *g = (f64::from_bits(*g) - f64::from_bits(*b)).to_bits();
            }
            Op::D(n, u) => {
                self.units.insert(*n, *u);
            }
            Op::R => {}
        }
    }

    /// a sequential readout must report exactly what the ledger holds, then the ledger is cleared
    fn check_readout(&mut self, ez: bool, e: &CanonEntry) -> Option<(&'static str, String)> {
        if let Some(f) = check_shape(e) {
            return Some(f);
        }
        let mut seen_c = BTreeSet::new();
        let mut seen_g = BTreeSet::new();
        let mut seen_h = BTreeSet::new();
        for it in &e.items {
            let k = it.key.as_ref().unwrap();
            let want_unit = self.units.get(&k.name).copied().unwrap_or(0);
            if it.unit != Ok(want_unit) {
                return Some((
                    "metricsrs:unit",
                    format!("{} {} written with unit {:?}, described unit is {}", it.kind, k.enc(), it.unit, UNITS[want_unit].0),
                ));
            }
            match it.kind {
                'C' => {
                    let Some(pending) = self.ctr.get(k) else {
                        return Some(("metricsrs:entry-shape", format!("counter {} was never registered", k.enc())));
                    };
                    let ObsC::U(got) = it.obs[0] else { unreachable!() };
                    if got != *pending {
                        return Some((
                            "metricsrs:counter-exactly-once",
                            format!("counter {}: incremented by {} since the last readout, reported {}", k.enc(), pending, got),
                        ));
                    }
                    if got == 0 && !ez {
                        return Some(("metricsrs:entry-shape", format!("zero counter {} written although emit_zero_counters is off", k.enc())));
                    }
                    seen_c.insert(k.clone());
                }
                'G' => {
                    let Some(last) = self.gauge.get(k) else {
                        return Some(("metricsrs:entry-shape", format!("gauge {} was never registered", k.enc())));
                    };
                    let ObsC::F(got) = it.obs[0] else { unreachable!() };
                    if got != *last {
                        return Some((
                            "metricsrs:gauge-last",
                            format!("gauge {}: last set to bits {:016x}, reported {:016x}", k.enc(), last, got),
                        ));
                    }
                    seen_g.insert(k.clone());
                }
                _ => {
                    let Some(rec) = self.hist.get_mut(k) else {
                        return Some(("metricsrs:entry-shape", format!("histogram {} was never registered", k.enc())));
                    };
                    let buckets = match hist_buckets(it) {
                        Ok(b) => b,
                        Err(e) => return Some(("metricsrs:hist-exactly-once", format!("histogram {}: {e}", k.enc()))),
                    };
                    if let Some((key, what)) = check_hist(rec, &buckets) {
                        return Some((key, format!("histogram {}: {what}", k.enc())));
                    }
                    seen_h.insert(k.clone());
                }
            }
        }
        for (k, pending) in &self.ctr {
            if (*pending != 0 || ez) && !seen_c.contains(k) {
                return Some((
                    "metricsrs:counter-exactly-once",
                    format!("counter {}: incremented by {} since the last readout, not reported", k.enc(), pending),
                ));
            }
        }
        for k in self.gauge.keys() {
            if !seen_g.contains(k) {
                return Some(("metricsrs:gauge-last", format!("gauge {} not reported", k.enc())));
            }
        }
        for k in self.hist.keys() {
            if !seen_h.contains(k) {
                return Some(("metricsrs:hist-exactly-once", format!("histogram {} not reported", k.enc())));
            }
        }
        for v in self.ctr.values_mut() {
            *v = 0;
        }
        for v in self.hist.values_mut() {
            v.clear();
        }
        None
    }
}

struct ScriptRun {
    /// canonical entries, one per `R`
    entries: Vec<String>,
    failure: Option<(&'static str, String)>,
    panic: Option<String>,
}

fn run_script(ez: bool, ops: &[Op]) -> ScriptRun {
    let mut entries = vec![];
    let mut failure = None;
    let r = catch(|| {
        let rec: Rec = MetricRecorder::new_with_emit_zero_counters(ez);
        let mut handles = Handles::default();
        let mut ledger = Ledger::default();
        for (i, op) in ops.iter().enumerate() {
            if *op == Op::R {
                let e = canon_entry(&replay(&rec.readout()));
                if failure.is_none() {
                    failure = ledger.check_readout(ez, &e);
                }
                entries.push(entry_str(&e));
            } else {
                apply(&rec, &mut handles, op, i);
                ledger.update(op);
            }
        }
    });
    ScriptRun { entries, failure, panic: r.err() }
}

fn script_failure(ez: bool, ops: &[Op]) -> Option<(String, String)> {
    let r = run_script(ez, ops);
    if let Some(p) = r.panic {
        return Some(("metricsrs:panic".into(), format!("panic: {p}")));
    }
    r.failure.map(|(k, w)| (k.to_string(), w))
}

// ------------------------------------------------------------------------------------------------
// concurrent stage

struct ConcRun {
    /// aggregate over all readouts, rendered like one model entry
    aggregate: String,
    readouts: usize,
    overlapping_readouts: usize,
    failure: Option<(&'static str, String)>,
    panic: Option<String>,
}

/// `AnyEntrySink` that replays every appended entry into the recording writer (the reporter's destination)
#[derive(Clone, Default)]
struct ReplaySink(Arc<std::sync::Mutex<Vec<(CanonEntry, bool)>>>, Arc<AtomicUsize>);

impl metrique_writer_core::AnyEntrySink for ReplaySink {
    fn append_any(&self, entry: impl Entry + Send + 'static) {
        let live = self.1.load(Ordering::SeqCst) > 0;
        let e = canon_entry(&replay(&entry));
        self.0.lock().unwrap().push((e, live));
    }
    fn flush_async(&self) -> metrique_writer_core::sink::FlushWait {
        metrique_writer_core::sink::FlushWait::ready()
    }
}

/// `readers == 0`: the readouts are made by a real `MetricReporter` task (publish interval 1 ms, multi-threaded
/// runtime) appending to a replaying sink; the final readout is the one `shutdown()` publishes.
fn run_conc(ez: bool, readers: usize, rep: usize, threads: &[Vec<Op>]) -> ConcRun {
    let running = Arc::new(AtomicUsize::new(threads.len()));
    let sink = ReplaySink(Default::default(), running.clone());
    let reporter_rt = if readers == 0 {
        Some(tokio::runtime::Builder::new_multi_thread().worker_threads(2).enable_time().build().expect("runtime"))
    } else {
        None
    };
    let (reporter, rec): (Option<metrique_metricsrs::MetricReporter>, Rec) = match &reporter_rt {
        Some(rt) => {
            let _g = rt.enter();
            let (rp, rec) = metrique_metricsrs::MetricReporter::builder()
                .metrics_sink((sink.clone(), ()))
                .emit_zero_counters(ez)
                .metrics_publish_interval(std::time::Duration::from_millis(1))
                .metrics_rs_version::<dyn metrics::Recorder>()
                .build_without_installing();
            (Some(rp), rec)
        }
        None => (None, MetricRecorder::new_with_emit_zero_counters(ez)),
    };
    let barrier = Arc::new(Barrier::new(threads.len() + readers));
    let panicked = Arc::new(AtomicBool::new(false));
    let mut all: Vec<(CanonEntry, bool)> = vec![];
    let mut panic = None;
    std::thread::scope(|s| {
        let mut ups = vec![];
        for (ti, ops) in threads.iter().enumerate() {
            let rec = rec.clone();
            let barrier = barrier.clone();
            let running = running.clone();
            let panicked = panicked.clone();
            ups.push(s.spawn(move || {
                barrier.wait();
                let r = catch(|| {
                    let mut handles = Handles::default();
                    for round in 0..rep {
                        for (i, op) in ops.iter().enumerate() {
                            apply(&rec, &mut handles, op, i + ti + round);
                        }
                    }
                });
                running.fetch_sub(1, Ordering::SeqCst);
                if r.is_err() {
                    panicked.store(true, Ordering::SeqCst);
                }
                r
            }));
        }
        let mut rds = vec![];
        for _ in 0..readers {
            let rec = rec.clone();
            let barrier = barrier.clone();
            let running = running.clone();
            rds.push(s.spawn(move || {
                barrier.wait();
                let mut out = vec![];
                let r = catch(|| {
                    loop {
                        let live = running.load(Ordering::SeqCst) > 0;
                        let e = rec.readout();
                        out.push((canon_entry(&replay(&e)), live));
                        if !live {
                            break;
                        }
                        std::thread::yield_now();
                    }
                });
                (out, r)
            }));
        }
        for u in ups {
            if let Ok(Err(p)) = u.join() {
                panic = Some(p);
            }
        }
        for r in rds {
            if let Ok((out, res)) = r.join() {
                all.extend(out);
                if let Err(p) = res {
                    panic = Some(p);
                }
            }
        }
    });
    // the final readout, after every updater and reader has finished
    let mut no_final = false;
    let fin = match (&reporter_rt, &reporter) {
        (Some(rt), Some(rp)) => {
            rt.block_on(rp.shutdown());
            let mut got = std::mem::take(&mut *sink.0.lock().unwrap());
            match got.pop() {
                Some((last, _)) => {
                    all.extend(got);
                    last
                }
                None => {
                    no_final = true;
                    canon_entry(&replay(&rec.readout()))
                }
            }
        }
        _ => canon_entry(&replay(&rec.readout())),
    };
    drop(reporter);
    drop(reporter_rt);
    let overlapping = all.iter().filter(|(_, live)| *live).count();
    let n_readouts = all.len() + 1;

    let (failure, aggregate) = judge(ez, rep, threads, &all, &fin, no_final);
    if panicked.load(Ordering::SeqCst) && panic.is_none() {
        panic = Some("updater panicked".into());
    }
    ConcRun { aggregate, readouts: n_readouts, overlapping_readouts: overlapping, failure, panic }
}

/// The totals oracle shared by the concurrent and the reporter stage: `threads` is what was asked of the bridge (each
/// list `rep` times), `all` the readouts taken while that happened, `fin` the last readout (taken after everything).
/// Returns the first failure and the aggregate over all readouts rendered as one entry.
fn judge(
    ez: bool,
    rep: usize,
    threads: &[Vec<Op>],
    all: &[(CanonEntry, bool)],
    fin: &CanonEntry,
    no_final: bool,
) -> (Option<(&'static str, String)>, String) {
    let n_readouts = all.len() + 1;
    let sched_dep = schedule_dependent_gauges(threads);
    // what was asked of the bridge
    let mut inc_total: BTreeMap<KeyId, u64> = BTreeMap::new();
    let mut gauge_sets: BTreeMap<KeyId, BTreeSet<u64>> = BTreeMap::new();
    let mut gauge_last: BTreeMap<KeyId, BTreeSet<u64>> = BTreeMap::new();
    let mut recorded: BTreeMap<KeyId, Vec<u32>> = BTreeMap::new();
    let mut described: BTreeMap<usize, BTreeSet<usize>> = BTreeMap::new();
    let mut arith: BTreeSet<KeyId> = BTreeSet::new();
    for ops in threads {
        let mut last: BTreeMap<KeyId, u64> = BTreeMap::new();
        for op in ops {
            match op {
                Op::RegC(k) => {
                    inc_total.entry(k.clone()).or_insert(0);
                }
                Op::RegG(k) => {
                    gauge_sets.entry(k.clone()).or_default();
                }
                Op::RegH(k) => {
                    recorded.entry(k.clone()).or_default();
                }
                Op::C(k, n) => {
                    let c = inc_total.entry(k.clone()).or_insert(0);
                    *c = c.wrapping_add(n.wrapping_mul(rep as u64));
                }
                Op::G(k, b) => {
                    gauge_sets.entry(k.clone()).or_default().insert(*b);
                    last.insert(k.clone(), *b);
                }
                Op::H(k, b) => {
                    let r = recorded.entry(k.clone()).or_default();
                    for _ in 0..rep {
                        r.push(clamp_u32(*b));
                    }
                }
                Op::Hm(k, b, n) => {
                    let r = recorded.entry(k.clone()).or_default();
                    r.extend(std::iter::repeat_n(clamp_u32(*b), *n as usize * rep));
                }
                Op::Gi(k, _) | Op::Gd(k, _) => {
                    gauge_sets.entry(k.clone()).or_default();
                    arith.insert(k.clone());
                }
                Op::D(n, u) => {
                    described.entry(*n).or_default().insert(*u);
                }
                Op::Ci(..) | Op::Ca(..) | Op::R => {}
            }
        }
        for (k, b) in last {
            gauge_last.entry(k).or_default().insert(b);
        }
    }
    // gauges moved by increment / decrement: with one thread of updates the final value is the fold of its gauge ops;
    // with several threads the generator only increments / decrements such a gauge (never sets it) by dyadic amounts,
    // whose sum is exact and order independent
    let mut arith_final: BTreeMap<KeyId, u64> = BTreeMap::new();
    for k in &arith {
        let gauge_op = |o: &Op| match o {
            Op::G(k2, b) if k2 == k => Some(('s', *b)),
            Op::Gi(k2, b) if k2 == k => Some(('+', *b)),
            Op::Gd(k2, b) if k2 == k => Some(('-', *b)),
            _ => None,
        };
        if let [only] = threads {
            let mut v = 0.0f64;
            for _ in 0..rep {
                for (c, b) in only.iter().filter_map(gauge_op) {
                    let x = f64::from_bits(b);
                    v = match c {
                        's' => x,
                        '+' => v + x,
                        _ => v - x,
                    };
                }
            }
            arith_final.insert(k.clone(), v.to_bits());
        } else if !threads.iter().flatten().filter_map(gauge_op).any(|(c, _)| c == 's') {
            let mut v = 0.0f64;
            for (c, b) in threads.iter().flatten().filter_map(gauge_op) {
                let x = f64::from_bits(b) * rep as f64;
                v = if c == '+' { v + x } else { v - x };
            }
            arith_final.insert(k.clone(), v.to_bits());
        }
    }

    // names whose (single) unit is described, in program order, before every thread's first registration of a key of
    // that name: a readout that reports such a metric saw its registration, hence (walk first, unit map afterwards)
    // must report it with the described unit — in every readout, not only the final one
    let mut obliged: BTreeMap<usize, usize> = BTreeMap::new();
    for (n, us) in &described {
        if us.len() != 1 {
            continue;
        }
        let u = *us.iter().next().unwrap();
        let ok = threads.iter().all(|ops| {
            let first_use = ops.iter().position(|o| match o {
                Op::RegC(k) | Op::RegG(k) | Op::RegH(k) | Op::C(k, _) | Op::Ci(k, _) | Op::G(k, _) | Op::H(k, _) | Op::Hm(k, _, _) | Op::Ca(k, _) | Op::Gi(k, _) | Op::Gd(k, _) => k.name == *n,
                _ => false,
            });
            let first_desc = ops.iter().position(|o| matches!(o, Op::D(m, _) if m == n));
            match (first_use, first_desc) {
                (None, _) => true,
                (Some(_), None) => false,
                (Some(a), Some(d)) => d < a,
            }
        });
        if ok {
            obliged.insert(*n, u);
        }
    }
    let mut failure: Option<(&'static str, String)> = None;
    let mut fail = |f: (&'static str, String)| {
        if failure.is_none() {
            failure = Some(f);
        }
    };
    if no_final {
        fail(("metricsrs:reporter-final-publish", "MetricReporter::shutdown() published no final readout".into()));
    }
    let mut ctr_sum: BTreeMap<KeyId, u64> = BTreeMap::new();
    let mut ctr_seen: BTreeSet<KeyId> = BTreeSet::new();
    let mut hist_sum: BTreeMap<KeyId, BTreeMap<u64, u64>> = BTreeMap::new();
    let mut final_gauges: BTreeMap<KeyId, u64> = BTreeMap::new();
    let mut final_units: BTreeMap<(char, KeyId), usize> = BTreeMap::new();
    let n_all = all.len();
    for (ei, e) in all.iter().map(|(e, _)| e).chain(std::iter::once(fin)).enumerate() {
        let is_final = ei == n_all;
        if let Some(f) = check_shape(e) {
            fail(f);
            continue;
        }
        for it in &e.items {
            let k = it.key.as_ref().unwrap();
            // unit: none, or one that was described for the name; in the final readout a described name has a described unit
            let ds = described.get(&k.name);
            let unit_ok = match (&it.unit, ds) {
                (Ok(0), None) => true,
                (Ok(0), Some(ds)) => !is_final || ds.contains(&0),
                (Ok(u), Some(ds)) => ds.contains(u),
                _ => false,
            };
            if !unit_ok {
                fail(("metricsrs:unit", format!("{} {} written with unit {:?}; described: {:?}", it.kind, k.enc(), it.unit, ds)));
            }
            if let Some(u) = obliged.get(&k.name) {
                if it.unit != Ok(*u) {
                    fail((
                        "metricsrs:unit-described-before-register",
                        format!(
                            "{} {} was described with unit {} before it was registered, but readout {} of {} reports it with unit {:?}",
                            it.kind, k.enc(), UNITS[*u].0, ei + 1, n_readouts, it.unit
                        ),
                    ));
                }
            }
            if is_final {
                if let Ok(u) = it.unit {
                    final_units.insert((it.kind, k.clone()), u);
                }
            }
            match it.kind {
                'C' => {
                    let ObsC::U(got) = it.obs[0] else { unreachable!() };
                    if !inc_total.contains_key(k) {
                        fail(("metricsrs:entry-shape", format!("counter {} was never registered", k.enc())));
                    }
                    if got == 0 && !ez {
                        fail(("metricsrs:entry-shape", format!("zero counter {} written although emit_zero_counters is off", k.enc())));
                    }
                    let c = ctr_sum.entry(k.clone()).or_insert(0);
                    *c = c.wrapping_add(got);
                    ctr_seen.insert(k.clone());
                }
                'G' => {
                    let ObsC::F(got) = it.obs[0] else { unreachable!() };
                    match gauge_sets.get(k) {
                        None => fail(("metricsrs:entry-shape", format!("gauge {} was never registered", k.enc()))),
                        Some(vals) => {
                            if got != 0 && !vals.contains(&got) && !arith.contains(k) {
                                fail(("metricsrs:gauge-last", format!("gauge {} reported {:016x}, never set to that", k.enc(), got)));
                            }
                        }
                    }
                    if is_final {
                        final_gauges.insert(k.clone(), got);
                    }
                }
                _ => {
                    if !recorded.contains_key(k) {
                        fail(("metricsrs:entry-shape", format!("histogram {} was never registered", k.enc())));
                    }
                    match hist_buckets(it) {
                        Ok(b) => {
                            let m = hist_sum.entry(k.clone()).or_default();
                            for (v, c) in b {
                                *m.entry(v).or_insert(0) += c;
                            }
                        }
                        Err(e) => fail(("metricsrs:hist-exactly-once", format!("histogram {}: {e}", k.enc()))),
                    }
                }
            }
        }
    }
    for (k, total) in &inc_total {
        let got = ctr_sum.get(k).copied().unwrap_or(0);
        if got != *total {
            fail((
                "metricsrs:counter-exactly-once",
                format!("counter {}: incremented by {} in total, reported deltas sum to {} over {} readouts", k.enc(), total, got, n_readouts),
            ));
        }
    }
    for (k, rec_vals) in recorded.iter_mut() {
        let empty = BTreeMap::new();
        let b = hist_sum.get(k).unwrap_or(&empty);
        if let Some((key, what)) = check_hist(rec_vals, b) {
            fail((key, format!("histogram {} over {} readouts: {what}", k.enc(), n_readouts)));
        }
        if !fin.items.iter().any(|it| it.kind == 'H' && it.key.as_ref() == Ok(k)) {
            fail(("metricsrs:hist-exactly-once", format!("histogram {} missing from the final readout", k.enc())));
        }
    }
    for (k, sets) in &gauge_sets {
        match final_gauges.get(k) {
            None => fail(("metricsrs:gauge-last", format!("gauge {} missing from the final readout", k.enc()))),
            Some(got) if arith.contains(k) => {
                if let Some(exp) = arith_final.get(k) {
                    if got != exp {
                        fail((
                            "metricsrs:gauge-last",
                            format!("gauge {}: final value {:016x}, its set / increment / decrement operations amount to {:016x}", k.enc(), got, exp),
                        ));
                    }
                }
            }
            Some(got) => {
                let ok = match gauge_last.get(k) {
                    Some(lasts) => lasts.contains(got),
                    None => *got == 0 && sets.is_empty(),
                };
                if !ok {
                    fail((
                        "metricsrs:gauge-last",
                        format!("gauge {}: final value {:016x} is not the last value set by any thread ({:?})", k.enc(), got, gauge_last.get(k)),
                    ));
                }
            }
        }
    }
    if ez {
        for k in inc_total.keys() {
            if !fin.items.iter().any(|it| it.kind == 'C' && it.key.as_ref() == Ok(k)) {
                fail(("metricsrs:counter-exactly-once", format!("counter {} missing from the final readout (emit_zero_counters on)", k.enc())));
            }
        }
    }

    // aggregate rendered as one entry (compared with the model's single readout after all ops)
    let mut items: Vec<Item> = vec![];
    for (k, total) in &ctr_sum {
        if *total != 0 || ez {
            let unit = final_units.get(&('C', k.clone())).copied().unwrap_or_else(|| unit_of(&described, threads, k.name));
            items.push(Item { kind: 'C', key: Ok(k.clone()), unit: Ok(unit), obs: vec![ObsC::U(*total)] });
        }
    }
    for (k, b) in &final_gauges {
        let single = !sched_dep.contains(k);
        let unit = final_units.get(&('G', k.clone())).copied().unwrap_or(0);
        // a gauge set by several threads has no schedule-independent final value: compared as "some last value"
        items.push(Item { kind: 'G', key: Ok(k.clone()), unit: Ok(unit), obs: vec![ObsC::F(if single { *b } else { 0 })] });
    }
    for k in recorded.keys() {
        let empty = BTreeMap::new();
        let b = hist_sum.get(k).unwrap_or(&empty);
        let unit = final_units.get(&('H', k.clone())).copied().unwrap_or(0);
        items.push(Item {
            kind: 'H',
            key: Ok(k.clone()),
            unit: Ok(unit),
            obs: b.iter().map(|(v, c)| ObsC::R { total: (*v as f64 * *c as f64).to_bits(), occ: *c }).collect(),
        });
    }
    let agg = CanonEntry { ts: 1, split: 1, other_cfg: 0, items, errors: vec![] };
    (failure, entry_str(&agg))
}

/// the unit a metric of `name` ends up with: the last describe when there is one thread of updates, else the
/// (by construction single) described unit
fn unit_of(described: &BTreeMap<usize, BTreeSet<usize>>, threads: &[Vec<Op>], name: usize) -> usize {
    if let [only] = threads {
        return only.iter().rev().find_map(|o| if let Op::D(n, u) = o { (*n == name).then_some(*u) } else { None }).unwrap_or(0);
    }
    described.get(&name).and_then(|s| s.iter().next().copied()).unwrap_or(0)
}

/// the model request for a concurrent case: any sequentialisation, one readout at the end; gauges set by several
/// threads are masked (their final value is schedule dependent)
/// gauges whose final value depends on the schedule: set by more than one thread, or set by one thread and incremented /
/// decremented by another
fn schedule_dependent_gauges(threads: &[Vec<Op>]) -> BTreeSet<KeyId> {
    let mut setters: BTreeMap<KeyId, usize> = BTreeMap::new();
    let mut arith: BTreeSet<KeyId> = BTreeSet::new();
    for ops in threads {
        let ks: BTreeSet<&KeyId> = ops.iter().filter_map(|o| if let Op::G(k, _) = o { Some(k) } else { None }).collect();
        for k in ks {
            *setters.entry(k.clone()).or_insert(0) += 1;
        }
        for o in ops {
            if let Op::Gi(k, _) | Op::Gd(k, _) = o {
                arith.insert(k.clone());
            }
        }
    }
    setters
        .into_iter()
        .filter(|(k, n)| *n > 1 || (threads.len() > 1 && arith.contains(k)))
        .map(|(k, _)| k)
        .collect()
}

fn conc_model_request(ez: bool, rep: usize, threads: &[Vec<Op>]) -> (String, BTreeSet<KeyId>) {
    let masked = schedule_dependent_gauges(threads);
    let mut toks = vec![];
    for ops in threads {
        for o in ops {
            toks.push(o.enc());
        }
    }
    (format!("repscript {} {} {}", ez as u8, rep, toks.join(" ")), masked)
}

fn mask_gauges(entry: &str, masked: &BTreeSet<KeyId>) -> String {
    entry
        .split(';')
        .map(|it| {
            let f: Vec<&str> = it.split('|').collect();
            if f.len() == 5 && f[0] == "G" {
                let key = if f[2] == "-" { f[1].to_string() } else { format!("{}/{}", f[1], f[2].replace(',', "/")) };
                if KeyId::dec(&key).map(|k| masked.contains(&k)).unwrap_or(false) {
                    return format!("G|{}|{}|{}|f{:016x}", f[1], f[2], f[3], 0);
                }
            }
            it.to_string()
        })
        .collect::<Vec<_>>()
        .join(";")
}

// ------------------------------------------------------------------------------------------------
// generators

fn gen_key(rng: &mut Rng, small: bool) -> KeyId {
    let name = if small { rng.below(3) as usize } else { rng.below(NAMES.len() as u64) as usize };
    let nl = match rng.below(10) {
        0..=3 => 0,
        4..=6 => 1,
        7..=8 => 2,
        _ => rng.range(3, 5) as usize,
    };
    let mut ks: Vec<usize> = (0..LKEYS.len()).collect();
    rng.shuffle(&mut ks);
    let mut labels: Vec<(usize, usize)> =
        ks[..nl].iter().map(|k| (*k, if small { rng.below(2) as usize } else { rng.below(LVALS.len() as u64) as usize })).collect();
    labels.sort();
    KeyId { name, labels }
}

fn gen_inc(rng: &mut Rng) -> u64 {
    match rng.below(20) {
        0 => 0,
        1 => u64::MAX,
        2 => 1 << 63,
        3 => u32::MAX as u64 + rng.below(3),
        4..=9 => 1,
        _ => rng.below(1000),
    }
}

fn gen_gauge_bits(rng: &mut Rng) -> u64 {
    match rng.below(12) {
        0 => f64::NAN.to_bits(),
        1 => f64::INFINITY.to_bits(),
        2 => (-0.0f64).to_bits(),
        3 => f64::MIN_POSITIVE.to_bits(),
        4 => rng.next_u64(),
        5 => 0.0f64.to_bits(),
        _ => ((rng.below(2_000_000) as f64 - 1_000_000.0) / 8.0).to_bits(),
    }
}

/// histogram samples: bucket boundaries of the (4, 32) layout, the clamp boundaries, non-finite values, random
fn gen_sample_bits(rng: &mut Rng) -> u64 {
    let x: f64 = match rng.below(16) {
        0 => f64::NAN,
        1 => f64::INFINITY,
        2 => -1.5,
        3 => 4294967295.0 + rng.below(3) as f64 - 1.0,
        4 => 4294967296.5,
        5 => f64::MAX,
        6 => rng.below(64) as f64,
        7 | 8 => {
            // a bucket boundary ± 1
            let p = rng.range(5, 31);
            let off = rng.below(16);
            let lower = (1u64 << p) + off * (1u64 << (p - 4));
            (lower + rng.below(3)) as f64 - 1.0
        }
        9 => (1u64 << rng.range(0, 32)) as f64 - rng.below(2) as f64,
        10 => rng.below(1 << 32) as f64 + 0.75,
        11 => rng.below(1000) as f64 / 4.0,
        _ => rng.below(100_000) as f64,
    };
    x.to_bits()
}

/// amounts for `Gauge::increment` / `decrement`: mostly dyadic, some that round, overflow or are infinite
fn gen_gauge_amount(rng: &mut Rng) -> u64 {
    let x: f64 = match rng.below(12) {
        0 => 0.1,
        1 => 1e308,
        2 => f64::INFINITY,
        3 => -0.0,
        4 => -2.5,
        _ => rng.range(1, 400) as f64 / 8.0,
    };
    x.to_bits()
}

/// counts for `record_many` (well below the u32 truncation boundary of a bucket; 0 is a no-op)
fn gen_many(rng: &mut Rng) -> u64 {
    match rng.below(10) {
        0 => 0,
        1 => 1,
        2 => rng.range(1000, 5000),
        _ => rng.range(2, 60),
    }
}

fn gen_script(rng: &mut Rng, len: usize, small_keys: bool) -> Vec<Op> {
    let nkeys = rng.range(1, 6) as usize;
    let keys: Vec<KeyId> = (0..nkeys).map(|_| gen_key(rng, small_keys)).collect();
    let mut ops = vec![];
    let mut have: BTreeSet<KeyId> = BTreeSet::new();
    for _ in 0..len {
        let k = rng.pick(&keys).clone();
        let op = match rng.below(100) {
            0..=24 => Op::C(k, gen_inc(rng)),
            25..=32 => {
                if have.contains(&k) {
                    Op::Ci(k, gen_inc(rng))
                } else {
                    Op::RegC(k)
                }
            }
            33..=35 => Op::RegC(k),
            36..=37 => Op::RegG(k),
            38..=39 => Op::RegH(k),
            40..=48 => Op::G(k, gen_gauge_bits(rng)),
            49..=50 => Op::Gi(k, gen_gauge_amount(rng)),
            51..=52 => Op::Gd(k, gen_gauge_amount(rng)),
            53..=72 => Op::H(k, gen_sample_bits(rng)),
            73..=76 => Op::Hm(k, gen_sample_bits(rng), gen_many(rng)),
            77 => Op::Ca(k, gen_inc(rng)),
            78..=85 => Op::D(k.name, rng.below(UNITS.len() as u64) as usize),
            _ => Op::R,
        };
        if let Op::RegC(k) | Op::C(k, _) | Op::Ca(k, _) = &op {
            have.insert(k.clone());
        }
        ops.push(op);
    }
    ops.push(Op::R);
    if rng.chance(1, 3) {
        ops.push(Op::R);
    }
    ops
}

/// every bucket of the layout: lower and upper bound of each of the 464 buckets recorded into one histogram
fn layout_sweep() -> Vec<Op> {
    let k = KeyId { name: 1, labels: vec![] };
    let mut ops = vec![];
    let mut vals: Vec<u64> = (0..32).collect();
    for p in 5..32u64 {
        for off in 0..16u64 {
            let w = 1u64 << (p - 4);
            let lower = (1u64 << p) + off * w;
            vals.push(lower);
            vals.push(lower + w - 1);
            vals.push(lower + w / 2);
        }
    }
    for v in vals {
        ops.push(Op::H(k.clone(), (v as f64).to_bits()));
    }
    ops.push(Op::R);
    ops
}

fn gen_conc(rng: &mut Rng, threads: usize, ops_per_thread: usize) -> Vec<Vec<Op>> {
    let nkeys = rng.range(1, 5) as usize;
    let keys: Vec<KeyId> = (0..nkeys).map(|_| gen_key(rng, true)).collect();
    // names described during the run: each at most once, so the final unit is determined
    let mut describe: Vec<(usize, usize)> = vec![];
    for n in 0..3usize {
        if rng.chance(1, 2) {
            describe.push((n, rng.range(1, UNITS.len() as u64 - 1) as usize));
        }
    }
    // a small palette of samples per case keeps the model's sparse bucket map small (the sequential stage covers the layout)
    let palette: Vec<u64> = (0..rng.range(4, 16)).map(|_| gen_sample_bits(rng)).collect();
    let mut out = vec![];
    for t in 0..threads {
        let mut ops = vec![];
        for i in 0..ops_per_thread {
            let k = rng.pick(&keys).clone();
            let op = match rng.below(100) {
                0..=54 => Op::C(k, if rng.chance(1, 50) { gen_inc(rng) } else { rng.range(1, 5) }),
                55..=59 => Op::G(k, gen_gauge_bits(rng)),
                60..=61 => Op::RegC(gen_key(rng, true)),
                62 => Op::RegH(k),
                63 => Op::RegG(k),
                // a gauge that is only ever incremented / decremented, by dyadic amounts: its final value is the exact sum
                64..=65 => Op::Gi(KeyId { name: NAMES.len() - 1, labels: vec![] }, (rng.range(1, 80) as f64 / 8.0).to_bits()),
                66 => Op::Gd(KeyId { name: NAMES.len() - 1, labels: vec![] }, (rng.range(1, 80) as f64 / 8.0).to_bits()),
                67..=68 => Op::Hm(k, *rng.pick(&palette), rng.below(120)),
                _ => Op::H(k, *rng.pick(&palette)),
            };
            ops.push(op);
            if let Some(pos) = describe.iter().position(|_| i * threads + t == (ops_per_thread * threads) / 3) {
                let (n, u) = describe.remove(pos);
                ops.push(Op::D(n, u));
            }
        }
        out.push(ops);
    }
    // any describes left go first in thread 0 (describe before register)
    for (n, u) in describe {
        out[0].insert(0, Op::D(n, u));
    }
    // a fresh name per thread (names 3.. are not used by the shared keys): described, then registered and updated by
    // that thread only, somewhere in the middle of the run — whichever readout reports it must carry the unit
    for (t, ops) in out.iter_mut().enumerate() {
        if 3 + t >= NAMES.len() || !rng.chance(3, 4) {
            continue;
        }
        let name = 3 + t;
        let key = KeyId { name, labels: if rng.chance(1, 2) { vec![] } else { vec![(rng.below(LKEYS.len() as u64) as usize, 0)] } };
        let u = rng.range(1, UNITS.len() as u64 - 1) as usize;
        let at = rng.below(ops.len() as u64 + 1) as usize;
        let mut block = vec![Op::D(name, u)];
        for _ in 0..rng.range(1, 4) {
            block.push(match rng.below(3) {
                0 => Op::C(key.clone(), rng.range(1, 9)),
                1 => Op::G(key.clone(), gen_gauge_bits(rng)),
                _ => Op::H(key.clone(), *rng.pick(&palette)),
            });
        }
        ops.splice(at..at, block);
    }
    out
}

// ------------------------------------------------------------------------------------------------
// window stage: a describe + registration + update lands INSIDE a readout that is in progress

/// model ids of the fresh names `fresh_<r>` of the window stage
const FRESH_BASE: usize = 100;

/// `window <emit_zero> <fillers> <kind><unit> …` — a recorder with `<fillers>` filler counters (so that the registry
/// walk of a readout takes a while); one round per `<kind><unit>` (`c`/`g`/`h` + unit id): while a readout is in
/// progress a brand-new name `fresh_<round>` is described with the unit, THEN a metric of that name is registered and
/// updated (same thread, so describe happens-before register). Whichever readout reports the metric must carry the
/// unit (a readout that saw the registration reads the unit map afterwards). The action runs either inside the
/// `verif::point(20)` hook at the start of the registry walk (deterministic, when /repo has that point) or on a
/// second thread released right before `readout()` is called.
#[derive(Clone, Debug)]
struct WindowCase {
    ez: bool,
    fillers: usize,
    rounds: Vec<(char, usize)>,
}

impl WindowCase {
    fn encode(&self) -> String {
        format!(
            "window {} {} {}",
            self.ez as u8,
            self.fillers,
            self.rounds.iter().map(|(k, u)| format!("{k}{u}")).collect::<Vec<_>>().join(" ")
        )
    }
    fn decode(s: &str) -> Option<WindowCase> {
        let mut it = s.strip_prefix("window ")?.split_whitespace();
        let ez = parse_bool(it.next()?)?;
        let fillers: usize = it.next()?.parse().ok()?;
        let mut rounds = vec![];
        for t in it {
            let k = t.chars().next()?;
            let u: usize = t[1..].parse().ok()?;
            if !"cgh".contains(k) || u == 0 || u >= UNITS.len() {
                return None;
            }
            rounds.push((k, u));
        }
        Some(WindowCase { ez, fillers, rounds })
    }
}

static HOOK_ARMED: AtomicBool = AtomicBool::new(false);
static HOOK_ACTION: std::sync::Mutex<Option<Box<dyn Fn() + Send + Sync>>> = std::sync::Mutex::new(None);
static HOOK_FIRED: AtomicUsize = AtomicUsize::new(0);

fn install_window_hook() {
    metrique_writer_core::verif::set_callback(Some(Box::new(|id| {
        // point 20: start of the registry walk of `MetricsRsVersion::readout` (after the caller's preparations)
        if id == 20 && HOOK_ARMED.swap(false, Ordering::SeqCst) {
            if let Some(a) = HOOK_ACTION.lock().unwrap().as_ref() {
                a();
                HOOK_FIRED.fetch_add(1, Ordering::SeqCst);
            }
        }
    })));
}

struct WindowRun {
    /// per round: canonical item of the first readout that reports the fresh metric's update
    first_reports: Vec<Option<String>>,
    /// rounds whose update was reported by the readout that was in progress when it happened
    hits: usize,
    hook_rounds: usize,
    failure: Option<(&'static str, String)>,
}

fn fresh_action(rec: &Rec, round: usize, kind: char, unit: usize) {
    let name = format!("fresh_{round}");
    let key = Key::from_name(name.clone());
    // describe FIRST …
    match kind {
        'c' => rec.describe_counter(KeyName::from(name), metrics_unit(unit), "verif".into()),
        'g' => rec.describe_gauge(KeyName::from(name), metrics_unit(unit), "verif".into()),
        _ => rec.describe_histogram(KeyName::from(name), metrics_unit(unit), "verif".into()),
    }
    // … then register and update
    match kind {
        'c' => rec.register_counter(&key, &META).increment(5),
        'g' => rec.register_gauge(&key, &META).set(2.5),
        _ => rec.register_histogram(&key, &META).record(7.0),
    }
}

fn run_window(c: &WindowCase) -> WindowRun {
    let rec: Rec = MetricRecorder::new_with_emit_zero_counters(c.ez);
    for i in 0..c.fillers {
        let k = Key::from_parts("filler", vec![Label::new("i", i.to_string())]);
        rec.register_counter(&k, &META).increment(1);
    }
    let n = c.rounds.len();
    let mut first_reports: Vec<Option<String>> = vec![None; n];
    let mut hits = 0;
    let mut hook_rounds = 0;
    let mut hook_available = true;
    let mut failure: Option<(&'static str, String)> = None;
    // checks one readout: every fresh metric it reports carries the unit it was described with
    let mut check = |rec_entry: &RecEntry, in_progress_round: Option<usize>, hits: &mut usize| {
        for (name, v) in &rec_entry.values {
            let Some(r) = name.strip_prefix("fresh_").and_then(|r| r.parse::<usize>().ok()) else { continue };
            let Ok(it) = canon_item(name, v) else { continue };
            let Some((kind, unit)) = c.rounds.get(r) else { continue };
            let has_update = match it.obs.first() {
                Some(ObsC::U(d)) => *d > 0,
                Some(ObsC::F(_)) => true,
                Some(ObsC::R { .. }) => true,
                None => false,
            };
            if it.unit != Ok(*unit) && failure.is_none() {
                failure = Some((
                    "metricsrs:unit-described-before-register",
                    format!(
                        "round {r}: `{name}` was described with unit {} and then registered ({kind}) while a readout was in progress; \
                         a readout reports it with unit {:?}",
                        UNITS[*unit].0, it.unit
                    ),
                ));
            }
            if has_update && first_reports[r].is_none() {
                first_reports[r] = Some(item_str(&it));
                if in_progress_round == Some(r) {
                    *hits += 1;
                }
            }
        }
    };
    let ready = AtomicUsize::new(0);
    let go = AtomicUsize::new(0);
    let done = AtomicUsize::new(0);
    std::thread::scope(|s| {
        let rec2 = rec.clone();
        let (ready, go, done) = (&ready, &go, &done);
        let rounds = c.rounds.clone();
        s.spawn(move || {
            for (r, (kind, unit)) in rounds.iter().enumerate() {
                ready.store(r + 1, Ordering::SeqCst);
                loop {
                    let g = go.load(Ordering::SeqCst);
                    if g == usize::MAX {
                        return;
                    }
                    if g >= r + 1 {
                        break;
                    }
                    std::hint::spin_loop();
                }
                // a short, varying busy delay so that the action lands at different depths of the walk
                let spins = [0u32, 200, 2_000, 20_000][r % 4];
                for _ in 0..spins {
                    std::hint::spin_loop();
                }
                // (the action runs on this thread unless the hook already performed it for this round)
                if HOOK_DONE_ROUND.load(Ordering::SeqCst) != r + 1 {
                    fresh_action(&rec2, r, *kind, *unit);
                }
                done.store(r + 1, Ordering::SeqCst);
            }
        });
        for (r, (kind, unit)) in c.rounds.iter().enumerate() {
            while ready.load(Ordering::SeqCst) < r + 1 {
                std::hint::spin_loop();
            }
            HOOK_DONE_ROUND.store(0, Ordering::SeqCst);
            if r % 2 == 0 && hook_available {
                // even rounds: through the hook at the start of the registry walk, if /repo has it
                let rec3 = rec.clone();
                let (kind, unit) = (*kind, *unit);
                *HOOK_ACTION.lock().unwrap() = Some(Box::new(move || {
                    fresh_action(&rec3, r, kind, unit);
                    HOOK_DONE_ROUND.store(r + 1, Ordering::SeqCst);
                }));
                HOOK_ARMED.store(true, Ordering::SeqCst);
                let e = replay(&rec.readout());
                HOOK_ARMED.store(false, Ordering::SeqCst);
                *HOOK_ACTION.lock().unwrap() = None;
                if HOOK_DONE_ROUND.load(Ordering::SeqCst) == r + 1 {
                    hook_rounds += 1;
                } else {
                    // /repo has no point 20: every further round uses the second thread
                    hook_available = false;
                }
                check(&e, Some(r), &mut hits);
                // release the second thread (it skips the action if the hook already did it)
                go.store(r + 1, Ordering::SeqCst);
            } else {
                go.store(r + 1, Ordering::SeqCst);
                let e = replay(&rec.readout());
                check(&e, Some(r), &mut hits);
            }
            while done.load(Ordering::SeqCst) < r + 1 {
                std::thread::yield_now();
            }
            // a follow-up readout: the update is reported by now at the latest
            let e = replay(&rec.readout());
            check(&e, None, &mut hits);
        }
        go.store(usize::MAX, Ordering::SeqCst);
    });
    if failure.is_none() {
        if let Some(r) = first_reports.iter().position(|f| f.is_none()) {
            failure = Some(("metricsrs:counter-exactly-once", format!("round {r}: the update of `fresh_{r}` was never reported")));
        }
    }
    WindowRun { first_reports, hits, hook_rounds, failure }
}

static HOOK_DONE_ROUND: AtomicUsize = AtomicUsize::new(0);

/// model request of one round: the describe, the registration and the update happen between two steps of the walk
fn window_model_request(ez: bool, round: usize, kind: char, unit: usize) -> String {
    let n = FRESH_BASE + round;
    match kind {
        'c' => format!("window {} rc:1 inc:1:1 +swapC:1 d:{n}:{unit} rc:{n} inc:{n}:5 +swapC:{n}", ez as u8),
        'g' => format!("window {} rc:1 inc:1:1 +swapC:1 d:{n}:{unit} rg:{n} gset:{n}:4004000000000000 +gload:{n}", ez as u8),
        _ => format!("window {} rc:1 inc:1:1 +swapC:1 d:{n}:{unit} rh:{n} hrec:{n}:7 +hswap:{n}:7", ez as u8),
    }
}

// ------------------------------------------------------------------------------------------------
// reporter stage: the public `MetricReporter` (periodic publishes, then `shutdown()`)

#[derive(Clone, Debug, PartialEq)]
enum RStepH {
    Op(Op),
    /// `tokio::task::yield_now().await`
    Yield,
    /// `tokio::time::sleep(ms).await`
    Sleep(u64),
    /// at the reporter's next publish, inside the sink (i.e. between the periodic publish and the task's next look at
    /// the shutdown token): apply the ops, then start `shutdown()` (poll it once: the token is cancelled); the script
    /// waits for that publish
    CancelInSink(Vec<Op>),
    /// `reporter.clone()` (kept)
    CloneHandle,
    /// drop the most recent kept clone of the reporter handle
    DropHandle,
    /// continue on a clone of the `MetricRecorder`, dropping the handle used so far
    SwapRecorder,
}

/// `reporter <emit_zero> <ct|mt> <interval ms> <step>… [| <step>…]`: one reporter (own recorder, own sink) per script;
/// `ct` = current-thread runtime with paused time (deterministic), `mt` = multi-thread runtime, real time. After the
/// last step every script calls `reporter.shutdown().await`. Oracle: when `shutdown()` has returned, the published
/// readouts account for everything (totals per counter, every histogram sample, last gauge values, units, shape).
#[derive(Clone, Debug)]
struct ReporterCase {
    ez: bool,
    mt: bool,
    interval_ms: u64,
    scripts: Vec<Vec<RStepH>>,
}

impl ReporterCase {
    fn encode(&self) -> String {
        let enc_step = |st: &RStepH| match st {
            RStepH::Op(o) => o.enc(),
            RStepH::Yield => "y".to_string(),
            RStepH::Sleep(ms) => format!("s{ms}"),
            RStepH::CloneHandle => "k".to_string(),
            RStepH::DropHandle => "x".to_string(),
            RStepH::SwapRecorder => "r".to_string(),
            RStepH::CancelInSink(ops) => format!("K({})", ops.iter().map(|o| o.enc()).collect::<Vec<_>>().join(",")),
        };
        format!(
            "reporter {} {} {} {}",
            self.ez as u8,
            if self.mt { "mt" } else { "ct" },
            self.interval_ms,
            self.scripts.iter().map(|sc| sc.iter().map(enc_step).collect::<Vec<_>>().join(" ")).collect::<Vec<_>>().join(" | ")
        )
    }
    fn decode(s: &str) -> Option<ReporterCase> {
        let rest = s.strip_prefix("reporter ")?;
        let mut it = rest.splitn(4, ' ');
        let ez = parse_bool(it.next()?)?;
        let mt = match it.next()? {
            "mt" => true,
            "ct" => false,
            _ => return None,
        };
        let interval_ms: u64 = it.next()?.parse().ok()?;
        let body = it.next().unwrap_or("");
        let mut scripts = vec![];
        for part in body.split('|') {
            let mut sc = vec![];
            for t in part.split_whitespace() {
                sc.push(if t == "y" {
                    RStepH::Yield
                } else if t == "k" {
                    RStepH::CloneHandle
                } else if t == "x" {
                    RStepH::DropHandle
                } else if t == "r" {
                    RStepH::SwapRecorder
                } else if let Some(inner) = t.strip_prefix("K(").and_then(|x| x.strip_suffix(')')) {
                    let ops: Option<Vec<Op>> = inner.split(',').filter(|x| !x.is_empty()).map(Op::dec).collect();
                    RStepH::CancelInSink(ops?)
                } else if let Some(ms) = t.strip_prefix('s').and_then(|x| x.parse::<u64>().ok()) {
                    RStepH::Sleep(ms)
                } else {
                    match Op::dec(t)? {
                        Op::R | Op::Ci(..) | Op::Ca(..) => return None,
                        o => RStepH::Op(o),
                    }
                });
            }
            scripts.push(sc);
        }
        if interval_ms == 0 || scripts.is_empty() {
            return None;
        }
        // an update made after the shutdown has begun is not owed a readout: nothing but suspensions may follow `K(..)`
        for sc in &scripts {
            if let Some(k) = sc.iter().position(|s| matches!(s, RStepH::CancelInSink(_))) {
                if sc[k + 1..].iter().any(|s| !matches!(s, RStepH::Yield)) {
                    return None;
                }
            }
        }
        Some(ReporterCase { ez, mt, interval_ms, scripts })
    }
}

#[derive(Clone)]
struct RSink {
    entries: Arc<std::sync::Mutex<Vec<(CanonEntry, bool)>>>,
    /// `u` per applied op, `P` per published readout, in order
    log: Arc<std::sync::Mutex<String>>,
    armed: Arc<std::sync::Mutex<Option<Vec<Op>>>>,
    applied_in_sink: Arc<std::sync::Mutex<Vec<Op>>>,
    reporter: Arc<std::sync::Mutex<Option<(metrique_metricsrs::MetricReporter, Rec)>>>,
    notify: Arc<tokio::sync::Notify>,
    /// set by the sink when an armed `K(..)` has been carried out completely
    k_done: Arc<AtomicBool>,
}

impl metrique_writer_core::AnyEntrySink for RSink {
    fn append_any(&self, entry: impl Entry + Send + 'static) {
        let e = canon_entry(&replay(&entry));
        self.entries.lock().unwrap().push((e, true));
        self.log.lock().unwrap().push('P');
        let armed = self.armed.lock().unwrap().take();
        if let Some(ops) = armed {
            let rr = self.reporter.lock().unwrap().clone();
            if let Some((rp, rec)) = rr {
                let mut handles = Handles::default();
                for (i, op) in ops.iter().enumerate() {
                    apply(&rec, &mut handles, op, i + 1);
                    self.log.lock().unwrap().push('u');
                }
                *self.applied_in_sink.lock().unwrap() = ops;
                // `shutdown()` begins: its first poll cancels the token (the rest of it is awaited by the script later)
                let mut fut = Box::pin(async move { rp.shutdown().await });
                let _ = std::future::Future::poll(fut.as_mut(), &mut std::task::Context::from_waker(std::task::Waker::noop()));
            }
            self.k_done.store(true, Ordering::SeqCst);
            self.notify.notify_one();
        }
    }
    fn flush_async(&self) -> metrique_writer_core::sink::FlushWait {
        metrique_writer_core::sink::FlushWait::ready()
    }
}

struct ReporterScriptRun {
    log: String,
    /// every op applied, in the order applied
    applied: Vec<Op>,
    published: usize,
    failure: Option<(&'static str, String)>,
    aggregate: String,
}

async fn run_reporter_script(ez: bool, interval_ms: u64, script: &[RStepH]) -> ReporterScriptRun {
    let sink = RSink {
        entries: Default::default(),
        log: Default::default(),
        armed: Default::default(),
        applied_in_sink: Default::default(),
        reporter: Default::default(),
        notify: Default::default(),
        k_done: Default::default(),
    };
    let (reporter, rec): (metrique_metricsrs::MetricReporter, Rec) = metrique_metricsrs::MetricReporter::builder()
        .metrics_sink((sink.clone(), ()))
        .emit_zero_counters(ez)
        .metrics_publish_interval(std::time::Duration::from_millis(interval_ms))
        .metrics_rs_version::<dyn metrics::Recorder>()
        .build_without_installing();
    // (the sink's own copy of the handle exists only while a `K(..)` is armed: a `MetricReporter` may be freely cloned
    // and dropped, and this stage must see what a dropped clone does)
    let mut rec = rec;
    let mut clones: Vec<metrique_metricsrs::MetricReporter> = vec![];
    let mut handles = Handles::default();
    let mut applied: Vec<Op> = vec![];
    for (i, st) in script.iter().enumerate() {
        match st {
            RStepH::CloneHandle => clones.push(reporter.clone()),
            RStepH::DropHandle => drop(clones.pop()),
            RStepH::SwapRecorder => {
                let next = rec.clone();
                drop(std::mem::replace(&mut rec, next));
            }
            RStepH::Op(op) => {
                apply(&rec, &mut handles, op, i);
                sink.log.lock().unwrap().push('u');
                applied.push(op.clone());
            }
            RStepH::Yield => tokio::task::yield_now().await,
            RStepH::Sleep(ms) => tokio::time::sleep(std::time::Duration::from_millis(*ms)).await,
            RStepH::CancelInSink(ops) => {
                sink.k_done.store(false, Ordering::SeqCst);
                *sink.reporter.lock().unwrap() = Some((reporter.clone(), rec.clone()));
                *sink.armed.lock().unwrap() = Some(ops.clone());
                // wait for the publish that carries it out (bounded: a task that has already ended never publishes again)
                let wait = async {
                    while !sink.k_done.load(Ordering::SeqCst) {
                        sink.notify.notified().await;
                    }
                };
                let _ = tokio::time::timeout(std::time::Duration::from_millis(interval_ms * 3 + 2_000), wait).await;
                if sink.armed.lock().unwrap().take().is_none() {
                    // it was picked up: the sink finishes it (it may still be in the middle of it on another worker)
                    while !sink.k_done.load(Ordering::SeqCst) {
                        tokio::task::yield_now().await;
                    }
                    applied.extend(std::mem::take(&mut *sink.applied_in_sink.lock().unwrap()));
                }
            }
        }
    }
    // shut down on a surviving handle: the original, or (every other script with clones) a clone after the original
    // has been dropped; the other clones are dropped while that shutdown is being awaited / after it
    if script.len() % 2 == 1 && !clones.is_empty() {
        let survivor = clones.pop().unwrap();
        drop(reporter);
        let rest = std::mem::take(&mut clones);
        let (_, _) = tokio::join!(survivor.shutdown(), async move {
            tokio::task::yield_now().await;
            drop(rest);
        });
    } else {
        reporter.shutdown().await;
    }
    *sink.reporter.lock().unwrap() = None;
    let mut got = std::mem::take(&mut *sink.entries.lock().unwrap());
    let published = got.len();
    let (fin, no_final) = match got.pop() {
        Some((last, _)) => (last, false),
        None => (CanonEntry { ts: 1, split: 1, other_cfg: 0, items: vec![], errors: vec![] }, true),
    };
    let (mut failure, aggregate) = judge(ez, 1, std::slice::from_ref(&applied), &got, &fin, no_final);
    if no_final {
        // nothing at all was published: a loss exactly when something had been recorded
        failure = if applied.is_empty() {
            None
        } else {
            Some((
                "metricsrs:reporter-final-publish",
                format!(
                    "`shutdown().await` returned but no readout was ever published: the {} update(s) made before the shutdown call are lost",
                    applied.len()
                ),
            ))
        };
    }
    let log = sink.log.lock().unwrap().clone();
    ReporterScriptRun { log, applied, published, failure, aggregate }
}

fn run_reporter(c: &ReporterCase) -> Result<Vec<ReporterScriptRun>, String> {
    let rt = if c.mt {
        tokio::runtime::Builder::new_multi_thread().worker_threads(2).enable_time().build()
    } else {
        tokio::runtime::Builder::new_current_thread().enable_time().start_paused(true).build()
    }
    .map_err(|e| e.to_string())?;
    catch(|| {
        rt.block_on(async {
            let mut out = vec![];
            if c.scripts.len() == 2 {
                let (a, b) = tokio::join!(
                    run_reporter_script(c.ez, c.interval_ms, &c.scripts[0]),
                    run_reporter_script(c.ez, c.interval_ms, &c.scripts[1])
                );
                out.push(a);
                out.push(b);
            } else {
                for sc in &c.scripts {
                    out.push(run_reporter_script(c.ez, c.interval_ms, sc).await);
                }
            }
            out
        })
    })
}

fn reporter_failure(c: &ReporterCase) -> Option<(String, String)> {
    match run_reporter(c) {
        Err(p) => Some(("metricsrs:panic".into(), format!("panic: {p}"))),
        Ok(runs) => runs.into_iter().find_map(|r| r.failure.map(|(k, w)| (k.to_string(), w))),
    }
}

/// the task-level trace of a single-script `ct` case (current-thread runtime, paused clock: the schedule is
/// determined by the script) for the Lean model of the reporter task: `u` update, `c` cancel, `t0`/`t1` task step
fn reporter_task_trace(c: &ReporterCase) -> Option<String> {
    if c.mt || c.scripts.len() != 1 {
        return None;
    }
    let mut tr: Vec<&str> = vec![];
    let (mut started, mut now, mut next_tick) = (false, 0u64, 0u64);
    let iv = c.interval_ms;
    for st in &c.scripts[0] {
        if matches!(st, RStepH::Yield | RStepH::Sleep(_) | RStepH::CancelInSink(_)) && !started {
            // the spawned task is polled for the first time when the script first suspends
            tr.push("t0");
            started = true;
            next_tick = now + iv;
        }
        match st {
            RStepH::Op(_) => tr.push("u"),
            RStepH::CloneHandle => tr.push("k"),
            RStepH::DropHandle => tr.push("x"),
            RStepH::SwapRecorder => {}
            RStepH::Yield => {}
            RStepH::Sleep(ms) => {
                let end = now + ms;
                while next_tick <= end {
                    if next_tick == end {
                        return None; // the script's timer and the reporter's fire at the same instant: order unspecified
                    }
                    tr.push("t1");
                    next_tick += iv;
                }
                now = end;
            }
            RStepH::CancelInSink(ops) => {
                now = next_tick;
                next_tick += iv;
                tr.push("t1");
                for _ in ops {
                    tr.push("u");
                }
                tr.extend(["c", "t0", "t0"]);
            }
        }
    }
    tr.extend(["c", "t0", "t0"]);
    Some(format!("reportertask orig {}", tr.join(" ")))
}

fn gen_reporter_ops(rng: &mut Rng, n: usize) -> Vec<Op> {
    let keys: Vec<KeyId> = (0..rng.range(1, 3)).map(|_| gen_key(rng, true)).collect();
    (0..n)
        .map(|_| {
            let k = rng.pick(&keys).clone();
            match rng.below(10) {
                0..=4 => Op::C(k, rng.range(1, 9)),
                5 => Op::G(k, gen_gauge_bits(rng)),
                6 => {
                    if rng.chance(1, 2) {
                        Op::Gi(k, gen_gauge_amount(rng))
                    } else {
                        Op::Gd(k, gen_gauge_amount(rng))
                    }
                }
                7 => Op::D(k.name, rng.range(1, UNITS.len() as u64 - 1) as usize),
                8 => Op::Hm(k, gen_sample_bits(rng), rng.below(40)),
                _ => Op::H(k, gen_sample_bits(rng)),
            }
        })
        .collect()
}

fn gen_reporter_case(rng: &mut Rng, i: usize) -> ReporterCase {
    let mt = i % 5 == 4;
    // `ct`: interval 1000 ms, sleeps ≡ 100 (mod 1000), at most 9 of them: a script timer never coincides with a tick
    let interval_ms = if mt { rng.range(1, 3) } else { 1000 };
    let mut mk = |rng: &mut Rng, i: usize| -> Vec<RStepH> {
        let mut sc = vec![];
        // yields before the updates: 0, 1, 2
        for _ in 0..(i % 3) {
            sc.push(RStepH::Yield);
        }
        let mut sleeps = 0;
        let segments = if i % 4 == 0 { 1 } else { rng.range(1, 4) };
        for seg in 0..segments {
            let n_ops = rng.range(1, 6) as usize;
            for op in gen_reporter_ops(rng, n_ops) {
                sc.push(RStepH::Op(op));
            }
            if seg + 1 < segments && sleeps < 9 {
                sleeps += 1;
                sc.push(RStepH::Sleep(if mt { rng.range(1, 6) } else { rng.below(3) * 1000 + 100 }));
                if rng.chance(1, 3) {
                    sc.push(RStepH::Yield);
                }
            }
        }
        // handles are cloned and dropped at arbitrary points of the run (before the first poll, between publishes, …)
        if i % 2 == 1 {
            for _ in 0..rng.range(1, 3) {
                let at = rng.below(sc.len() as u64 + 1) as usize;
                sc.insert(at, RStepH::CloneHandle);
                if rng.chance(2, 3) {
                    let at2 = rng.range(at as u64 + 1, sc.len() as u64) as usize;
                    sc.insert(at2, RStepH::DropHandle);
                }
            }
            if rng.chance(1, 3) {
                let at = rng.below(sc.len() as u64 + 1) as usize;
                sc.insert(at, RStepH::SwapRecorder);
            }
        }
        // sometimes the shutdown starts right after a periodic publish, with updates in that window
        if (i / 3) % 4 == 3 {
            let n_ops = rng.range(1, 4) as usize;
            sc.push(RStepH::CancelInSink(gen_reporter_ops(rng, n_ops)));
        }
        // yields before the shutdown: 0, 1, 2
        for _ in 0..((i / 3) % 3) {
            sc.push(RStepH::Yield);
        }
        sc
    };
    let mut scripts = vec![mk(rng, i)];
    if i % 7 == 6 {
        scripts.push(mk(rng, i + 1));
    }
    ReporterCase { ez: rng.chance(1, 3), mt, interval_ms, scripts }
}

/// `build_and_install()` once per process: updates through the global recorder (macros without a local recorder)
/// from two threads, then `shutdown()`
fn run_global_reporter() -> Option<(&'static str, String)> {
    let rt = tokio::runtime::Builder::new_multi_thread().worker_threads(2).enable_time().build().ok()?;
    let sink = RSink {
        entries: Default::default(),
        log: Default::default(),
        armed: Default::default(),
        applied_in_sink: Default::default(),
        reporter: Default::default(),
        notify: Default::default(),
        k_done: Default::default(),
    };
    let reporter = {
        let _g = rt.enter();
        catch(|| {
            metrique_metricsrs::MetricReporter::builder()
                .metrics_sink((sink.clone(), ()))
                .metrics_publish_interval(std::time::Duration::from_millis(2))
                .metrics_rs_version::<dyn metrics::Recorder>()
                .build_and_install()
        })
        .ok()?
    };
    let k = KeyId { name: 0, labels: vec![] };
    let h = KeyId { name: 1, labels: vec![(0, 0)] };
    let g = KeyId { name: NAMES.len() - 1, labels: vec![] };
    let per_thread: Vec<Op> = (0..4000u64)
        .map(|i| match i % 7 {
            0 | 3 => Op::H(h.clone(), (i as f64).to_bits()),
            5 => Op::Hm(h.clone(), (i as f64).to_bits(), i % 5),
            4 => Op::Gi(g.clone(), ((1 + i % 9) as f64 / 4.0).to_bits()),
            6 => Op::Gd(g.clone(), ((1 + i % 5) as f64 / 4.0).to_bits()),
            _ => Op::C(k.clone(), 1 + i % 4),
        })
        .collect();
    std::thread::scope(|s| {
        for _ in 0..2 {
            s.spawn(|| {
                for op in &per_thread {
                    match op {
                        Op::C(k, n) => metrics::counter!(NAMES[k.name]).increment(*n),
                        Op::H(k, b) => metrics::histogram!(NAMES[k.name], LKEYS[0] => LVALS[0]).record(f64::from_bits(*b)),
                        Op::Hm(k, b, n) => metrics::histogram!(NAMES[k.name], LKEYS[0] => LVALS[0]).record_many(f64::from_bits(*b), *n as usize),
                        Op::Gi(k, b) => metrics::gauge!(NAMES[k.name]).increment(f64::from_bits(*b)),
                        Op::Gd(k, b) => metrics::gauge!(NAMES[k.name]).decrement(f64::from_bits(*b)),
                        _ => {}
                    }
                }
            });
        }
    });
    rt.block_on(reporter.shutdown());
    let mut got = std::mem::take(&mut *sink.entries.lock().unwrap());
    let Some((fin, _)) = got.pop() else {
        return Some(("metricsrs:reporter-final-publish", "global reporter: nothing published on shutdown".into()));
    };
    judge(false, 1, &[per_thread.clone(), per_thread.clone()], &got, &fin, false).0
}

// ------------------------------------------------------------------------------------------------

fn conc_failure(ez: bool, readers: usize, rep: usize, threads: &[Vec<Op>], tries: usize) -> Option<(String, String)> {
    for _ in 0..tries {
        let r = run_conc(ez, readers, rep, threads);
        if let Some(p) = r.panic {
            return Some(("metricsrs:panic".into(), format!("panic: {p}")));
        }
        if let Some((k, w)) = r.failure {
            return Some((k.to_string(), w));
        }
    }
    None
}

fn u32_probe() -> Option<(String, String, String)> {
    // 2^32 samples into one bucket between two readouts
    let rec: Rec = MetricRecorder::new();
    let h = rec.register_histogram(&Key::from_name("latency"), &META);
    let n: u64 = 1 << 32;
    for _ in 0..n {
        h.record(7.0);
    }
    let e = canon_entry(&replay(&rec.readout()));
    let got: u64 = e.items.iter().flat_map(|i| i.obs.iter()).map(|o| if let ObsC::R { occ, .. } = o { *occ } else { 0 }).sum();
    if got != n {
        return Some((
            "u32-probe 4294967296 x h:1:401c000000000000 R".to_string(),
            entry_str(&e),
            format!("{n} samples recorded into one bucket between two readouts, {got} occurrences reported (bucket.count() as u32)"),
        ));
    }
    None
}

fn main() {
    quiet_panics();
    let args = Args::parse();
    let mut rep = Report::new(
        &args,
        "metricsrs",
        "case = a sequential script (ops + readouts) or a concurrent run (op list per thread, reader threads); \
         non-trivial = script: at least one readout that reports a non-zero counter delta or a histogram bucket, preceded \
         by an earlier readout or describe; concurrent: at least one readout overlapped the updaters and at least one \
         counter or histogram was updated; distinct by case text",
    );
    let mut rng = Rng::new(args.seed);
    let thorough = args.thorough();
    // the 2^32-sample probe (≈ 1 minute of one core) runs beside everything else
    let probe = if args.extra.get("u32-probe").map(|v| v == "1").unwrap_or(false) && args.replay_case().is_none() {
        Some(std::thread::spawn(u32_probe))
    } else {
        None
    };
    let mut cases: Vec<Case> = vec![];
    if let Some(line) = args.replay_case() {
        match Case::decode(&line) {
            Some(c) => cases.push(c),
            None => rep.notes.push(format!("replay case not decodable: {line}")),
        }
    } else {
        for l in args.corpus_cases() {
            match Case::decode(&l) {
                Some(c) => cases.push(c),
                None => rep.notes.push(format!("corpus case not decodable: {l}")),
            }
        }
        cases.push(Case::Script { ez: false, ops: layout_sweep() });
        let n_script = if thorough { 40_000 } else { 2_500 };
        for i in 0..n_script {
            let len = match i % 10 {
                0 => rng.range(1, 6),
                1..=6 => rng.range(5, 40),
                _ => rng.range(40, 160),
            } as usize;
            let ops = gen_script(&mut rng, len, i % 3 != 0);
            cases.push(Case::Script { ez: rng.chance(1, 3), ops });
        }
        let n_conc = if thorough { 400 } else { 40 };
        for i in 0..n_conc {
            let threads = if i % 5 == 4 { rng.range(1, 4) as usize } else { 8 };
            let per = rng.range(50, 600) as usize;
            let rep = if i % 4 == 0 { 1 } else { rng.range(5, 60) as usize };
            let readers = if i % 7 == 6 { 2 } else if i % 7 == 3 { 0 } else { 1 };
            cases.push(Case::Conc { ez: rng.chance(1, 3), readers, rep, threads: gen_conc(&mut rng, threads, per) });
        }
    }

    if args.replay_case().is_none() {
        let n_window = if thorough { 60 } else { 8 };
        for i in 0..n_window {
            let fillers = [20_000usize, 60_000, 2_000, 120_000][i % 4];
            let rounds = (0..rng.range(6, 10)).map(|_| (*rng.pick(&['c', 'g', 'h', 'h']), rng.range(1, UNITS.len() as u64 - 1) as usize)).collect();
            // windows first: they are the cheapest way to fail fast on an ordering defect
            cases.insert(i, Case::Window(WindowCase { ez: i % 3 != 2, fillers, rounds }));
        }
    }
    if args.replay_case().is_none() {
        let n_rep = if thorough { 1500 } else { 150 };
        for i in 0..n_rep {
            cases.push(Case::Reporter(gen_reporter_case(&mut rng, i)));
        }
    }
    install_window_hook();

    let mut requests: Vec<String> = vec![];
    let mut expect: Vec<(usize, String, &'static str, BTreeSet<KeyId>)> = vec![];
    let mut encoded: Vec<String> = vec![];
    for (ci, c) in cases.iter().enumerate() {
        let enc = c.encode();
        match c {
            Case::Script { ez, ops } => {
                let r = run_script(*ez, ops);
                let nontrivial = {
                    let mut earlier = false;
                    let mut pending = false;
                    let mut nt = false;
                    for o in ops {
                        match o {
                            Op::R => {
                                if pending && earlier {
                                    nt = true;
                                }
                                earlier = true;
                                pending = false;
                            }
                            Op::C(_, n) | Op::Ci(_, n) | Op::Ca(_, n) if *n > 0 => pending = true,
                            Op::H(..) => pending = true,
                            Op::Hm(_, _, n) if *n > 0 => pending = true,
                            Op::D(..) => earlier = true,
                            _ => {}
                        }
                    }
                    nt
                };
                rep.case(&enc, nontrivial);
                rep.bump("kind:script");
                rep.bump(&format!("script-len:{}", match ops.len() { 0..=8 => "1-8", 9..=40 => "9-40", 41..=200 => "41-200", _ => ">200" }));
                for o in ops {
                    rep.bump(op_kind(o));
                }
                // describe before / after the first registration of the name
                let mut registered: BTreeSet<usize> = BTreeSet::new();
                for o in ops {
                    match o {
                        Op::RegC(k) | Op::RegG(k) | Op::RegH(k) | Op::C(k, _) | Op::G(k, _) | Op::H(k, _) | Op::Hm(k, _, _) | Op::Ca(k, _) | Op::Gi(k, _) | Op::Gd(k, _) => {
                            registered.insert(k.name);
                        }
                        Op::D(n, _) => rep.bump(if registered.contains(n) { "describe:after-register" } else { "describe:before-register" }),
                        _ => {}
                    }
                }
                let failure = r.panic.as_ref().map(|p| ("metricsrs:panic".to_string(), format!("panic: {p}"))).or(r
                    .failure
                    .as_ref()
                    .map(|(k, w)| (k.to_string(), w.clone())));
                if failure.is_some() {
                    rep.bump("oracle-failing-cases");
                }
                if let Some((key, _)) = failure.filter(|(k, _)| !rep.oracle_failures.iter().any(|f| f.key == *k)) {
                    let ez = *ez;
                    let small = shrink_list(ops, |cand| {
                        Case::decode(&Case::Script { ez, ops: cand.to_vec() }.encode()).is_some()
                            && script_failure(ez, cand).map(|(k, _)| k == key).unwrap_or(false)
                    });
                    let rr = run_script(ez, &small);
                    let what = script_failure(ez, &small).map(|(_, w)| w).unwrap_or_default();
                    rep.oracle_failure(&key, &Case::Script { ez, ops: small }.encode(), &rr.entries.join(" # "), &what);
                }
                if ci % 397 == 1 && ops.len() < 30 {
                    rep.sample(json!({"case": enc, "impl": r.entries.join(" # ")}));
                }
                requests.push(enc.clone());
                expect.push((ci, if r.entries.is_empty() { "-".into() } else { r.entries.join(" # ") }, "metricsrs/script", BTreeSet::new()));
            }
            Case::Window(w) => {
                let r = run_window(w);
                rep.case(&enc, r.hits > 0);
                rep.bump("kind:window");
                rep.bump_by("window:rounds", w.rounds.len() as u64);
                rep.bump_by("window:rounds reported by the readout in progress", r.hits as u64);
                rep.bump_by("window:rounds through hook point 20", r.hook_rounds as u64);
                rep.traces_validated += 1;
                if r.failure.is_some() {
                    rep.bump("oracle-failing-cases");
                }
                if let Some((key, what)) = r.failure.clone().filter(|(k, _)| !rep.oracle_failures.iter().any(|f| f.key == *k)) {
                    let small = shrink_list(&w.rounds, |cand| {
                        let wc = WindowCase { ez: w.ez, fillers: w.fillers, rounds: cand.to_vec() };
                        (0..3).any(|_| run_window(&wc).failure.map(|(k, _)| k == key).unwrap_or(false))
                    });
                    let wc = WindowCase { ez: w.ez, fillers: w.fillers, rounds: small };
                    let rr = run_window(&wc);
                    rep.oracle_failure(
                        key,
                        &wc.encode(),
                        &rr.first_reports.iter().map(|f| f.clone().unwrap_or("-".into())).collect::<Vec<_>>().join(" ; "),
                        &rr.failure.map(|(_, w)| w).unwrap_or(what),
                    );
                }
                if ci < 2 {
                    rep.sample(json!({"case": enc, "first_reports": r.first_reports, "hits": r.hits}));
                }
                for (round, (kind, unit)) in w.rounds.iter().enumerate() {
                    requests.push(window_model_request(w.ez, round, *kind, *unit));
                    // `masked` carries the fresh name: only that item of the model's entry is compared
                    let mut fresh = BTreeSet::new();
                    fresh.insert(KeyId { name: FRESH_BASE + round, labels: vec![] });
                    expect.push((ci, r.first_reports[round].clone().unwrap_or("-".into()), "metricsrs/window", fresh));
                }
            }
            Case::Reporter(rc) => {
                let runs = run_reporter(rc);
                let n_updates: usize = rc.scripts.iter().flatten().filter(|s| matches!(s, RStepH::Op(_) | RStepH::CancelInSink(_))).count();
                rep.case(&enc, n_updates > 0);
                rep.bump("kind:reporter");
                for st in rc.scripts.iter().flatten() {
                    match st {
                        RStepH::Op(o) => rep.bump(&format!("reporter-{}", op_kind(o))),
                        RStepH::CancelInSink(ops) => ops.iter().for_each(|o| rep.bump(&format!("reporter-{}", op_kind(o)))),
                        _ => {}
                    }
                }
                rep.bump(if rc.mt { "reporter:multi-thread runtime" } else { "reporter:current-thread runtime (paused clock)" });
                rep.bump(&format!("reporter:scripts:{}", rc.scripts.len()));
                let first = rc.scripts[0].iter().position(|s| matches!(s, RStepH::Op(_)));
                let suspends_before = rc.scripts[0].iter().take(first.unwrap_or(0)).filter(|s| !matches!(s, RStepH::Op(_))).count();
                rep.bump(&format!("reporter:suspensions before the first update:{}", suspends_before.min(2)));
                let last = rc.scripts[0].iter().rposition(|s| matches!(s, RStepH::Op(_) | RStepH::CancelInSink(_)));
                let after = rc.scripts[0].iter().skip(last.map(|l| l + 1).unwrap_or(0)).count();
                rep.bump(&format!("reporter:suspensions between the last update and shutdown:{}", after.min(2)));
                let drops = rc.scripts.iter().flatten().filter(|s| matches!(s, RStepH::DropHandle)).count();
                if drops > 0 {
                    rep.bump_by("reporter:MetricReporter clones dropped before shutdown", drops as u64);
                }
                if rc.scripts.iter().flatten().any(|s| matches!(s, RStepH::SwapRecorder)) {
                    rep.bump("reporter:MetricRecorder handle cloned, original dropped");
                }
                if rc.scripts.iter().flatten().any(|s| matches!(s, RStepH::CancelInSink(_))) {
                    rep.bump("reporter:shutdown started right after a periodic publish");
                }
                rep.traces_validated += 1;
                let failure = match &runs {
                    Err(p) => Some(("metricsrs:panic".to_string(), format!("panic: {p}"))),
                    Ok(rs) => rs.iter().find_map(|r| r.failure.clone().map(|(k, w)| (k.to_string(), w))),
                };
                if failure.is_some() {
                    rep.bump("oracle-failing-cases");
                }
                if let Some((key, what)) = failure.filter(|(k, _)| !rep.oracle_failures.iter().any(|f| f.key == *k)) {
                    // shrink: fewer scripts, then fewer steps
                    let mut cur = rc.clone();
                    let tries = if rc.mt { 4 } else { 1 };
                    let fails = |c: &ReporterCase| {
                        ReporterCase::decode(&c.encode()).is_some()
                            && (0..tries).any(|_| reporter_failure(c).map(|(k, _)| k == key).unwrap_or(false))
                    };
                    if cur.scripts.len() > 1 {
                        for i in 0..cur.scripts.len() {
                            let one = ReporterCase { scripts: vec![cur.scripts[i].clone()], ..cur.clone() };
                            if fails(&one) {
                                cur = one;
                                break;
                            }
                        }
                    }
                    for si in 0..cur.scripts.len() {
                        let base = cur.clone();
                        let small = shrink_list(&cur.scripts[si], |cand| {
                            let mut c2 = base.clone();
                            c2.scripts[si] = cand.to_vec();
                            fails(&c2)
                        });
                        cur.scripts[si] = small;
                    }
                    let what2 = reporter_failure(&cur).map(|(_, w)| w).unwrap_or(what);
                    let imp = run_reporter(&cur).map(|rs| rs.iter().map(|r| format!("{} published; log {}", r.published, r.log)).collect::<Vec<_>>().join(" | ")).unwrap_or_default();
                    rep.oracle_failure(&key, &cur.encode(), &imp, &what2);
                }
                if let Ok(rs) = &runs {
                    rep.bump_by("reporter:published readouts", rs.iter().map(|r| r.published as u64).sum());
                    if ci % 41 == 0 {
                        rep.sample(json!({"case": enc, "log": rs.iter().map(|r| r.log.clone()).collect::<Vec<_>>()}));
                    }
                    for r in rs {
                        let (req, masked) = conc_model_request(rc.ez, 1, std::slice::from_ref(&r.applied));
                        requests.push(req);
                        expect.push((ci, mask_gauges(&r.aggregate, &masked), "metricsrs/reporter-aggregate", masked));
                    }
                    if let Some(req) = reporter_task_trace(rc) {
                        requests.push(req);
                        expect.push((ci, format!("{}- done", rs[0].log), "metricsrs/reporter-task", BTreeSet::new()));
                    }
                }
            }
            Case::Conc { ez, readers, rep: reps, threads } => {
                let r = run_conc(*ez, *readers, *reps, threads);
                let updated = threads.iter().flatten().any(|o| matches!(o, Op::C(..) | Op::H(..)));
                rep.case(&enc, r.overlapping_readouts > 0 && updated);
                rep.bump("kind:concurrent");
                for o in threads.iter().flatten() {
                    rep.bump_by(&format!("conc-{}", op_kind(o)), *reps as u64);
                }
                rep.bump(&format!("conc-threads:{}", threads.len()));
                rep.bump(&format!("conc-readers:{}", if *readers == 0 { "MetricReporter task".to_string() } else { readers.to_string() }));
                rep.bump_by("conc:readouts", r.readouts as u64);
                rep.bump_by("conc:readouts-overlapping-updaters", r.overlapping_readouts as u64);
                rep.bump_by("conc:ops", threads.iter().map(|t| (t.len() * *reps) as u64).sum());
                rep.traces_validated += 1;
                let failure = r.panic.as_ref().map(|p| ("metricsrs:panic".to_string(), format!("panic: {p}"))).or(r
                    .failure
                    .as_ref()
                    .map(|(k, w)| (k.to_string(), w.clone())));
                if failure.is_some() {
                    rep.bump("oracle-failing-cases");
                }
                // one shrunk witness per failure class is enough (shrinking a concurrent case re-runs it many times)
                if let Some((key, what)) = failure.filter(|(k, _)| !rep.oracle_failures.iter().any(|f| f.key == *k)) {
                    // shrink thread by thread; a candidate counts as failing if it fails in one of 6 runs
                    let (ez, readers, reps) = (*ez, *readers, *reps);
                    let mut cur: Vec<Vec<Op>> = threads.clone();
                    let t0 = std::time::Instant::now();
                    for ti in 0..cur.len() {
                        if t0.elapsed().as_secs() > 20 {
                            break;
                        }
                        let others = cur.clone();
                        let small = shrink_list(&cur[ti], |cand| {
                            if t0.elapsed().as_secs() > 20 {
                                return false;
                            }
                            let mut th = others.clone();
                            th[ti] = cand.to_vec();
                            conc_failure(ez, readers, reps, &th, 6).map(|(k, _)| k == key).unwrap_or(false)
                        });
                        cur[ti] = small;
                    }
                    cur.retain(|t| !t.is_empty());
                    let what2 = conc_failure(ez, readers, reps, &cur, 12).map(|(_, w)| w).unwrap_or(what);
                    rep.oracle_failure(&key, &Case::Conc { ez, readers, rep: reps, threads: cur }.encode(), &r.aggregate, &what2);
                }
                if ci % 13 == 0 && threads.iter().map(|t| t.len()).sum::<usize>() < 2000 {
                    rep.sample(json!({"case": format!("{}…", &enc[..enc.len().min(300)]), "aggregate": r.aggregate, "readouts": r.readouts}));
                }
                let (req, masked) = conc_model_request(*ez, *reps, threads);
                requests.push(req);
                expect.push((ci, mask_gauges(&r.aggregate, &masked), "metricsrs/concurrent-aggregate", masked));
            }
        }
        encoded.push(enc);
    }

    if args.replay_case().is_none() {
        rep.bump("reporter:global recorder (build_and_install) scenario");
        if let Some((key, what)) = run_global_reporter() {
            rep.oracle_failure(key, "reporter-global 2 threads x 4000 ops", "", &what);
        }
    }
    if let Some(h) = probe {
        if let Ok(Some((case, imp, what))) = h.join() {
            rep.oracle_failure("metricsrs:hist-count-u32-truncation", &case, &imp, &what);
        }
        rep.bump("u32-probe:ran");
    }

    if let Some(p) = args.extra.get("dump-requests") {
        let _ = std::fs::write(p, requests.join("\n") + "\n");
    }
    // the model side runs in parallel driver processes (request order is kept)
    let shards = if thorough { 12 } else { 4 };
    let replies: Option<Vec<String>> = std::thread::scope(|s| {
        let hs: Vec<_> = (0..shards)
            .map(|sh| {
                let driver = args.driver.clone();
                let mine: Vec<String> = requests.iter().skip(sh).step_by(shards).cloned().collect();
                s.spawn(move || run_driver(&driver, "metricsrs", &mine))
            })
            .collect();
        let mut per: Vec<std::vec::IntoIter<String>> = vec![];
        for h in hs {
            per.push(h.join().ok().flatten()?.into_iter());
        }
        let mut out = Vec::with_capacity(requests.len());
        for i in 0..requests.len() {
            out.push(per[i % shards].next()?);
        }
        Some(out)
    });
    match replies {
        Some(replies) => {
            let mut disagreeing: Vec<usize> = vec![];
            for ((ci, want, component, masked), reply) in expect.iter().zip(replies.iter()) {
                let got = if *component == "metricsrs/reporter-task" {
                    reply.clone()
                } else if *component == "metricsrs/window" {
                    let name = masked.iter().next().map(|k| k.name.to_string()).unwrap_or_default();
                    reply.split(';').find(|it| it.split('|').nth(1) == Some(name.as_str())).unwrap_or("-").to_string()
                } else {
                    mask_gauges(&canon_model_reply(reply), masked)
                };
                if *want != got {
                    disagreeing.push(*ci);
                    // the first disagreeing script is shrunk (model and implementation re-run on every candidate)
                    if let (Case::Script { ez, ops }, true) = (&cases[*ci], disagreeing.len() == 1) {
                        let differs = |cand: &[Op]| -> Option<(String, String)> {
                            let line = Case::Script { ez: *ez, ops: cand.to_vec() }.encode();
                            Case::decode(&line)?;
                            let r = run_script(*ez, cand);
                            let imp = if r.entries.is_empty() { "-".to_string() } else { r.entries.join(" # ") };
                            let m = canon_model_reply(run_driver(&args.driver, "metricsrs", &[line])?.first()?);
                            if imp != m { Some((imp, m)) } else { None }
                        };
                        let small = shrink_list(ops, |cand| differs(cand).is_some());
                        if let Some((imp, m)) = differs(&small) {
                            rep.disagreement(component, &Case::Script { ez: *ez, ops: small }.encode(), &imp, &m);
                            continue;
                        }
                    }
                    let case = &encoded[*ci];
                    let case = if case.len() > 4000 { format!("{}…", &case[..4000]) } else { case.clone() };
                    rep.disagreement(component, &case, want, &got);
                }
            }
            rep.bump_by("model requests", requests.len() as u64);
            // a disagreement without an oracle failure: search the neighbourhood with the oracle only
            if !disagreeing.is_empty() && rep.oracle_failures.is_empty() {
                let budget = if thorough { 40_000 } else { 25_000 };
                let mut srng = rng.fork(77);
                'search: for round in 0..budget {
                    let ci = disagreeing[round % disagreeing.len()];
                    let found = match &cases[ci] {
                        Case::Script { ez, ops } => {
                            // neighbours: a random sub-script, with extra readouts
                            let mut cand: Vec<Op> = ops.iter().filter(|_| srng.chance(3, 4)).cloned().collect();
                            if srng.chance(1, 2) {
                                let at = srng.below(cand.len() as u64 + 1) as usize;
                                cand.insert(at, Op::R);
                            }
                            cand.push(Op::R);
                            if Case::decode(&Case::Script { ez: *ez, ops: cand.clone() }.encode()).is_none() {
                                continue;
                            }
                            rep.search_cases += 1;
                            script_failure(*ez, &cand).map(|(k, w)| (k, Case::Script { ez: *ez, ops: cand }.encode(), w))
                        }
                        Case::Reporter(rc) => {
                            if round > 200 {
                                break 'search;
                            }
                            rep.search_cases += 1;
                            reporter_failure(rc).map(|(k, wh)| (k, rc.encode(), wh))
                        }
                        Case::Window(w) => {
                            if round > 60 {
                                break 'search;
                            }
                            rep.search_cases += 1;
                            run_window(w).failure.map(|(k, wh)| (k.to_string(), w.encode(), wh))
                        }
                        Case::Conc { ez, readers, rep: reps, threads } => {
                            if round > 200 {
                                break 'search;
                            }
                            rep.search_cases += 1;
                            conc_failure(*ez, *readers, *reps, threads, 1).map(|(k, w)| (k, cases[ci].encode(), w))
                        }
                    };
                    if let Some((k, case, w)) = found {
                        rep.search_found = true;
                        rep.oracle_failure(&k, &case, "(found by the search after a model disagreement)", &w);
                        break;
                    }
                }
            }
        }
        None => rep.driver_available = false,
    }
    rep.write(&args);
}
