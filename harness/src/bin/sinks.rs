//! Engine `sinks` (C16, sink level): errors returned by streams never stop a sink.
//!
//! Case line = the Lean request: `<tree> <kind> <entry>,<entry>,…` (see lean/Driver/Sinks.lean), kinds:
//!   imm     FlushImmediately<IdEntry, Tee…>           (model: imm)
//!   immbox  FlushImmediately::new_boxed → BoxEntrySink (model: imm)
//!   immany  AnyFlushImmediately                        (model: imm)
//!   dir     Tee::next called directly                  (model: dir; results compared)
//!   bgq     BackgroundQueue over the tee, flush, drop  (model: imm, `next` logs only)
//!   fmt     FlushImmediately over Emf.output_to(writer failing hard at scripted calls) (oracle only)
//!   fmtseq  one persistent validating Emf behind FlushImmediately / BackgroundQueue, mixed plain / split /
//!           rejected entries: the writer must receive exactly the accepted entries' records, entry by entry (oracle only)
//!   fmtbuf  Emf.output_to(buffering writer whose flush may fail and keep its buffer), called directly / behind
//!           FlushImmediately / behind BackgroundQueue (model: Sinks.FmtBuf, request `B …`; oracle: an Ok flush
//!           delivers everything accepted so far, whatever failed before)
//!
//! Oracle (from the property, not from the model): every leaf stream receives every appended entry
//! exactly once in append order whatever any stream returned; every leaf is flushed after every
//! entry (immediate sinks) / at least once after the last entry (background queue); a tee returns
//! the first error in branch order; nothing panics; with a failing writer only the failing entry's
//! record is missing from the output and every other record is complete.

use metrique_writer::sink::{AnyFlushImmediately, BackgroundQueueBuilder, FlushImmediately};
use metrique_writer::stream::{EntryIoStreamExt, tee};
use metrique_writer::{AnyEntrySink, FormatExt};
use metrique_writer_core::{Entry, EntryIoStream, EntrySink, EntryWriter, IoStreamError, Observation, ValidationError, Value, ValueWriter};
use metrique_writer_format_emf::Emf;
use std::collections::HashMap;
use std::io;
use std::sync::{Arc, Mutex};
use std::time::Duration;
use verif_harness::*;

#[derive(Clone, Copy, Debug, PartialEq)]
enum Res {
    Ok,
    Validation,
    Io,
}

#[derive(Clone, Debug, PartialEq)]
enum Call {
    Next(u64),
    Report,
    Flush,
}

struct IdEntry(u64);
impl Entry for IdEntry {
    fn write<'a>(&'a self, w: &mut impl EntryWriter<'a>) {
        w.timestamp(std::time::SystemTime::UNIX_EPOCH);
        w.value("Id", &self.0);
    }
}

/// extracts the `Id` value an entry writes (None for the in-band error report)
struct IdProbe(Option<u64>);
impl<'a> EntryWriter<'a> for IdProbe {
    fn timestamp(&mut self, _: std::time::SystemTime) {}
    fn value(&mut self, name: impl Into<std::borrow::Cow<'a, str>>, value: &(impl Value + ?Sized)) {
        if name.into() == "Id" {
            struct VW<'b>(&'b mut Option<u64>);
            impl ValueWriter for VW<'_> {
                fn string(self, _: &str) {}
                fn metric<'a>(
                    self,
                    distribution: impl IntoIterator<Item = Observation>,
                    _: metrique_writer_core::Unit,
                    _: impl IntoIterator<Item = (&'a str, &'a str)>,
                    _: metrique_writer_core::MetricFlags<'_>,
                ) {
                    if let Some(Observation::Unsigned(v)) = distribution.into_iter().next() {
                        *self.0 = Some(v);
                    }
                }
                fn error(self, _: ValidationError) {}
            }
            value.write(VW(&mut self.0));
        }
    }
    fn config(&mut self, _: &'a dyn metrique_writer_core::EntryConfig) {}
}

type Log = Arc<Mutex<Vec<(usize, Call)>>>;

struct ScriptedStream {
    leaf: usize,
    log: Log,
    res: Arc<HashMap<(usize, u64), Res>>,
    /// result of the k-th flush of this leaf (true = Ok)
    fres: Arc<Vec<Vec<bool>>>,
    flushes: usize,
}

impl EntryIoStream for ScriptedStream {
    fn next(&mut self, entry: &impl Entry) -> Result<(), IoStreamError> {
        let mut p = IdProbe(None);
        entry.write(&mut p);
        match p.0 {
            Some(id) => {
                self.log.lock().unwrap().push((self.leaf, Call::Next(id)));
                match self.res.get(&(self.leaf, id)).copied().unwrap_or(Res::Ok) {
                    Res::Ok => Ok(()),
                    Res::Validation => Err(IoStreamError::Validation(ValidationError::invalid("scripted"))),
                    Res::Io => Err(IoStreamError::Io(io::Error::new(io::ErrorKind::BrokenPipe, "scripted"))),
                }
            }
            None => {
                self.log.lock().unwrap().push((self.leaf, Call::Report));
                Ok(())
            }
        }
    }
    fn flush(&mut self) -> io::Result<()> {
        self.log.lock().unwrap().push((self.leaf, Call::Flush));
        let k = self.flushes;
        self.flushes += 1;
        let ok = self.fres.get(k).and_then(|v| v.get(self.leaf)).copied().unwrap_or(true);
        if ok { Ok(()) } else { Err(io::Error::new(io::ErrorKind::Other, "scripted flush")) }
    }
}

#[derive(Clone)]
struct Ent {
    id: u64,
    res: Vec<Res>,
    fres: Vec<bool>,
}

#[derive(Clone)]
struct Case {
    shape: usize,
    kind: String,
    ents: Vec<Ent>,
}

const SHAPES: &[(&str, usize)] = &[
    ("0", 1),
    ("0.1.t", 2),
    ("0.1.t.2.t", 3),
    ("0.1.2.t.t", 3),
    ("0.1.t.2.3.t.t", 4),
    ("0.1.t.2.t.3.t", 4),
];

impl Case {
    fn encode(&self) -> String {
        let ents = if self.ents.is_empty() {
            "-".to_string()
        } else {
            self.ents
                .iter()
                .map(|e| {
                    format!(
                        "{}:{}:{}",
                        e.id,
                        e.res.iter().map(|r| match r { Res::Ok => 'o', Res::Validation => 'v', Res::Io => 'i' }).collect::<String>(),
                        e.fres.iter().map(|b| if *b { 'o' } else { 'f' }).collect::<String>()
                    )
                })
                .collect::<Vec<_>>()
                .join(",")
        };
        format!("{} {} {}", SHAPES[self.shape].0, self.kind, ents)
    }
    fn decode(s: &str) -> Option<Case> {
        let p: Vec<&str> = s.split(' ').collect();
        if p.len() != 3 {
            return None;
        }
        let shape = SHAPES.iter().position(|x| x.0 == p[0])?;
        let ents = if p[2] == "-" {
            vec![]
        } else {
            p[2].split(',')
                .map(|e| {
                    let f: Vec<&str> = e.split(':').collect();
                    if f.len() != 3 {
                        return None;
                    }
                    Some(Ent {
                        id: f[0].parse().ok()?,
                        res: f[1].chars().map(|c| match c { 'o' => Some(Res::Ok), 'v' => Some(Res::Validation), 'i' => Some(Res::Io), _ => None }).collect::<Option<Vec<_>>>()?,
                        fres: f[2].chars().map(|c| match c { 'o' => Some(true), 'f' => Some(false), _ => None }).collect::<Option<Vec<_>>>()?,
                    })
                })
                .collect::<Option<Vec<_>>>()?
        };
        Some(Case { shape, kind: p[1].to_string(), ents })
    }
    /// the request for the model (bgq/immbox/immany are `imm` there)
    fn model_request(&self) -> String {
        let mut c = self.clone();
        if c.kind != "dir" {
            c.kind = "imm".into();
        }
        c.encode()
    }
}

struct Observed {
    log: Vec<(usize, Call)>,
    results: String,
    panic: Option<String>,
}

fn run_on<S: EntryIoStream + Send + Sync + 'static>(stream: S, c: &Case) -> (String, Option<String>) {
    let mut results = String::new();
    let kind = c.kind.clone();
    let ids: Vec<u64> = c.ents.iter().map(|e| e.id).collect();
    let r = catch(move || {
        match kind.as_str() {
            "imm" => {
                let sink = FlushImmediately::<IdEntry, _>::new(stream);
                for id in ids {
                    sink.append(IdEntry(id));
                }
            }
            "immbox" => {
                let sink = FlushImmediately::new_boxed(stream);
                for id in ids {
                    sink.append(IdEntry(id).boxed());
                }
            }
            "immany" => {
                let sink = AnyFlushImmediately::new(stream);
                for id in ids {
                    sink.append_any(IdEntry(id));
                }
            }
            "dir" => {
                let mut s = stream;
                for id in ids {
                    results.push(match s.next(&IdEntry(id)) {
                        Ok(()) => 'o',
                        Err(IoStreamError::Validation(_)) => 'v',
                        Err(IoStreamError::Io(_)) => 'i',
                    });
                }
            }
            "bgq" => {
                let n_ids = ids.len();
                let (q, handle) = BackgroundQueueBuilder::new()
                    .capacity(ids.len().max(1) + 8)
                    .flush_interval(Duration::from_secs(50))
                    .build::<IdEntry>(stream);
                for id in ids {
                    q.append(IdEntry(id));
                }
                // half of the cases: no flush before the shutdown, so the entries (failing ones included)
                // are drained by `shut_down` itself — an error there must not stop the drain either
                if n_ids % 2 == 0 {
                    let rt = tokio::runtime::Builder::new_current_thread().enable_all().build().unwrap();
                    rt.block_on(q.flush_async());
                }
                drop(handle);
            }
            _ => {}
        }
        results
    });
    match r {
        Ok(res) => (res, None),
        Err(p) => (String::new(), Some(p)),
    }
}

fn leaf(i: usize, log: &Log, res: &Arc<HashMap<(usize, u64), Res>>, fres: &Arc<Vec<Vec<bool>>>) -> ScriptedStream {
    ScriptedStream { leaf: i, log: log.clone(), res: res.clone(), fres: fres.clone(), flushes: 0 }
}

fn run_impl(c: &Case) -> Observed {
    let log: Log = Default::default();
    let mut res = HashMap::new();
    for e in &c.ents {
        for (l, r) in e.res.iter().enumerate() {
            res.insert((l, e.id), *r);
        }
    }
    let res = Arc::new(res);
    let fres: Arc<Vec<Vec<bool>>> = Arc::new(c.ents.iter().map(|e| e.fres.clone()).collect());
    let l = |i| leaf(i, &log, &res, &fres);
    let (results, panic) = match c.shape {
        0 => run_on(l(0), c),
        1 => run_on(tee(l(0), l(1)), c),
        2 => run_on(tee(l(0), l(1)).tee(l(2)), c),
        3 => run_on(l(0).tee(tee(l(1), l(2))), c),
        4 => run_on(tee(tee(l(0), l(1)), tee(l(2), l(3))), c),
        _ => run_on(l(0).tee(l(1)).tee(l(2)).tee(l(3)), c),
    };
    let log = log.lock().unwrap().clone();
    Observed { log, results, panic }
}

fn canonical(c: &Case, o: &Observed, with_flushes: bool) -> String {
    let n = SHAPES[c.shape].1;
    let per_leaf: Vec<String> = (0..n)
        .map(|l| {
            let ns: Vec<String> = o.log.iter().filter_map(|(i, call)| match call { Call::Next(id) if *i == l => Some(id.to_string()), _ => None }).collect();
            let fl = o.log.iter().filter(|(i, call)| *i == l && *call == Call::Flush).count();
            if with_flushes {
                format!("{}={}/{}", l, if ns.is_empty() { "-".to_string() } else { ns.join(",") }, fl)
            } else {
                format!("{}={}", l, if ns.is_empty() { "-".to_string() } else { ns.join(",") })
            }
        })
        .collect();
    format!("{} | {}", per_leaf.join(" "), o.results)
}

fn strip_flushes(model: &str) -> String {
    // "0=7,8/2 1=7,8/2 | " -> "0=7,8 1=7,8 | "
    let (a, b) = model.split_once(" | ").unwrap_or((model, ""));
    let per: Vec<String> = a.split(' ').map(|p| p.split('/').next().unwrap_or("").to_string()).collect();
    format!("{} | {}", per.join(" "), b)
}

fn oracle(c: &Case, o: &Observed) -> Option<String> {
    if let Some(p) = &o.panic {
        return Some(format!("panicked: {p}"));
    }
    let n = SHAPES[c.shape].1;
    let ids: Vec<u64> = c.ents.iter().map(|e| e.id).collect();
    for l in 0..n {
        let seen: Vec<u64> = o.log.iter().filter_map(|(i, call)| match call { Call::Next(id) if *i == l => Some(*id), _ => None }).collect();
        if seen != ids {
            return Some(format!("leaf stream {l} received {seen:?}, appended {ids:?}"));
        }
        let flushes = o.log.iter().filter(|(i, call)| *i == l && *call == Call::Flush).count();
        match c.kind.as_str() {
            "imm" | "immbox" | "immany" => {
                if flushes != ids.len() {
                    return Some(format!("leaf stream {l} flushed {flushes} times for {} entries", ids.len()));
                }
                // each entry is followed by a flush of this leaf before the next entry arrives
                let mine: Vec<&Call> = o.log.iter().filter(|(i, _)| *i == l).map(|(_, c)| c).collect();
                for w in mine.chunks(2) {
                    if !(w.len() == 2 && matches!(w[0], Call::Next(_)) && *w[1] == Call::Flush) {
                        return Some(format!("leaf stream {l}: calls are not next,flush,next,flush…"));
                    }
                }
            }
            "bgq" => {
                if !ids.is_empty() {
                    let last_next = o.log.iter().rposition(|(i, call)| *i == l && matches!(call, Call::Next(_)));
                    let last_flush = o.log.iter().rposition(|(i, call)| *i == l && *call == Call::Flush);
                    if !(last_flush.is_some() && last_flush > last_next) {
                        return Some(format!("leaf stream {l} not flushed after its last entry"));
                    }
                }
                // an in-band report may only directly follow (for this leaf) a next that the *tee* failed validation on
                // (checked loosely: a report needs some validation result in the script)
                let reports = o.log.iter().filter(|(i, call)| *i == l && *call == Call::Report).count();
                if reports > 0 && !c.ents.iter().any(|e| e.res.contains(&Res::Validation)) {
                    return Some("in-band error report without any validation error".into());
                }
            }
            _ => {}
        }
    }
    if c.kind == "dir" {
        let want: String = c
            .ents
            .iter()
            .map(|e| match e.res.iter().take(n).find(|r| **r != Res::Ok) {
                None => 'o',
                Some(Res::Validation) => 'v',
                Some(_) => 'i',
            })
            .collect();
        if o.results != want {
            return Some(format!("tee results {} but the first failing branch gives {}", o.results, want));
        }
    }
    None
}

// ---- fmt kind: real Emf over a writer that fails hard at scripted write calls -------------------

struct FailAt {
    fail: Vec<usize>,
    call: usize,
    out: Arc<Mutex<Vec<u8>>>,
}
impl io::Write for FailAt {
    fn write(&mut self, buf: &[u8]) -> io::Result<usize> {
        let k = self.call;
        self.call += 1;
        if self.fail.contains(&k) {
            return Err(io::Error::new(io::ErrorKind::BrokenPipe, "scripted"));
        }
        self.out.lock().unwrap().extend_from_slice(buf);
        Ok(buf.len())
    }
    fn write_vectored(&mut self, bufs: &[io::IoSlice<'_>]) -> io::Result<usize> {
        let k = self.call;
        self.call += 1;
        if self.fail.contains(&k) {
            return Err(io::Error::new(io::ErrorKind::BrokenPipe, "scripted"));
        }
        let mut n = 0;
        for b in bufs {
            self.out.lock().unwrap().extend_from_slice(b);
            n += b.len();
        }
        Ok(n)
    }
    fn flush(&mut self) -> io::Result<()> {
        Ok(())
    }
}

#[derive(Default)]
struct FailState {
    /// write calls (by index) that fail hard / return Ok(0)
    hard: Vec<usize>,
    zero: Vec<usize>,
    call: usize,
    out: Vec<u8>,
}

#[derive(Clone)]
struct SharedFail(Arc<Mutex<FailState>>);

impl SharedFail {
    fn respond(&self, bufs: &[&[u8]]) -> io::Result<usize> {
        let mut st = self.0.lock().unwrap();
        let k = st.call;
        st.call += 1;
        if st.hard.contains(&k) {
            // the kind of a hard error must not matter (alternate: a formatter that retries "transient" kinds would
            // deliver the failed entry's record after all)
            let kind = [io::ErrorKind::BrokenPipe, io::ErrorKind::WouldBlock, io::ErrorKind::TimedOut][k % 3];
            return Err(io::Error::new(kind, "scripted"));
        }
        if st.zero.contains(&k) {
            return Ok(0);
        }
        let mut n = 0;
        for b in bufs {
            st.out.extend_from_slice(b);
            n += b.len();
        }
        Ok(n)
    }
}

impl io::Write for SharedFail {
    fn write(&mut self, buf: &[u8]) -> io::Result<usize> {
        self.respond(&[buf])
    }
    fn write_vectored(&mut self, bufs: &[io::IoSlice<'_>]) -> io::Result<usize> {
        let v: Vec<&[u8]> = bufs.iter().map(|b| &**b).collect();
        self.respond(&v)
    }
    fn flush(&mut self) -> io::Result<()> {
        Ok(())
    }
}

struct Mw(SharedFail);
impl<'a> tracing_subscriber::fmt::MakeWriter<'a> for Mw {
    type Writer = SharedFail;
    fn make_writer(&'a self) -> SharedFail {
        self.0.clone()
    }
}

/// `fmt` kind. `path` 0: `Emf.output_to(writer)`, 1: `Emf.output_to_makewriter(make_writer)`;
/// `direct`: call `EntryIoStream::next` directly (results observed) instead of going through FlushImmediately.
/// Every entry is one line = one write call (the writer accepts everything it is offered unless it fails),
/// so write call k belongs to entry k. Returns an oracle failure description.
fn run_fmt(n: usize, hard: &[usize], zero: &[usize], path: usize, direct: bool) -> Option<String> {
    let st = SharedFail(Arc::new(Mutex::new(FailState { hard: hard.to_vec(), zero: zero.to_vec(), ..Default::default() })));
    fn drive<S: EntryIoStream + Send + Sync + 'static>(stream: S, n: usize, direct: bool) -> Result<String, String> {
        catch(move || {
            let mut results = String::new();
            if direct {
                let mut s = stream;
                for id in 0..n as u64 {
                    results.push(match s.next(&IdEntry(id)) {
                        Ok(()) => 'o',
                        Err(IoStreamError::Validation(_)) => 'v',
                        Err(IoStreamError::Io(_)) => 'i',
                    });
                }
            } else {
                let sink = FlushImmediately::<IdEntry, _>::new(stream);
                for id in 0..n as u64 {
                    sink.append(IdEntry(id));
                }
            }
            results
        })
    }
    let r = if path == 0 {
        drive(Emf::no_validations("Ns".into(), vec![vec![]]).output_to(st.clone()), n, direct)
    } else {
        drive(Emf::no_validations("Ns".into(), vec![vec![]]).output_to_makewriter(Mw(st.clone())), n, direct)
    };
    let results = match r {
        Ok(r) => r,
        Err(p) => return Some(format!("panicked: {p}")),
    };
    let failed = |id: usize| hard.contains(&id) || zero.contains(&id);
    let mut want = Vec::new();
    for id in 0..n as u64 {
        if failed(id as usize) {
            continue;
        }
        let mut f = Emf::no_validations("Ns".into(), vec![vec![]]);
        use metrique_writer_core::format::Format;
        f.format(&IdEntry(id), &mut want).unwrap();
    }
    let got = st.0.lock().unwrap().out.clone();
    if got != want {
        return Some(format!(
            "writer received {:?}, expected the complete records of exactly the entries whose write did not fail",
            String::from_utf8_lossy(&got[..got.len().min(200)])
        ));
    }
    if direct {
        let want_res: String = (0..n).map(|id| if failed(id) { 'i' } else { 'o' }).collect();
        if results != want_res {
            return Some(format!(
                "next() results {results} but the writer failed exactly for the entries marked i in {want_res}: a write error must be surfaced as an I/O error for that entry only"
            ));
        }
    }
    None
}

// ---- fmtseq kind: one persistent validating Emf formatter behind a sink, entries of several shapes
// (plain, split over several records, rejected for a validation defect), oracle: the writer received
// exactly the records of the accepted entries, entry by entry in append order ------------------------

use verif_harness::gen_entry::{GFlags, GItem, GVal, GenEntry};

fn gen_seq_entry(rng: &mut Rng, idx: usize) -> GenEntry {
    let mut items = vec![GItem::Timestamp(1_700_000_000_000_000 + idx as i64)];
    let shape = rng.below(6);
    let split = matches!(shape, 1 | 2);
    if split {
        items.push(GItem::allow_split());
    }
    items.push(GItem::Value(format!("S{idx}"), GVal::Str(format!("v{}", rng.below(5)))));
    let n = rng.range(1, 4) as usize;
    for i in 0..n {
        // shapes 3 and 4 are invalid: per-metric dimensions without split mode / duplicate name
        let dims = match shape {
            1 | 2 | 3 if rng.chance(2, 3) => vec![("D".to_string(), format!("d{}", rng.below(3)))],
            _ => vec![],
        };
        let name = if shape == 4 && i > 0 { format!("M{idx}_0") } else { format!("M{idx}_{i}") };
        items.push(GItem::Value(
            name,
            GVal::Metric {
                obs: (0..rng.range(1, 3)).map(|_| Observation::Unsigned(rng.below(100))).collect(),
                unit: metrique_writer_core::Unit::None,
                dims,
                flags: GFlags::None,
            },
        ));
    }
    GenEntry { items, sample_group: vec![] }
}

fn fresh_records(e: &GenEntry) -> Option<Vec<Vec<u8>>> {
    use metrique_writer_core::format::Format;
    let mut f = Emf::all_validations("Ns".into(), vec![vec![]]);
    let mut out = vec![];
    match f.format(e, &mut out) {
        Ok(()) => Some(out.split_inclusive(|b| *b == b'\n').map(|l| l.to_vec()).collect()),
        Err(_) => None,
    }
}

/// returns (encoded case, number of rejected entries, oracle failure)
fn run_fmtseq(entries: &[GenEntry], via_queue: bool) -> (usize, Option<String>) {
    let out: Arc<Mutex<Vec<u8>>> = Default::default();
    let w = FailAt { fail: vec![], call: 0, out: out.clone() };
    let stream = Emf::all_validations("Ns".into(), vec![vec![]]).output_to(w);
    let es: Vec<GenEntry> = entries.to_vec();
    let r = catch(move || {
        if via_queue {
            let (q, handle) = BackgroundQueueBuilder::new().capacity(es.len() + 8).flush_interval(Duration::from_secs(50)).build::<GenEntry>(stream);
            for e in es {
                q.append(e);
            }
            drop(handle);
        } else {
            let sink = FlushImmediately::<GenEntry, _>::new(stream);
            for e in es {
                sink.append(e);
            }
        }
    });
    if let Err(p) = r {
        return (0, Some(format!("panicked: {p}")));
    }
    let mut got = out.lock().unwrap().clone();
    if via_queue {
        // the background queue may write its own rate-limited in-band error report after a validation
        // failure (allowed by C01): drop those lines before judging
        got = got
            .split_inclusive(|b| *b == b'\n')
            .filter(|l| !String::from_utf8_lossy(l).contains("\"MetriqueValidationError\":"))
            .flat_map(|l| l.to_vec())
            .collect();
    }
    let mut rest: &[u8] = &got;
    let mut rejected = 0;
    for (i, e) in entries.iter().enumerate() {
        let Some(mut recs) = fresh_records(e) else {
            rejected += 1;
            continue;
        };
        while !recs.is_empty() {
            match recs.iter().position(|l| rest.starts_with(l)) {
                Some(k) => {
                    let l = recs.remove(k);
                    rest = &rest[l.len()..];
                }
                None => {
                    return (rejected, Some(format!(
                        "entry {i}: the writer did not receive exactly this entry's records next; output continues with {:?}",
                        String::from_utf8_lossy(&rest[..rest.len().min(160)])
                    )));
                }
            }
        }
    }
    if !rest.is_empty() {
        return (rejected, Some(format!("extra bytes after the last entry's records: {:?}", String::from_utf8_lossy(&rest[..rest.len().min(160)]))));
    }
    (rejected, None)
}


// ---- fmtbuf kind: Emf.output_to(buffering writer): `write` buffers, `flush` delivers or fails (keeping
// the buffer, like BufWriter). Modes: d = stream called directly (ops next / flush), i = FlushImmediately
// (append = next + flush), q = BackgroundQueue (appends, two awaited flushes, drop handle).
// Model: Sinks.FmtBuf (request `B …`). Oracle: after every Ok flush everything accepted so far has been
// delivered; nothing is delivered twice or out of order; every stream flush reaches the writer. ----------

#[derive(Default)]
struct BufState {
    buf: Vec<u8>,
    delivered: Vec<u8>,
    written: Vec<u8>,
    flush_calls: usize,
    /// flush call k fails iff script[k] == false (true beyond the script)
    script: Vec<bool>,
}

#[derive(Clone)]
struct BufferingWriter(Arc<Mutex<BufState>>);

impl io::Write for BufferingWriter {
    fn write(&mut self, b: &[u8]) -> io::Result<usize> {
        let mut st = self.0.lock().unwrap();
        st.buf.extend_from_slice(b);
        st.written.extend_from_slice(b);
        Ok(b.len())
    }
    fn flush(&mut self) -> io::Result<()> {
        let mut st = self.0.lock().unwrap();
        let k = st.flush_calls;
        st.flush_calls += 1;
        if st.script.get(k).copied().unwrap_or(true) {
            let b = std::mem::take(&mut st.buf);
            st.delivered.extend_from_slice(&b);
            Ok(())
        } else {
            Err(io::Error::new(io::ErrorKind::TimedOut, "scripted flush failure"))
        }
    }
}

/// ops: `n` = next/append, `f` = flush. Returns (model request, implementation's canonical answer, oracle failure)
fn run_fmtbuf(mode: char, ops: &str, script: &[bool]) -> (Option<(String, String)>, Option<String>) {
    let st = Arc::new(Mutex::new(BufState { script: script.to_vec(), ..Default::default() }));
    let w = BufferingWriter(st.clone());
    let stream = Emf::no_validations("Ns".into(), vec![vec![]]).output_to(w);
    let st2 = st.clone();
    let ops_owned = ops.to_string();
    let r = catch(move || {
        let mut results = String::new();
        let mut req: Vec<String> = vec![];
        let mut fail = None;
        let check_flush_ok = |fail: &mut Option<String>, what: &str| {
            let s = st2.lock().unwrap();
            if s.delivered != s.written && fail.is_none() {
                *fail = Some(format!(
                    "{what}: the flush returned Ok but only {} of the {} bytes accepted so far were delivered by the writer",
                    s.delivered.len(),
                    s.written.len()
                ));
            }
        };
        match mode {
            'd' => {
                let mut s = stream;
                for (id, op) in ops_owned.chars().enumerate() {
                    if op == 'n' {
                        let before = st2.lock().unwrap().written.len();
                        results.push(if s.next(&IdEntry(id as u64)).is_ok() { 'o' } else { 'e' });
                        req.push(format!("n{}", st2.lock().unwrap().written.len() - before));
                    } else {
                        let k = st2.lock().unwrap().flush_calls;
                        let ok = s.flush().is_ok();
                        results.push(if ok { 'o' } else { 'e' });
                        let calls = st2.lock().unwrap().flush_calls;
                        if calls != k + 1 && fail.is_none() {
                            fail = Some(format!("stream.flush() made {} writer flush calls (want exactly 1)", calls - k));
                        }
                        req.push(if st2.lock().unwrap().script.get(k).copied().unwrap_or(true) { "fo".into() } else { "ff".into() });
                        if ok {
                            check_flush_ok(&mut fail, "direct stream");
                        }
                    }
                }
            }
            'i' => {
                let sink = FlushImmediately::<IdEntry, _>::new(stream);
                for (id, _) in ops_owned.chars().filter(|c| *c == 'n').enumerate() {
                    let before = st2.lock().unwrap().written.len();
                    let k = st2.lock().unwrap().flush_calls;
                    sink.append(IdEntry(id as u64));
                    req.push(format!("n{}", st2.lock().unwrap().written.len() - before));
                    let ok = st2.lock().unwrap().script.get(k).copied().unwrap_or(true);
                    req.push(if ok { "fo".into() } else { "ff".into() });
                    results.push('o');
                    results.push(if ok { 'o' } else { 'e' });
                    let calls = st2.lock().unwrap().flush_calls;
                    if calls != k + 1 && fail.is_none() {
                        fail = Some(format!("FlushImmediately::append made {} writer flush calls (want exactly 1)", calls - k));
                    }
                    if ok {
                        check_flush_ok(&mut fail, "FlushImmediately");
                    }
                }
            }
            _ => {
                let n = ops_owned.chars().filter(|c| *c == 'n').count();
                let (q, handle) = BackgroundQueueBuilder::new().capacity(n + 8).flush_interval(Duration::from_secs(50)).build::<IdEntry>(stream);
                for id in 0..n {
                    q.append(IdEntry(id as u64));
                }
                let rt = tokio::runtime::Builder::new_current_thread().enable_all().build().unwrap();
                rt.block_on(q.flush_async());
                rt.block_on(q.flush_async());
                // at most one writer flush fails in this mode: of the (at least two) flushes made after the last
                // append one succeeded, and a successful flush delivers everything buffered
                check_flush_ok(&mut fail, "BackgroundQueue, second awaited flush_async");
                drop(handle);
            }
        }
        (results, req, fail)
    });
    match r {
        Err(p) => (None, Some(format!("panicked: {p}"))),
        Ok((results, req, fail)) => {
            let s = st.lock().unwrap();
            let mut fail = fail;
            if fail.is_none() && !(s.written.starts_with(&s.delivered) && s.written.len() == s.delivered.len() + s.buf.len()) {
                fail = Some("delivered bytes are not a prefix of the accepted bytes (lost, duplicated or reordered)".into());
            }
            let pair = if mode == 'q' {
                None
            } else {
                Some((format!("B {}", req.join(" ")), format!("{} | {} {} {}", results, s.delivered.len(), s.buf.len(), s.flush_calls)))
            };
            (pair, fail)
        }
    }
}

fn parse_fmtbuf_case(line: &str) -> Option<(char, String, Vec<bool>)> {
    // "fmtbuf d nnfnf 0110"
    let mut it = line.strip_prefix("fmtbuf ")?.split(' ');
    let mode = it.next()?.chars().next()?;
    let ops = it.next()?.to_string();
    let script = it.next().unwrap_or("").chars().map(|c| c == '1').collect();
    Some((mode, ops, script))
}

fn parse_fmt_case(line: &str) -> Option<(usize, Vec<usize>, Vec<usize>, usize, bool)> {
    // "fmt n=3 hard=[0, 2] zero=[] path=1 direct=1"
    let rest = line.strip_prefix("fmt ")?;
    let get = |key: &str| -> Option<String> {
        let i = rest.find(&format!("{key}="))? + key.len() + 1;
        let tail = &rest[i..];
        let end = if tail.starts_with('[') { tail.find(']')? + 1 } else { tail.find(' ').unwrap_or(tail.len()) };
        Some(tail[..end].to_string())
    };
    let list = |s: String| -> Vec<usize> { s.trim_matches(|c| c == '[' || c == ']').split(',').filter_map(|x| x.trim().parse().ok()).collect() };
    Some((get("n")?.parse().ok()?, list(get("hard")?), list(get("zero")?), get("path")?.parse().ok()?, get("direct")? == "1"))
}

fn gen_case(rng: &mut Rng, kinds: &[&str]) -> Case {
    let shape = rng.below(SHAPES.len() as u64) as usize;
    let n = SHAPES[shape].1;
    let m = rng.range(0, 7) as usize;
    let err_weight = rng.range(0, 3);
    let mut ids: Vec<u64> = (0..m as u64).map(|i| 10 + i).collect();
    rng.shuffle(&mut ids);
    let ents = ids
        .into_iter()
        .map(|id| Ent {
            id,
            res: (0..n)
                .map(|_| if rng.below(4) < err_weight { if rng.chance(1, 2) { Res::Validation } else { Res::Io } } else { Res::Ok })
                .collect(),
            fres: (0..n).map(|_| !rng.chance(1, 5)).collect(),
        })
        .collect();
    Case { shape, kind: rng.pick(kinds).to_string(), ents }
}

fn main() {
    quiet_panics();
    let args = Args::parse();
    let mut rep = Report::new(
        &args,
        "sinks",
        "case = (tee tree shape, sink kind, entries with scripted per-leaf next/flush results); non-trivial = at least one \
         stream returns a Validation or Io error or a failing flush; distinct by case text; plus `fmt` cases (entries, failing write calls)",
    );
    let mut rng = Rng::new(args.seed);
    let mut cases: Vec<Case> = vec![];
    if let Some(line) = args.replay_case() {
        cases.extend(Case::decode(&line));
    } else {
        for l in args.corpus_cases() {
            cases.extend(Case::decode(&l));
        }
        let n = if args.thorough() { 400_000 } else { 30_000 };
        for _ in 0..n {
            cases.push(gen_case(&mut rng, &["imm", "immbox", "immany", "dir"]));
        }
        // the background queue spawns a thread per case: fewer of them
        let nb = if args.thorough() { 10_000 } else { 600 };
        for _ in 0..nb {
            cases.push(gen_case(&mut rng, &["bgq"]));
        }
    }
    let mut requests = vec![];
    let mut impl_out = vec![];
    for c in &cases {
        let enc = c.encode();
        let o = run_impl(c);
        let nontrivial = c.ents.iter().any(|e| e.res.iter().any(|r| *r != Res::Ok) || e.fres.iter().any(|b| !*b));
        rep.case(&enc, nontrivial);
        rep.bump(&format!("kind:{}", c.kind));
        rep.bump(&format!("leaves:{}", SHAPES[c.shape].1));
        rep.bump_by("entries", c.ents.len() as u64);
        rep.bump_by("error results", c.ents.iter().map(|e| e.res.iter().filter(|r| **r != Res::Ok).count() as u64).sum());
        rep.bump_by("failing flushes", c.ents.iter().map(|e| e.fres.iter().filter(|b| !**b).count() as u64).sum());
        if rep.evaluations % 499 == 1 {
            rep.sample(json!({"case": enc, "impl": canonical(c, &o, c.kind != "bgq")}));
        }
        if let Some(what) = oracle(c, &o) {
            let ents = shrink_list(&c.ents, |es| {
                let cc = Case { shape: c.shape, kind: c.kind.clone(), ents: es.to_vec() };
                oracle(&cc, &run_impl(&cc)).is_some()
            });
            let cc = Case { shape: c.shape, kind: c.kind.clone(), ents };
            let oo = run_impl(&cc);
            let what2 = oracle(&cc, &oo).unwrap_or(what);
            rep.oracle_failure(&format!("sinks:{}", c.kind), &cc.encode(), &canonical(&cc, &oo, true), &what2);
        }
        requests.push(c.model_request());
        impl_out.push(canonical(c, &o, c.kind != "bgq"));
    }
    match run_driver(&args.driver, "sinks", &requests) {
        Some(replies) => {
            for ((c, got), reply) in cases.iter().zip(impl_out.iter()).zip(replies.iter()) {
                let want = if c.kind == "bgq" { strip_flushes(reply) } else { reply.clone() };
                if *got != want {
                    rep.disagreement(&format!("sinks/{}", c.kind), &c.encode(), got, &want);
                }
            }
        }
        None => rep.driver_available = false,
    }
    // fmt kind (oracle only): both formatted-stream paths, through a sink and directly
    if args.replay.is_none() || args.replay_case().map(|c| c.starts_with("fmt ")).unwrap_or(false) {
        let mut fmt_cases: Vec<(usize, Vec<usize>, Vec<usize>, usize, bool)> = vec![];
        if let Some(line) = args.replay_case() {
            if let Some(c) = parse_fmt_case(&line) {
                fmt_cases.push(c);
            }
        } else {
            for l in args.corpus_cases() {
                if let Some(c) = parse_fmt_case(&l) {
                    fmt_cases.push(c);
                }
            }
            let nf = if args.thorough() { 50_000 } else { 3_000 };
            for i in 0..nf {
                let n = rng.range(1, 8) as usize;
                let mut hard = vec![];
                let mut zero = vec![];
                for k in 0..n {
                    match rng.below(6) {
                        0 => hard.push(k),
                        1 => zero.push(k),
                        _ => {}
                    }
                }
                fmt_cases.push((n, hard, zero, i % 2, (i / 2) % 2 == 0));
            }
        }
        for (n, hard, zero, path, direct) in fmt_cases {
            let enc = format!("fmt n={n} hard={hard:?} zero={zero:?} path={path} direct={}", direct as u8);
            rep.case(&enc, !hard.is_empty() || !zero.is_empty());
            rep.bump(if path == 0 { "kind:fmt:output_to" } else { "kind:fmt:output_to_makewriter" });
            if let Some(what) = run_fmt(n, &hard, &zero, path, direct) {
                rep.oracle_failure(if path == 0 { "sinks:fmt" } else { "sinks:fmt-makewriter" }, &enc, "", &what);
            }
        }
    }
    // fmtseq kind (oracle only): persistent validating formatter, mixed accepted / rejected / split entries
    let mut seqs: Vec<(Vec<GenEntry>, bool)> = vec![];
    if let Some(line) = args.replay_case() {
        if let Some(body) = line.strip_prefix("fmtseq ") {
            let (q, rest) = body.split_once(' ').unwrap_or(("imm", body));
            seqs.push((rest.split(" ;; ").filter_map(GenEntry::decode).collect(), q == "bgq"));
        }
    } else {
        for l in args.corpus_cases() {
            if let Some(body) = l.strip_prefix("fmtseq ") {
                let (q, rest) = body.split_once(' ').unwrap_or(("imm", body));
                seqs.push((rest.split(" ;; ").filter_map(GenEntry::decode).collect(), q == "bgq"));
            }
        }
        let ns = if args.thorough() { 40_000 } else { 2_500 };
        for k in 0..ns {
            let n = rng.range(2, 6) as usize;
            seqs.push(((0..n).map(|i| gen_seq_entry(&mut rng, i)).collect(), k % 10 == 0));
        }
    }
    for (entries, via_queue) in &seqs {
        let enc = format!("fmtseq {} {}", if *via_queue { "bgq" } else { "imm" }, entries.iter().map(|e| e.encode()).collect::<Vec<_>>().join(" ;; "));
        let (rejected, fail) = run_fmtseq(entries, *via_queue);
        rep.case(&enc, rejected > 0 && rejected < entries.len());
        rep.bump(if *via_queue { "kind:fmtseq-bgq" } else { "kind:fmtseq" });
        rep.bump_by("fmtseq rejected entries", rejected as u64);
        if fail.is_some() {
            let shrunk = shrink_list(entries, |es| run_fmtseq(es, *via_queue).1.is_some());
            let (_, what) = run_fmtseq(&shrunk, *via_queue);
            let enc = format!("fmtseq {} {}", if *via_queue { "bgq" } else { "imm" }, shrunk.iter().map(|e| e.encode()).collect::<Vec<_>>().join(" ;; "));
            rep.oracle_failure("sinks:fmtseq", &enc, "", &what.unwrap_or_default());
        }
    }
    // fmtbuf kind: buffering writer behind a formatted stream (model Sinks.FmtBuf + oracle)
    let mut bufcases: Vec<(char, String, Vec<bool>)> = vec![];
    if let Some(line) = args.replay_case() {
        bufcases.extend(parse_fmtbuf_case(&line));
    } else {
        for l in args.corpus_cases() {
            bufcases.extend(parse_fmtbuf_case(&l));
        }
        let nb = if args.thorough() { 60_000 } else { 4_000 };
        for k in 0..nb {
            let mode = if k % 20 == 0 { 'q' } else if k % 2 == 0 { 'd' } else { 'i' };
            let len = rng.range(1, 9) as usize;
            let ops: String = (0..len).map(|_| if mode != 'd' || rng.chance(1, 2) { 'n' } else { 'f' }).collect();
            let script: Vec<bool> = if mode == 'q' {
                // exactly one failing writer flush, among the first few calls
                let bad = rng.below(4) as usize;
                (0..6).map(|i| i != bad).collect()
            } else {
                (0..len + 2).map(|_| !rng.chance(1, 3)).collect()
            };
            bufcases.push((mode, ops, script));
        }
    }
    let mut breqs = vec![];
    let mut bans = vec![];
    for (mode, ops, script) in &bufcases {
        let enc = format!("fmtbuf {mode} {ops} {}", script.iter().map(|b| if *b { '1' } else { '0' }).collect::<String>());
        let (pair, fail) = run_fmtbuf(*mode, ops, script);
        rep.case(&enc, script.iter().any(|b| !*b));
        rep.bump(&format!("kind:fmtbuf:{mode}"));
        if let Some(what) = fail {
            rep.oracle_failure("sinks:fmtbuf", &enc, "", &what);
        }
        if let Some((req, ans)) = pair {
            breqs.push(req);
            bans.push((enc, ans));
        }
    }
    match run_driver(&args.driver, "sinks", &breqs) {
        Some(replies) => {
            for ((enc, ans), reply) in bans.iter().zip(replies.iter()) {
                if ans != reply {
                    rep.disagreement("sinks/fmtbuf", enc, ans, reply);
                }
            }
        }
        None => rep.driver_available = false,
    }
    rep.write(&args);
}
