//! Engine `vectored` (C16, byte level): `Emf::format` into a scripted `io::Write`.
//!
//! Case line: `<namespaces> <script> | <GenEntry encoding>`; script = responses `o<k>` (accept up to k
//! bytes), `i` (Interrupted), `e` (hard error), `z` (Ok(0)); after the script ends the writer accepts
//! everything offered.
//!
//! Implementation-vs-property oracle (independent of Lean): the bytes accepted by the writer are
//! complete lines of the unfaulted output followed by a proper prefix of another of its lines
//! (lines compared as a multiset: split records come out of a hash map); `Ok` iff everything was
//! accepted; `Err` is `Io` with the writer's kind (`WriteZero` after `Ok(0)`); no panic; no call
//! offering zero bytes.
//! Correspondence: per line, the slice lengths the writer was first offered and the responses it gave
//! are sent to the Lean model `Vectored.writeAllVectored`; outcome, accepted count, number of calls
//! and the slice lengths offered at every call must agree.

use metrique_writer_core::format::Format;
use metrique_writer_core::{IoStreamError, Observation, Unit};
use metrique_writer_format_emf::Emf;
use std::io::{self, IoSlice, Write};
use verif_harness::gen_entry::*;
use verif_harness::*;

#[derive(Clone, Copy, Debug, PartialEq)]
enum Resp {
    Ok(usize),
    Interrupted,
    Err,
    Zero,
}

struct Call {
    offered: Vec<usize>,
    resp: Resp,
    accepted: usize,
}

struct ScriptedWriter {
    script: Vec<Resp>,
    pos: usize,
    accepted: Vec<u8>,
    calls: Vec<Call>,
    plain_write_calls: usize,
}

impl Write for ScriptedWriter {
    fn write(&mut self, buf: &[u8]) -> io::Result<usize> {
        self.plain_write_calls += 1;
        self.write_vectored(&[IoSlice::new(buf)])
    }
    fn write_vectored(&mut self, bufs: &[IoSlice<'_>]) -> io::Result<usize> {
        let offered: Vec<usize> = bufs.iter().map(|b| b.len()).collect();
        let total: usize = offered.iter().sum();
        let resp = if self.pos < self.script.len() { self.script[self.pos] } else { Resp::Ok(usize::MAX) };
        self.pos += 1;
        let (n, res) = match resp {
            Resp::Ok(k) => {
                let n = k.min(total);
                (n, Ok(n))
            }
            Resp::Zero => (0, Ok(0)),
            Resp::Interrupted => (0, Err(io::Error::new(io::ErrorKind::Interrupted, "scripted"))),
            Resp::Err => (0, Err(io::Error::new(io::ErrorKind::BrokenPipe, "scripted"))),
        };
        let mut left = n;
        for b in bufs {
            let take = left.min(b.len());
            self.accepted.extend_from_slice(&b[..take]);
            left -= take;
            if left == 0 {
                break;
            }
        }
        self.calls.push(Call { offered, resp, accepted: n });
        res
    }
    fn flush(&mut self) -> io::Result<()> {
        Ok(())
    }
}

fn enc_script(s: &[Resp]) -> String {
    if s.is_empty() {
        return "-".into();
    }
    s.iter()
        .map(|r| match r {
            Resp::Ok(k) => format!("o{k}"),
            Resp::Interrupted => "i".into(),
            Resp::Err => "e".into(),
            Resp::Zero => "z".into(),
        })
        .collect::<Vec<_>>()
        .join(",")
}

fn dec_script(s: &str) -> Option<Vec<Resp>> {
    if s == "-" {
        return Some(vec![]);
    }
    s.split(',')
        .map(|r| match r {
            "i" => Some(Resp::Interrupted),
            "e" => Some(Resp::Err),
            "z" => Some(Resp::Zero),
            _ => r.strip_prefix('o')?.parse().ok().map(Resp::Ok),
        })
        .collect()
}

fn formatter(namespaces: usize) -> Emf {
    let mut b = Emf::builder("Ns0".to_string(), vec![vec![]]).skip_all_validations(true);
    for i in 1..namespaces {
        b = b.add_namespace(format!("Ns{i}"));
    }
    b.build()
}

struct Case {
    namespaces: usize,
    script: Vec<Resp>,
    entry: GenEntry,
}

impl Case {
    fn encode(&self) -> String {
        format!("{} {} | {}", self.namespaces, enc_script(&self.script), self.entry.encode())
    }
    fn decode(s: &str) -> Option<Case> {
        let (head, entry) = s.split_once(" | ")?;
        let (ns, script) = head.split_once(' ')?;
        Some(Case { namespaces: ns.parse().ok()?, script: dec_script(script)?, entry: GenEntry::decode(entry)? })
    }
}

fn gen_entry(rng: &mut Rng) -> GenEntry {
    let mut items = vec![GItem::Timestamp(rng.below(2_000_000_000_000_000) as i64)];
    let split = rng.chance(1, 2);
    if split {
        items.push(GItem::allow_split());
    }
    let n = rng.range(0, 5) as usize;
    for i in 0..n {
        let name = gen_name(rng, i);
        let v = match rng.below(4) {
            0 => GVal::Str(gen_string(rng)),
            _ => {
                let k = rng.range(1, 3);
                let dims = if split && rng.chance(1, 2) {
                    vec![("Dim".to_string(), format!("v{}", rng.below(3)))]
                } else {
                    vec![]
                };
                GVal::Metric {
                    obs: (0..k).map(|_| Observation::Unsigned(rng.below(1000))).collect(),
                    unit: if rng.chance(1, 2) { Unit::None } else { Unit::Count },
                    dims,
                    flags: GFlags::None,
                }
            }
        };
        items.push(GItem::Value(name, v));
    }
    GenEntry { items, sample_group: vec![] }
}

fn gen_script(rng: &mut Rng, total: usize) -> Vec<Resp> {
    let n = rng.range(0, 8);
    (0..n)
        .map(|_| match rng.below(10) {
            0 => Resp::Interrupted,
            1 => Resp::Err,
            2 => Resp::Zero,
            3 => Resp::Ok(usize::MAX),
            4 => Resp::Ok(1),
            _ => Resp::Ok(rng.range(1, total.max(1) as u64 + 2) as usize),
        })
        .collect()
}

struct Outcome {
    /// "ok" | "io:<kind>" | "validation" | "panic:<msg>"
    result: String,
    w: ScriptedWriter,
}

fn run_impl(c: &Case) -> Outcome {
    let mut w = ScriptedWriter { script: c.script.clone(), pos: 0, accepted: vec![], calls: vec![], plain_write_calls: 0 };
    let mut f = formatter(c.namespaces);
    let r = catch(|| f.format(&c.entry, &mut w));
    let result = match r {
        Ok(Ok(())) => "ok".to_string(),
        Ok(Err(IoStreamError::Io(e))) => format!("io:{:?}", e.kind()),
        Ok(Err(IoStreamError::Validation(_))) => "validation".to_string(),
        Err(p) => format!("panic:{p}"),
    };
    Outcome { result, w }
}

fn reference(c: &Case) -> Option<Vec<u8>> {
    let mut out = Vec::new();
    let mut f = formatter(c.namespaces);
    match catch(|| f.format(&c.entry, &mut out)) {
        Ok(Ok(())) => Some(out),
        _ => None,
    }
}

fn lines_of(bytes: &[u8]) -> Vec<Vec<u8>> {
    bytes.split_inclusive(|b| *b == b'\n').map(|l| l.to_vec()).collect()
}

/// the property oracle; returns a description of the failure
fn oracle(c: &Case, reference: &[u8], o: &Outcome) -> Option<String> {
    if o.result.starts_with("panic") {
        return Some(format!("formatting panicked: {}", o.result));
    }
    if o.result == "validation" {
        return Some("validation error for an entry that formats without error".into());
    }
    let mut remaining = lines_of(reference);
    let mut rest: &[u8] = &o.w.accepted;
    // consume complete lines
    loop {
        if rest.is_empty() {
            break;
        }
        if let Some(i) = remaining.iter().position(|l| rest.starts_with(l)) {
            let l = remaining.remove(i);
            rest = &rest[l.len()..];
        } else {
            break;
        }
    }
    let partial_ok = rest.is_empty() || remaining.iter().any(|l| l.starts_with(rest) && l.len() > rest.len());
    if !partial_ok {
        return Some(format!(
            "accepted bytes are not whole records followed by a prefix of a record (torn/duplicated/omitted): tail {:?}",
            String::from_utf8_lossy(&rest[..rest.len().min(80)])
        ));
    }
    let complete = rest.is_empty() && remaining.is_empty();
    if o.result == "ok" && !complete {
        return Some("Ok returned but the writer did not receive all bytes of the records".into());
    }
    if o.result != "ok" && complete {
        return Some(format!("{} returned although the writer accepted every byte", o.result));
    }
    // error kind: the first non-retried failing response decides
    let failing = o.w.calls.iter().find(|c| matches!(c.resp, Resp::Err | Resp::Zero));
    match failing {
        Some(call) => {
            let want = if call.resp == Resp::Zero { "io:WriteZero" } else { "io:BrokenPipe" };
            if o.result != want {
                return Some(format!("writer failed with {:?} but format returned {}", call.resp, o.result));
            }
            // nothing may be written after the hard error
            let idx = o.w.calls.iter().position(|c| matches!(c.resp, Resp::Err | Resp::Zero)).unwrap();
            if idx + 1 != o.w.calls.len() {
                return Some("formatter kept writing after a hard error".into());
            }
        }
        None => {
            if o.result != "ok" {
                return Some(format!("no writer failure but format returned {}", o.result));
            }
        }
    }
    for call in &o.w.calls {
        if call.offered.iter().sum::<usize>() == 0 {
            return Some("write_vectored called with zero bytes".into());
        }
        if call.offered.first().copied().unwrap_or(0) == 0 {
            return Some("write_vectored offered an empty first slice".into());
        }
    }
    let _ = c;
    None
}

/// split the writer's calls into the per-line `write_all_vectored` invocations and render the model
/// requests + the implementation's canonical answers
fn per_line(o: &Outcome) -> Vec<(String, String)> {
    let mut out = vec![];
    let mut i = 0;
    let calls = &o.w.calls;
    while i < calls.len() {
        let bufs = calls[i].offered.clone();
        let total: usize = bufs.iter().sum();
        let mut acc = 0usize;
        let mut script = vec![];
        let mut offered = vec![];
        let mut outcome = "exhausted";
        while i < calls.len() {
            let c = &calls[i];
            offered.push(c.offered.iter().map(|n| n.to_string()).collect::<Vec<_>>().join(","));
            i += 1;
            match c.resp {
                Resp::Ok(_) => {
                    script.push(format!("o{}", c.accepted));
                    acc += c.accepted;
                    if acc == total {
                        outcome = "ok";
                        break;
                    }
                }
                Resp::Interrupted => script.push("i".into()),
                Resp::Err => {
                    script.push("e".into());
                    outcome = "ioerr";
                    break;
                }
                Resp::Zero => {
                    script.push("o0".into());
                    outcome = "writezero";
                    break;
                }
            }
        }
        let req = format!(
            "{} {}",
            bufs.iter().map(|n| n.to_string()).collect::<Vec<_>>().join(","),
            script.join(" ")
        );
        let ans = format!("{} {} {} {}", outcome, acc, script.len(), offered.join("/"));
        out.push((req, ans));
    }
    out
}

fn main() {
    quiet_panics();
    let args = Args::parse();
    let mut rep = Report::new(
        &args,
        "vectored",
        "case = (namespaces, writer script, entry); non-trivial = the script makes at least one partial write, \
         Interrupted, zero-length write or hard error land inside a record; distinct by case text",
    );
    let mut rng = Rng::new(args.seed);
    let mut cases: Vec<Case> = vec![];
    if let Some(line) = args.replay_case() {
        cases.extend(Case::decode(&line));
    } else {
        for l in args.corpus_cases() {
            cases.extend(Case::decode(&l));
        }
        // (1) every split point k of a sample of records: [ok k], [ok k, err], [ok k, zero], [i, ok k, i]
        let n_exh = if args.thorough() { 300 } else { 40 };
        for _ in 0..n_exh {
            let entry = gen_entry(&mut rng);
            let namespaces = rng.range(1, 3) as usize;
            let probe = Case { namespaces, script: vec![], entry: entry.clone() };
            let Some(r) = reference(&probe) else { continue };
            let first_len = lines_of(&r).iter().map(|l| l.len()).max().unwrap_or(0); // deterministic (line order is not)
            for k in 1..=first_len {
                let tail = match k % 4 {
                    0 => vec![],
                    1 => vec![Resp::Err],
                    2 => vec![Resp::Zero],
                    _ => vec![Resp::Interrupted, Resp::Ok(1), Resp::Interrupted],
                };
                let mut script = vec![Resp::Ok(k)];
                script.extend(tail);
                cases.push(Case { namespaces, script, entry: entry.clone() });
            }
        }
        // (2) random scripts
        let n_rand = if args.thorough() { 200_000 } else { 4_000 };
        for _ in 0..n_rand {
            let entry = gen_entry(&mut rng);
            let namespaces = rng.range(1, 3) as usize;
            let probe = Case { namespaces, script: vec![], entry: entry.clone() };
            let total = reference(&probe).map(|r| r.len()).unwrap_or(0);
            let script = gen_script(&mut rng, total);
            cases.push(Case { namespaces, script, entry });
        }
    }

    let mut requests: Vec<String> = vec![];
    let mut answers: Vec<(usize, String)> = vec![];
    let mut encoded: Vec<String> = vec![];
    for (ci, c) in cases.iter().enumerate() {
        let enc = c.encode();
        let Some(r) = reference(c) else {
            rep.bump("skipped:reference-rejected");
            encoded.push(enc);
            continue;
        };
        let o = run_impl(c);
        let faults = o.w.calls.iter().filter(|c| !matches!(c.resp, Resp::Ok(_)) || c.accepted < c.offered.iter().sum::<usize>()).count();
        rep.case(&enc, faults > 0);
        rep.bump(&format!("result:{}", o.result.split(':').next().unwrap()));
        rep.bump(&format!("lines:{}", lines_of(&r).len().min(4)));
        rep.bump_by("write_vectored calls", o.w.calls.len() as u64);
        for call in &o.w.calls {
            rep.bump(match call.resp {
                Resp::Ok(_) if call.accepted < call.offered.iter().sum::<usize>() => "resp:partial",
                Resp::Ok(_) => "resp:full",
                Resp::Interrupted => "resp:interrupted",
                Resp::Err => "resp:error",
                Resp::Zero => "resp:zero",
            });
        }
        if ci % 997 == 0 {
            rep.sample(json!({"case": enc, "impl": o.result, "accepted_bytes": o.w.accepted.len(), "of": r.len()}));
        }
        if let Some(what) = oracle(c, &r, &o) {
            // shrink the script (the entry is kept: it is already small)
            let script = shrink_list(&c.script, |s| {
                let cc = Case { namespaces: c.namespaces, script: s.to_vec(), entry: c.entry.clone() };
                reference(&cc).map(|r| oracle(&cc, &r, &run_impl(&cc)).is_some()).unwrap_or(false)
            });
            let cc = Case { namespaces: c.namespaces, script, entry: c.entry.clone() };
            let oo = run_impl(&cc);
            rep.oracle_failure("vectored:write_all_vectored", &cc.encode(), &format!("{} accepted={}", oo.result, oo.w.accepted.len()), &what);
        }
        for (req, ans) in per_line(&o) {
            requests.push(req);
            answers.push((ci, ans));
        }
        encoded.push(enc);
    }

    match run_driver(&args.driver, "vectored", &requests) {
        Some(replies) => {
            for ((ci, ans), (req, reply)) in answers.iter().zip(requests.iter().zip(replies.iter())) {
                if ans != reply {
                    rep.disagreement("vectored/write_all_vectored", &format!("{} ## line-request: {}", encoded[*ci], req), ans, reply);
                }
            }
            rep.bump_by("model requests (one per record line)", requests.len() as u64);
        }
        None => rep.driver_available = false,
    }
    rep.write(&args);
}
