//! Engine `vectored` (C16, byte level): `Emf::format` into a scripted `io::Write`.
//!
//! Case line: `<namespaces> <script> | <GenEntry encoding>`; script = responses `o<k>` (accept up to k
//! bytes), `i` (Interrupted), `e`/`ew`/`et`/`eo`/`eu`/`ep` (hard error of kind BrokenPipe / WouldBlock / TimedOut /
//! Other / UnexpectedEof / PermissionDenied — the kind must be surfaced unchanged and must not change what the
//! formatter does; the model sees every hard error as `e`), `z` (Ok(0)); after the script ends the writer accepts
//! everything offered.
//!
//! Implementation-vs-property oracle (independent of Lean): the bytes accepted by the writer are
//! complete lines of the unfaulted output followed by a proper prefix of another of its lines
//! (lines compared as a multiset: split records come out of a hash map); `Ok` iff everything was
//! accepted; `Err` is `Io` with the writer's kind (`WriteZero` after `Ok(0)`); no panic; no call
//! offering zero bytes.
//! Correspondence: per line, the slice lengths the writer was first offered and the responses it gave
//! are sent to the Lean model `Vectored.writeAllVectored`; outcome, accepted count, number of calls
//! and the slice lengths offered at every call must agree.

use metrique_writer_core::format::Format;
use metrique_writer_core::{IoStreamError, Observation, Unit};
use metrique_writer_format_emf::Emf;
use std::io::{self, IoSlice, Write};
use verif_harness::gen_entry::*;
use verif_harness::*;

#[derive(Clone, Copy, Debug, PartialEq)]
enum Resp {
    Ok(usize),
    Interrupted,
    /// hard error; the index selects the `io::ErrorKind` (`ERR_KINDS`): the kind must not matter
    Err(u8),
    Zero,
}

const ERR_KINDS: [(io::ErrorKind, &str); 6] = [
    (io::ErrorKind::BrokenPipe, "e"),
    (io::ErrorKind::WouldBlock, "ew"),
    (io::ErrorKind::TimedOut, "et"),
    (io::ErrorKind::Other, "eo"),
    (io::ErrorKind::UnexpectedEof, "eu"),
    (io::ErrorKind::PermissionDenied, "ep"),
];

struct Call {
    offered: Vec<usize>,
    resp: Resp,
    accepted: usize,
}

struct ScriptedWriter {
    script: Vec<Resp>,
    pos: usize,
    accepted: Vec<u8>,
    calls: Vec<Call>,
    plain_write_calls: usize,
}

impl Write for ScriptedWriter {
    fn write(&mut self, buf: &[u8]) -> io::Result<usize> {
        self.plain_write_calls += 1;
        self.write_vectored(&[IoSlice::new(buf)])
    }
    fn write_vectored(&mut self, bufs: &[IoSlice<'_>]) -> io::Result<usize> {
        let offered: Vec<usize> = bufs.iter().map(|b| b.len()).collect();
        let total: usize = offered.iter().sum();
        let resp = if self.pos < self.script.len() { self.script[self.pos] } else { Resp::Ok(usize::MAX) };
        self.pos += 1;
        let (n, res) = match resp {
            Resp::Ok(k) => {
                let n = k.min(total);
                (n, Ok(n))
            }
            Resp::Zero => (0, Ok(0)),
            Resp::Interrupted => (0, Err(io::Error::new(io::ErrorKind::Interrupted, "scripted"))),
            Resp::Err(k) => (0, Err(io::Error::new(ERR_KINDS[k as usize % ERR_KINDS.len()].0, "scripted"))),
        };
        let mut left = n;
        for b in bufs {
            let take = left.min(b.len());
            self.accepted.extend_from_slice(&b[..take]);
            left -= take;
            if left == 0 {
                break;
            }
        }
        self.calls.push(Call { offered, resp, accepted: n });
        res
    }
    fn flush(&mut self) -> io::Result<()> {
        Ok(())
    }
}

fn enc_script(s: &[Resp]) -> String {
    if s.is_empty() {
        return "-".into();
    }
    s.iter()
        .map(|r| match r {
            Resp::Ok(k) => format!("o{k}"),
            Resp::Interrupted => "i".into(),
            Resp::Err(k) => ERR_KINDS[*k as usize % ERR_KINDS.len()].1.into(),
            Resp::Zero => "z".into(),
        })
        .collect::<Vec<_>>()
        .join(",")
}

fn dec_script(s: &str) -> Option<Vec<Resp>> {
    if s == "-" {
        return Some(vec![]);
    }
    s.split(',')
        .map(|r| match r {
            "i" => Some(Resp::Interrupted),
            "e" | "ew" | "et" | "eo" | "eu" | "ep" => ERR_KINDS.iter().position(|(_, t)| *t == r).map(|k| Resp::Err(k as u8)),
            "z" => Some(Resp::Zero),
            _ => r.strip_prefix('o')?.parse().ok().map(Resp::Ok),
        })
        .collect()
}

fn formatter(namespaces: usize) -> Emf {
    let mut b = Emf::builder("Ns0".to_string(), vec![vec![]]).skip_all_validations(true);
    for i in 1..namespaces {
        b = b.add_namespace(format!("Ns{i}"));
    }
    b.build()
}

struct Case {
    namespaces: usize,
    script: Vec<Resp>,
    /// formatted one after the other by ONE formatter into ONE writer (the script spans them)
    entries: Vec<GenEntry>,
}

impl Case {
    fn one(namespaces: usize, script: Vec<Resp>, entry: GenEntry) -> Case {
        Case { namespaces, script, entries: vec![entry] }
    }
    fn encode(&self) -> String {
        let es: Vec<String> = self.entries.iter().map(|e| e.encode()).collect();
        format!("{} {} | {}", self.namespaces, enc_script(&self.script), es.join(" || "))
    }
    fn decode(s: &str) -> Option<Case> {
        let (head, entries) = s.split_once(" | ")?;
        let (ns, script) = head.split_once(' ')?;
        let entries = entries.split(" || ").map(GenEntry::decode).collect::<Option<Vec<_>>>()?;
        Some(Case { namespaces: ns.parse().ok()?, script: dec_script(script)?, entries })
    }
}

fn gen_entry(rng: &mut Rng) -> GenEntry {
    let mut items = vec![GItem::Timestamp(rng.below(2_000_000_000_000_000) as i64)];
    let split = rng.chance(1, 2);
    if split {
        items.push(GItem::allow_split());
    }
    let n = rng.range(0, 5) as usize;
    for i in 0..n {
        let name = gen_name(rng, i);
        let v = match rng.below(4) {
            0 => GVal::Str(gen_string(rng)),
            _ => {
                let k = rng.range(1, 3);
                let dims = if split && rng.chance(1, 2) {
                    vec![("Dim".to_string(), format!("v{}", rng.below(3)))]
                } else {
                    vec![]
                };
                GVal::Metric {
                    obs: (0..k).map(|_| Observation::Unsigned(rng.below(1000))).collect(),
                    unit: if rng.chance(1, 2) { Unit::None } else { Unit::Count },
                    dims,
                    flags: GFlags::None,
                }
            }
        };
        items.push(GItem::Value(name, v));
    }
    GenEntry { items, sample_group: vec![] }
}

fn gen_script(rng: &mut Rng, total: usize) -> Vec<Resp> {
    let n = rng.range(0, 8);
    (0..n)
        .map(|_| match rng.below(10) {
            0 => Resp::Interrupted,
            1 => Resp::Err(rng.below(ERR_KINDS.len() as u64) as u8),
            2 => Resp::Zero,
            3 => Resp::Ok(usize::MAX),
            4 => Resp::Ok(1),
            _ => Resp::Ok(rng.range(1, total.max(1) as u64 + 2) as usize),
        })
        .collect()
}

/// what one `format` call did to the writer
struct Written {
    accepted: Vec<u8>,
    calls: Vec<Call>,
}

struct Outcome {
    /// "ok" | "io:<kind>" | "validation" | "panic:<msg>"
    result: String,
    w: Written,
}

/// one formatter, one writer, the entries one after the other whatever the previous result was
fn run_impl(c: &Case) -> Vec<Outcome> {
    let mut w = ScriptedWriter { script: c.script.clone(), pos: 0, accepted: vec![], calls: vec![], plain_write_calls: 0 };
    let mut f = formatter(c.namespaces);
    let mut out = vec![];
    for entry in &c.entries {
        let r = catch(|| f.format(entry, &mut w));
        let result = match r {
            Ok(Ok(())) => "ok".to_string(),
            Ok(Err(IoStreamError::Io(e))) => format!("io:{:?}", e.kind()),
            Ok(Err(IoStreamError::Validation(_))) => "validation".to_string(),
            Err(p) => format!("panic:{p}"),
        };
        out.push(Outcome {
            result,
            w: Written { accepted: std::mem::take(&mut w.accepted), calls: std::mem::take(&mut w.calls) },
        });
    }
    out
}

/// the unfaulted output of each entry, each from a fresh formatter
fn reference(c: &Case) -> Option<Vec<Vec<u8>>> {
    c.entries
        .iter()
        .map(|entry| {
            let mut out = Vec::new();
            let mut f = formatter(c.namespaces);
            match catch(|| f.format(entry, &mut out)) {
                Ok(Ok(())) => Some(out),
                _ => None,
            }
        })
        .collect()
}

fn lines_of(bytes: &[u8]) -> Vec<Vec<u8>> {
    bytes.split_inclusive(|b| *b == b'\n').map(|l| l.to_vec()).collect()
}

/// the property oracle; returns a description of the failure
fn oracle(reference: &[u8], o: &Outcome) -> Option<String> {
    if o.result.starts_with("panic") {
        return Some(format!("formatting panicked: {}", o.result));
    }
    if o.result == "validation" {
        return Some("validation error for an entry that formats without error".into());
    }
    let mut remaining = lines_of(reference);
    let mut rest: &[u8] = &o.w.accepted;
    // consume complete lines
    loop {
        if rest.is_empty() {
            break;
        }
        if let Some(i) = remaining.iter().position(|l| rest.starts_with(l)) {
            let l = remaining.remove(i);
            rest = &rest[l.len()..];
        } else {
            break;
        }
    }
    let partial_ok = rest.is_empty() || remaining.iter().any(|l| l.starts_with(rest) && l.len() > rest.len());
    if !partial_ok {
        return Some(format!(
            "accepted bytes are not whole records followed by a prefix of a record (torn/duplicated/omitted): tail {:?}",
            String::from_utf8_lossy(&rest[..rest.len().min(80)])
        ));
    }
    let complete = rest.is_empty() && remaining.is_empty();
    if o.result == "ok" && !complete {
        return Some("Ok returned but the writer did not receive all bytes of the records".into());
    }
    if o.result != "ok" && complete {
        return Some(format!("{} returned although the writer accepted every byte", o.result));
    }
    // error kind: the first non-retried failing response decides
    let failing = o.w.calls.iter().find(|c| matches!(c.resp, Resp::Err(_) | Resp::Zero));
    match failing {
        Some(call) => {
            let want = match call.resp {
                Resp::Err(k) => format!("io:{:?}", ERR_KINDS[k as usize % ERR_KINDS.len()].0),
                _ => "io:WriteZero".to_string(),
            };
            if o.result != want {
                return Some(format!("writer failed with {:?} but format returned {}", call.resp, o.result));
            }
            // nothing may be written after the hard error
            let idx = o.w.calls.iter().position(|c| matches!(c.resp, Resp::Err(_) | Resp::Zero)).unwrap();
            if idx + 1 != o.w.calls.len() {
                return Some("formatter kept writing after a hard error".into());
            }
        }
        None => {
            if o.result != "ok" {
                return Some(format!("no writer failure but format returned {}", o.result));
            }
        }
    }
    for call in &o.w.calls {
        if call.offered.iter().sum::<usize>() == 0 {
            return Some("write_vectored called with zero bytes".into());
        }
        if call.offered.first().copied().unwrap_or(0) == 0 {
            return Some("write_vectored offered an empty first slice".into());
        }
    }
    None
}

/// every entry of the case judged against its own unfaulted output
fn oracle_case(refs: &[Vec<u8>], os: &[Outcome]) -> Option<String> {
    if refs.len() != os.len() {
        return Some("not every entry was attempted".into());
    }
    for (i, (r, o)) in refs.iter().zip(os).enumerate() {
        if let Some(what) = oracle(r, o) {
            return Some(if os.len() == 1 { what } else { format!("entry {i} of {}: {what}", os.len()) });
        }
    }
    None
}

fn resp_tokens(o: &Outcome) -> Vec<String> {
    o.w.calls
        .iter()
        .map(|c| match c.resp {
            Resp::Ok(_) => format!("o{}", c.accepted),
            Resp::Interrupted => "i".into(),
            Resp::Err(_) => "e".into(),
            Resp::Zero => "o0".into(),
        })
        .collect()
}

/// entry-level request for `Vectored.writeLines` and the implementation's canonical answer.
/// The lines are the slice lists first offered for each line the formatter reached; the script is
/// every response the writer gave during the entry — the MODEL decides where one line ends.
fn per_entry(o: &Outcome) -> (String, String) {
    let lines = per_line(o);
    let entry = if lines.is_empty() {
        "~".to_string()
    } else {
        lines.iter().map(|(req, _)| req.split(' ').next().unwrap().to_string()).collect::<Vec<_>>().join(";")
    };
    let outcome = match o.result.as_str() {
        "ok" => "ok",
        "io:WriteZero" => "writezero",
        r if r.starts_with("io:") => "ioerr",
        _ => "other",
    };
    let done = lines.iter().filter(|(_, ans)| ans.starts_with("ok ")).count();
    let offered: Vec<String> =
        o.w.calls.iter().map(|c| c.offered.iter().map(|n| n.to_string()).collect::<Vec<_>>().join(",")).collect();
    let ans = format!(
        "{} {} {} {} {}",
        outcome,
        o.w.accepted.len(),
        o.w.calls.len(),
        done,
        if offered.is_empty() { "-".to_string() } else { offered.join("/") }
    );
    (entry, ans)
}

/// split the writer's calls into the per-line `write_all_vectored` invocations and render the model
/// requests + the implementation's canonical answers
fn per_line(o: &Outcome) -> Vec<(String, String)> {
    let mut out = vec![];
    let mut i = 0;
    let calls = &o.w.calls;
    while i < calls.len() {
        let bufs = calls[i].offered.clone();
        let total: usize = bufs.iter().sum();
        let mut acc = 0usize;
        let mut script = vec![];
        let mut offered = vec![];
        let mut outcome = "exhausted";
        while i < calls.len() {
            let c = &calls[i];
            offered.push(c.offered.iter().map(|n| n.to_string()).collect::<Vec<_>>().join(","));
            i += 1;
            match c.resp {
                Resp::Ok(_) => {
                    script.push(format!("o{}", c.accepted));
                    acc += c.accepted;
                    if acc == total {
                        outcome = "ok";
                        break;
                    }
                }
                Resp::Interrupted => script.push("i".into()),
                Resp::Err(_) => {
                    script.push("e".into());
                    outcome = "ioerr";
                    break;
                }
                Resp::Zero => {
                    script.push("o0".into());
                    outcome = "writezero";
                    break;
                }
            }
        }
        let req = format!(
            "{} {}",
            bufs.iter().map(|n| n.to_string()).collect::<Vec<_>>().join(","),
            script.join(" ")
        );
        let ans = format!("{} {} {} {}", outcome, acc, script.len(), offered.join("/"));
        out.push((req, ans));
    }
    out
}

fn main() {
    quiet_panics();
    let args = Args::parse();
    let mut rep = Report::new(
        &args,
        "vectored",
        "case = (namespaces, writer script, entries formatted in sequence by one formatter into one writer); \
         non-trivial = the script makes at least one partial write, Interrupted, zero-length write or hard error \
         land inside a record; distinct by case text",
    );
    let mut rng = Rng::new(args.seed);
    let mut cases: Vec<Case> = vec![];
    if let Some(line) = args.replay_case() {
        cases.extend(Case::decode(&line));
    } else {
        for l in args.corpus_cases() {
            cases.extend(Case::decode(&l));
        }
        // (1) every split point k of a sample of records: [ok k], [ok k, err], [ok k, zero], [i, ok k, i]
        let n_exh = if args.thorough() { 300 } else { 40 };
        for _ in 0..n_exh {
            let entry = gen_entry(&mut rng);
            let namespaces = rng.range(1, 3) as usize;
            let probe = Case::one(namespaces, vec![], entry.clone());
            let Some(r) = reference(&probe) else { continue };
            let first_len = lines_of(&r[0]).iter().map(|l| l.len()).max().unwrap_or(0); // deterministic (line order is not)
            for k in 1..=first_len {
                let tail = match k % 4 {
                    0 => vec![],
                    1 => vec![Resp::Err((k % ERR_KINDS.len()) as u8)],
                    2 => vec![Resp::Zero],
                    _ => vec![Resp::Interrupted, Resp::Ok(1), Resp::Interrupted],
                };
                let mut script = vec![Resp::Ok(k)];
                script.extend(tail);
                cases.push(Case::one(namespaces, script, entry.clone()));
            }
        }
        // (2) random scripts
        let n_rand = if args.thorough() { 200_000 } else { 4_000 };
        for _ in 0..n_rand {
            let entry = gen_entry(&mut rng);
            let namespaces = rng.range(1, 3) as usize;
            let probe = Case::one(namespaces, vec![], entry.clone());
            let total = reference(&probe).map(|r| r[0].len()).unwrap_or(0);
            let script = gen_script(&mut rng, total);
            cases.push(Case::one(namespaces, script, entry));
        }
        // (3) streams: 2–5 entries through ONE formatter into ONE writer; the script spans the entries, so
        // faults land in any entry and every later entry runs on a formatter / writer that has just failed
        let n_stream = if args.thorough() { 60_000 } else { 2_500 };
        for _ in 0..n_stream {
            let namespaces = rng.range(1, 3) as usize;
            let entries: Vec<GenEntry> = (0..rng.range(2, 5)).map(|_| gen_entry(&mut rng)).collect();
            let probe = Case { namespaces, script: vec![], entries: entries.clone() };
            let lens: Vec<usize> = reference(&probe).map(|r| r.iter().map(|b| b.len()).collect()).unwrap_or_default();
            let per = lens.iter().copied().max().unwrap_or(1);
            let n = rng.range(0, 6 * entries.len() as u64);
            let script = (0..n)
                .map(|_| match rng.below(12) {
                    0 => Resp::Interrupted,
                    1 => Resp::Err(rng.below(ERR_KINDS.len() as u64) as u8),
                    2 => Resp::Zero,
                    3 | 4 => Resp::Ok(usize::MAX),
                    5 => Resp::Ok(1),
                    _ => Resp::Ok(rng.range(1, per.max(1) as u64 + 2) as usize),
                })
                .collect();
            cases.push(Case { namespaces, script, entries });
        }
    }

    let mut requests: Vec<String> = vec![];
    let mut answers: Vec<(usize, &'static str, String)> = vec![];
    let mut encoded: Vec<String> = vec![];
    for (ci, c) in cases.iter().enumerate() {
        let enc = c.encode();
        let Some(refs) = reference(c) else {
            rep.bump("skipped:reference-rejected");
            encoded.push(enc);
            continue;
        };
        let os = run_impl(c);
        let faults: usize = os
            .iter()
            .map(|o| o.w.calls.iter().filter(|c| !matches!(c.resp, Resp::Ok(_)) || c.accepted < c.offered.iter().sum::<usize>()).count())
            .sum();
        rep.case(&enc, faults > 0);
        rep.bump(&format!("entries per case:{}", c.entries.len()));
        if os.len() > 1 {
            let failed = os.iter().filter(|o| o.result != "ok").count();
            rep.bump(&format!("stream: failed entries:{}", failed.min(3)));
            if os.windows(2).any(|w| w[0].result != "ok" && w[1].result == "ok") {
                rep.bump("stream: an entry succeeded right after a failed one");
            }
        }
        for (o, r) in os.iter().zip(&refs) {
            rep.bump(&format!("result:{}", o.result.split(':').next().unwrap()));
            rep.bump(&format!("lines:{}", lines_of(r).len().min(4)));
            rep.bump_by("write_vectored calls", o.w.calls.len() as u64);
            for call in &o.w.calls {
                rep.bump(match call.resp {
                    Resp::Ok(_) if call.accepted < call.offered.iter().sum::<usize>() => "resp:partial",
                    Resp::Ok(_) => "resp:full",
                    Resp::Interrupted => "resp:interrupted",
                    Resp::Err(_) => "resp:error",
                    Resp::Zero => "resp:zero",
                });
            }
        }
        if ci % 997 == 0 {
            rep.sample(json!({"case": enc, "impl": os.iter().map(|o| o.result.clone()).collect::<Vec<_>>(),
                "accepted_bytes": os.iter().map(|o| o.w.accepted.len()).collect::<Vec<_>>(),
                "of": refs.iter().map(|r| r.len()).collect::<Vec<_>>()}));
        }
        if oracle_case(&refs, &os).is_some() {
            // shrink the script, then the entry list (the entries themselves are already small)
            let fails = |cc: &Case| reference(cc).map(|r| oracle_case(&r, &run_impl(cc)).is_some()).unwrap_or(false);
            let script = shrink_list(&c.script, |s| fails(&Case { namespaces: c.namespaces, script: s.to_vec(), entries: c.entries.clone() }));
            let entries = shrink_list(&c.entries, |es| !es.is_empty() && fails(&Case { namespaces: c.namespaces, script: script.clone(), entries: es.to_vec() }));
            let cc = Case { namespaces: c.namespaces, script, entries };
            let oo = run_impl(&cc);
            let what = reference(&cc).and_then(|r| oracle_case(&r, &oo)).unwrap_or_default();
            let got = oo.iter().map(|o| format!("{} accepted={}", o.result, o.w.accepted.len())).collect::<Vec<_>>().join("; ");
            rep.oracle_failure("vectored:write_all_vectored", &cc.encode(), &got, &what);
        }
        let mut stream_req = vec![];
        let mut stream_ans = vec![];
        for o in &os {
            for (req, ans) in per_line(o) {
                requests.push(req);
                answers.push((ci, "write_all_vectored", ans));
            }
            let (entry, ans) = per_entry(o);
            requests.push(format!("E {} {}", entry, resp_tokens(o).join(" ")));
            answers.push((ci, "entry", ans.clone()));
            stream_req.push(entry);
            stream_ans.push(ans);
        }
        if os.len() > 1 {
            let script: Vec<String> = os.iter().flat_map(resp_tokens).collect();
            requests.push(format!("S {} | {}", stream_req.join(" "), script.join(" ")));
            answers.push((ci, "stream", stream_ans.join(" ; ")));
        }
        encoded.push(enc);
    }

    match run_driver(&args.driver, "vectored", &requests) {
        Some(replies) => {
            for ((ci, level, ans), (req, reply)) in answers.iter().zip(requests.iter().zip(replies.iter())) {
                if ans != reply {
                    rep.disagreement(&format!("vectored/{level}"), &format!("{} ## {level}-request: {}", encoded[*ci], req), ans, reply);
                }
            }
            rep.bump_by("model requests (one per record line, one per entry, one per stream)", requests.len() as u64);
        }
        None => rep.driver_available = false,
    }
    rep.write(&args);
}
