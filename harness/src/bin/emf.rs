//! Engine `emf` (C02: well-formed EMF output; C14: history independence of a formatter):
//! `Emf::format` / `SampledEmf::format_with_sample_rate` on generated entries, in-process.
//!
//! `--property C02` (default for anything but `C14`): single-step cases, five entry streams plus a
//! JSON-recogniser tie stream. `--property C14`: sequences of 2-6 steps on ONE persistent formatter.
//!
//! ## Case line (corpus, replay `"case"`, reports)
//! `<EmfCfg> | <GenEntry_1> | <trailer_1> [ | <GenEntry_2> | <trailer_2> ...]`, split on the 3-char
//! separator `" | "`. `EmfCfg` / `GenEntry` encodings are those of `verif_harness::gen_entry`. All steps
//! of a case run on one formatter built by `cfg.build_fmt()`. trailer = space-separated tokens:
//!   * `ft:<table>` (always): float texts, `<obstoken>=<hex of text>|nan` comma-separated, `ft:-` if the
//!     entry has no float observation; one entry per distinct `f<16hex>` / `r<16hex>x<dec>` token of the
//!     entry. text = `dtoa(clamp(v, -MAX, MAX))` before stripping `.0`, v = value, resp. for `r`
//!     `if occurrences == 0 {0.0} else {total / occurrences as f64}`; NaN -> `nan`.
//!     (Recomputed when a case is encoded; ignored when a case is decoded.)
//!   * `io:<k>` (optional): the writer accepts exactly k bytes in total (partial writes allowed), every
//!     later write call fails with `BrokenPipe`; `io0:<k>`: every later call returns `Ok(0)` instead (a
//!     zero-length write, reported as `WriteZero`). Same observable `io`, same model step.
//!   * `rate:<8 hex of f32 bits>` (optional, sampled formatters only; ignored for plain ones): the step
//!     calls `format_with_sample_rate` with this rate instead of the one stored in `BuiltFmt`.
//!   * `pre:<op>,<op>…` (optional): operations on the POOL of formatters executed before the step - `c<k>`:
//!     `Emf::clone` of formatter k, appended to the pool; `s<k>` / `g<k>` / `o<k>`: formatter k is moved into
//!     `with_sampling_and_rng` / `FormatExt::merge_globals(entry "VerifGlobal"="g")` / `FormatExt::output_to`
//!     (then used through `EntryIoStream::next`). All need a plain `Emf`. Formatter 0 is the one built from
//!     the configuration. `on:<k>`: the formatter that formats this step (default 0). `m:<n>`: this step's
//!     multiplicity (sampled formatters only) instead of the configuration's.
//!   * `panic:<item>:<site><k>` (optional): the entry panics while item number `item` is written (`w`: in
//!     `Entry::write` before it, `d`/`o`: the metric's dimension / observation iterator after yielding k
//!     elements); contained by `catch_unwind`, observable `panic 0 - j1 f1`, the formatter is used again.
//!   * `skip` (optional): the step is not run in the Lean model (reply `skipped`): entries with hundreds of
//!     thousands of pushes; the model's later answers do not depend on it (theorem c14_history_independent).
//! Steps whose entry has no `T` item make the formatter read the clock: in every output line the digits
//! after the first `"Timestamp":` are replaced by `0` before anything else is computed (nbytes too).
//!
//! ## Lean driver protocol (engine `emf`)
//!   * `F<v> <case line>`, v = 1 iff `cfg.validates()` in this build profile. Reply: one observable per
//!     step joined by `" | "`: `<res> <nbytes> <lines> j<0|1> f<0|1>`;
//!     res = `ok` | `io` | `val:<kind>*<count>,...` (sorted by kind); nbytes = bytes the writer accepted;
//!     lines = `*` for io, `-` for no bytes, else the `split_inclusive('\n')` lines, each `hex(line)` or
//!     `#<len>:<fnv1a64>` when longer than 2048 bytes, sorted as strings, comma-joined; j = every line is
//!     accepted by the strict JSON recogniser (harness: its own parser, grammar level; `j1` for io);
//!     f = float law computed by Lean, the harness always expects `f1`.
//!     The harness builds the same string from the implementation and compares -> `emf/format`.
//!   * `J <hex>` -> `accept` | `reject` (C02 runs only): Lean's JSON recogniser against
//!     `strict_json::accepts_grammar` on real output lines, their single-character mutations and a hand
//!     list of tricky texts (valid UTF-8 only) -> `emf/json-recogniser`.
//!
//! ## Oracles (independent of Lean)
//! C02, every step: `ok` => bytes non-empty, end with `\n`, every line is valid UTF-8, has exactly one
//! `\n` (its last byte), parses with `strict_json::parse` as an object whose first `_aws` member is an
//! object with `Timestamp` = all-digit number and `CloudWatchMetrics` = array of objects each with
//! `Namespace` (string), `Dimensions` (array), `Metrics` (array)
//! (`emf:framing` / `emf:invalid-json` / `emf:aws-shape`); validation error => zero bytes
//! (`emf:validation-wrote-bytes`); invalid `rate:` => validation error and zero bytes (`emf:bad-rate`);
//! no panic (`emf:panic`). Duplicate member names are counted (`dup-members`), not failed.
//! C14, every step i (whatever formatter of the pool formats it: the original, a clone of a used formatter,
//! a wrapped one; after accepted, rejected, io-failed, panicking steps): formatting the same step on a
//! FRESH formatter of the same cfg, wrapped the same way, gives the same result
//! class (`ok`/`io`/`val:<kinds>`), for non-io results the same multiset of lines, for io the same
//! nbytes (`emf:history-dependence`); no panic (`emf:panic`).
//! Failures are shrunk (steps, formatter configuration, items of every entry, observation lists) before
//! they are reported. A disagreement without an oracle failure starts an oracle-only search around the
//! disagreeing cases (NaN observations moved/inserted at every position, every string swapped for every
//! `NASTY_STRINGS` entry, items/steps dropped; at most 40000 evaluations).
//!
//! ## Generators
//! C02 (quick 4000 / thorough 250000 cases, interleaved 15:8:10:2:5): mostly-valid entries, nasty
//! strings, defect injection (every validation defect singly or in pairs), no-timestamp (masked),
//! sampled formatters (30% with an invalid `rate:`). C14 (quick 1500 / thorough 60000 sequences): steps
//! drawn from valid / defect / split / entry-dimensions / unroutable report / failing writer / no
//! timestamp / invalid rate, and one step of 1.1-1.6 MiB in exactly 3 (quick) resp. 48 (thorough)
//! sequences. Generated multiplicities: 1, 2^k (k <= 52: for 2^53..2^62 `rate_to_n_alpha` rounds
//! `n + 1` to `n`, alpha becomes 0 and the real multiplicity is 2^k + 1) and u64::MAX. A failing writer
//! is never combined with a clock-stamped entry (the byte count would depend on the clock's digits).
//! Cases are generated sequentially from the one seed, then evaluated on up to 8 threads in case order.
//!
//! ## Extra arguments
//! `--selftest N`: print the request line and the expected reply of the first max(N, 5) cases (and three
//! `J` requests) to stdout. Invoked as `emf emf` (like the Lean driver) the binary answers the protocol
//! from the implementation itself: `--driver <this binary>` is a loopback check of the plumbing.
//! `--huge-every N` (C14): sequence k gets a multi-megabyte step iff k % N == N / 2 (default 500 / 833).

use metrique_writer_core::sample::SampledFormat;
use metrique_writer_core::{IoStreamError, Observation, Unit};
use std::collections::{BTreeMap, HashSet};
use std::io::{self, IoSlice, Write};
use std::sync::atomic::{AtomicUsize, Ordering};
use verif_harness::gen_entry::*;
use verif_harness::strict_json::{self, J};
use verif_harness::*;

/// calls `$call` with `$e` bound to the step's entry, or to its panicking variant
macro_rules! with_entry {
    ($step:expr, |$e:ident| $call:expr) => {
        match $step.panic {
            Some((item, site, k)) => {
                let $e = &PanicEntry { e: &$step.entry, item, site, k };
                $call
            }
            None => {
                let $e = &$step.entry;
                $call
            }
        }
    };
}

// ------------------------------------------------------------------------------------------------
// cases

/// an operation on the pool of formatters, executed before a step
#[derive(Clone, Copy, PartialEq, Debug)]
enum Op {
    /// `c<k>`: `Emf::clone` of formatter k, appended to the pool
    Clone(usize),
    /// `s<k>`: formatter k is moved into `with_sampling_and_rng`
    Sampling(usize),
    /// `g<k>`: formatter k is moved into `FormatExt::merge_globals(GLOBAL entry)`
    Globals(usize),
    /// `o<k>`: formatter k is moved into `FormatExt::output_to(writer)` and used through `EntryIoStream::next`
    Stream(usize),
}

impl Op {
    fn encode(&self) -> String {
        match self {
            Op::Clone(k) => format!("c{k}"),
            Op::Sampling(k) => format!("s{k}"),
            Op::Globals(k) => format!("g{k}"),
            Op::Stream(k) => format!("o{k}"),
        }
    }
    fn decode(t: &str) -> Option<Op> {
        let k: usize = t.get(1..)?.parse().ok()?;
        match t.as_bytes().first()? {
            b'c' => Some(Op::Clone(k)),
            b's' => Some(Op::Sampling(k)),
            b'g' => Some(Op::Globals(k)),
            b'o' => Some(Op::Stream(k)),
            _ => None,
        }
    }
}

#[derive(Clone)]
struct Step {
    entry: GenEntry,
    io: Option<usize>,
    /// with `io`: the writer answers `Ok(0)` (zero-length write -> `WriteZero`) instead of a hard error
    io_zero: bool,
    rate: Option<u32>,
    /// pool operations executed before this step
    pre: Vec<Op>,
    /// the formatter of the pool that formats this step
    on: usize,
    /// this step's multiplicity instead of the configuration's (sampled formatters only)
    mult: Option<u64>,
    /// not sent to the Lean model (hundreds of thousands of pushes: the list-based model is quadratic);
    /// justified by theorem c14_history_independent: the model's later answers do not depend on it
    skip: bool,
    /// `(item, site, k)`: the entry panics while item number `item` is written - site `w`: in
    /// `Entry::write` just before that item; `d`: the metric's dimension iterator panics after yielding k
    /// pairs; `o`: its observation iterator panics after yielding k observations. The panic is contained
    /// (`catch_unwind`) and the same formatter is used again.
    panic: Option<(usize, char, usize)>,
}

#[derive(Clone)]
struct Case {
    cfg: EmfCfg,
    steps: Vec<Step>,
}

/// the text `emf.rs` prints for a float observation before stripping `.0` (hex), or `nan`
fn float_text(o: &Observation) -> Option<String> {
    let v = match o {
        Observation::Floating(v) => *v,
        Observation::Repeated { total, occurrences } => {
            if *occurrences == 0 {
                0.0
            } else {
                total / *occurrences as f64
            }
        }
        _ => return None,
    };
    let c = v.clamp(-f64::MAX, f64::MAX);
    Some(if !c.is_finite() { "nan".to_string() } else { hex(dtoa::Buffer::new().format_finite(c).as_bytes()) })
}

fn float_table(e: &GenEntry) -> String {
    let mut seen = HashSet::new();
    let mut parts = vec![];
    for it in &e.items {
        if let GItem::Value(_, GVal::Metric { obs, .. }) = it {
            for o in obs {
                if let Some(t) = float_text(o) {
                    let tok = enc_obs(o);
                    if seen.insert(tok.clone()) {
                        parts.push(format!("{tok}={t}"));
                    }
                }
            }
        }
    }
    if parts.is_empty() { "-".into() } else { parts.join(",") }
}

impl Step {
    fn plain(entry: GenEntry) -> Step {
        Step { entry, io: None, io_zero: false, rate: None, pre: vec![], on: 0, mult: None, skip: false, panic: None }
    }
    fn has_timestamp(&self) -> bool {
        self.entry.items.iter().any(|i| matches!(i, GItem::Timestamp(_)))
    }
    fn trailer(&self) -> String {
        let mut s = format!("ft:{}", float_table(&self.entry));
        if let Some(k) = self.io {
            s.push_str(&format!(" io{}:{k}", if self.io_zero { "0" } else { "" }));
        }
        if let Some(r) = self.rate {
            s.push_str(&format!(" rate:{r:08x}"));
        }
        if !self.pre.is_empty() {
            s.push_str(&format!(" pre:{}", self.pre.iter().map(|o| o.encode()).collect::<Vec<_>>().join(",")));
        }
        if self.on != 0 {
            s.push_str(&format!(" on:{}", self.on));
        }
        if let Some(m) = self.mult {
            s.push_str(&format!(" m:{m}"));
        }
        if self.skip {
            s.push_str(" skip");
        }
        if let Some((i, site, k)) = self.panic {
            s.push_str(&format!(" panic:{i}:{site}{k}"));
        }
        s
    }
}

impl Case {
    fn encode(&self) -> String {
        let mut s = self.cfg.encode();
        for st in &self.steps {
            s.push_str(" | ");
            s.push_str(&st.entry.encode());
            s.push_str(" | ");
            s.push_str(&st.trailer());
        }
        s
    }
    fn decode(line: &str) -> Option<Case> {
        let parts: Vec<&str> = line.split(" | ").collect();
        if parts.len() < 3 || parts.len() % 2 != 1 {
            return None;
        }
        let cfg = EmfCfg::decode(parts[0].trim())?;
        if cfg.namespaces.is_empty() || cfg.default_dims.is_empty() {
            return None;
        }
        let mut steps = vec![];
        for pair in parts[1..].chunks(2) {
            let entry = GenEntry::decode(pair[0])?;
            let mut st = Step::plain(entry);
            for tok in pair[1].split_whitespace() {
                if let Some(k) = tok.strip_prefix("io0:") {
                    st.io = Some(k.parse().ok()?);
                    st.io_zero = true;
                } else if let Some(k) = tok.strip_prefix("io:") {
                    st.io = Some(k.parse().ok()?);
                } else if let Some(r) = tok.strip_prefix("rate:") {
                    st.rate = Some(u32::from_str_radix(r, 16).ok()?);
                } else if let Some(ops) = tok.strip_prefix("pre:") {
                    st.pre = ops.split(',').map(Op::decode).collect::<Option<Vec<_>>>()?;
                } else if let Some(k) = tok.strip_prefix("on:") {
                    st.on = k.parse().ok()?;
                } else if let Some(m) = tok.strip_prefix("m:") {
                    st.mult = Some(m.parse().ok()?);
                } else if tok == "skip" {
                    st.skip = true;
                } else if let Some(p) = tok.strip_prefix("panic:") {
                    let (i, sk) = p.split_once(':')?;
                    let site = sk.chars().next()?;
                    if !matches!(site, 'w' | 'd' | 'o') {
                        return None;
                    }
                    st.panic = Some((i.parse().ok()?, site, sk[1..].parse().ok()?));
                } else if !tok.starts_with("ft:") {
                    return None;
                }
            }
            steps.push(st);
        }
        Some(Case { cfg, steps })
    }
}

fn invalid_rate(bits: u32) -> bool {
    let r = f32::from_bits(bits);
    !(r > 0.0)
}

// ------------------------------------------------------------------------------------------------
// running the implementation

/// accepts `budget` bytes in total, then fails every call
struct BudgetWriter {
    /// once the budget is used up: `Ok(0)` (a zero-length write) instead of a hard error
    zero: bool,
    budget: Option<usize>,
    accepted: Vec<u8>,
}

impl Write for BudgetWriter {
    fn write(&mut self, buf: &[u8]) -> io::Result<usize> {
        self.write_vectored(&[IoSlice::new(buf)])
    }
    fn write_vectored(&mut self, bufs: &[IoSlice<'_>]) -> io::Result<usize> {
        let total: usize = bufs.iter().map(|b| b.len()).sum();
        let mut n = total;
        if let Some(k) = self.budget {
            let left = k.saturating_sub(self.accepted.len());
            if left == 0 && total > 0 {
                if self.zero {
                    return Ok(0);
                }
                return Err(io::Error::new(io::ErrorKind::BrokenPipe, "budget exhausted"));
            }
            n = n.min(left);
        }
        let mut left = n;
        for b in bufs {
            let take = left.min(b.len());
            self.accepted.extend_from_slice(&b[..take]);
            left -= take;
            if left == 0 {
                break;
            }
        }
        Ok(n)
    }
    fn flush(&mut self) -> io::Result<()> {
        Ok(())
    }
}

/// how a formatter of the pool is wrapped
#[derive(Clone, Copy, PartialEq, Debug)]
enum Kind {
    Plain,
    Sampled,
    Globals,
    Stream,
}

/// an `io::Write` handle that can be given away to `output_to` and still be inspected
#[derive(Clone)]
struct SharedOut(std::rc::Rc<std::cell::RefCell<BudgetWriter>>);

impl Write for SharedOut {
    fn write(&mut self, buf: &[u8]) -> io::Result<usize> {
        self.0.borrow_mut().write(buf)
    }
    fn write_vectored(&mut self, bufs: &[IoSlice<'_>]) -> io::Result<usize> {
        self.0.borrow_mut().write_vectored(bufs)
    }
    fn flush(&mut self) -> io::Result<()> {
        Ok(())
    }
}

type Emf = metrique_writer_format_emf::Emf;
type FmtFn = Box<dyn FnMut(&Step, &mut BudgetWriter) -> Result<(), IoStreamError>>;

/// one formatter of the pool
enum Slot {
    Plain(Emf),
    Sampled(metrique_writer_format_emf::SampledEmf<ScriptedRng>),
    /// `merge_globals` / `output_to`: the wrapper types only forward `format`
    Wrapped(Kind, FmtFn),
}

/// the entry `merge_globals` puts in front of every entry (the Lean driver uses the same one)
fn global_entry() -> GenEntry {
    GenEntry { items: vec![GItem::Value("VerifGlobal".into(), GVal::Str("g".into()))], sample_group: vec![] }
}

impl Slot {
    fn kind(&self) -> Kind {
        match self {
            Slot::Plain(_) => Kind::Plain,
            Slot::Sampled(_) => Kind::Sampled,
            Slot::Wrapped(k, _) => *k,
        }
    }
    /// moves a plain `Emf` into the wrapper of the given kind
    fn wrap(emf: Emf, kind: Kind) -> Slot {
        use metrique_writer::format::FormatExt;
        use metrique_writer_core::format::Format;
        use metrique_writer_core::stream::EntryIoStream;
        match kind {
            Kind::Plain => Slot::Plain(emf),
            Kind::Sampled => Slot::Sampled(emf.with_sampling_and_rng(ScriptedRng { words: vec![], pos: 0 })),
            Kind::Globals => {
                let mut f = emf.merge_globals(global_entry());
                Slot::Wrapped(kind, Box::new(move |st, w| with_entry!(st, |e| f.format(e, w))))
            }
            Kind::Stream => {
                let shared = SharedOut(std::rc::Rc::new(std::cell::RefCell::new(BudgetWriter { zero: false, budget: None, accepted: vec![] })));
                let mut stream = emf.output_to(shared.clone());
                Slot::Wrapped(
                    kind,
                    Box::new(move |st, w| {
                        std::mem::swap(&mut *shared.0.borrow_mut(), w);
                        let r = with_entry!(st, |e| stream.next(e));
                        std::mem::swap(&mut *shared.0.borrow_mut(), w);
                        r
                    }),
                )
            }
        }
    }
    /// a freshly built formatter of this configuration, wrapped like a formatter of kind `kind`
    fn fresh(cfg: &EmfCfg, kind: Kind) -> Option<Slot> {
        if let Some(m) = cfg.multiplicity {
            rate_for(m)?;
        }
        Some(Slot::wrap(cfg.build(), kind))
    }
}

/// the rate that makes `rate_to_n` return exactly `m` (powers of two up to 2^52 and u64::MAX)
fn rate_for(m: u64) -> Option<f32> {
    if m == u64::MAX {
        Some(f32::from_bits(0x1f00_0000)) // 2^-65
    } else if m.is_power_of_two() && m <= (1u64 << 52) {
        Some((1.0f64 / m as f64) as f32)
    } else {
        None
    }
}

/// executes one pool operation; `None`: the operation does not apply (no such formatter / not a plain `Emf`)
fn apply_op(pool: &mut Vec<Slot>, op: Op) -> Option<()> {
    let k = match op {
        Op::Clone(k) | Op::Sampling(k) | Op::Globals(k) | Op::Stream(k) => k,
    };
    if k >= pool.len() || pool[k].kind() != Kind::Plain {
        return None;
    }
    match op {
        Op::Clone(_) => {
            let Slot::Plain(e) = &pool[k] else { return None };
            let c = e.clone();
            pool.push(Slot::Plain(c));
        }
        Op::Sampling(_) | Op::Globals(_) | Op::Stream(_) => {
            let kind = match op {
                Op::Sampling(_) => Kind::Sampled,
                Op::Globals(_) => Kind::Globals,
                _ => Kind::Stream,
            };
            // swap_remove + push back at the same index
            let old = std::mem::replace(&mut pool[k], Slot::Wrapped(Kind::Plain, Box::new(|_, _| Ok(()))));
            let Slot::Plain(e) = old else { return None };
            pool[k] = Slot::wrap(e, kind);
        }
    }
    Some(())
}

struct StepOut {
    /// the kind of formatter that formatted the step
    kind: Kind,
    /// `ok` | `io` | `val:<kinds>` | `io-<Kind>` (unexpected io kind) | `panic:<msg>`
    res: String,
    /// accepted bytes, timestamps masked when the entry had none
    bytes: Vec<u8>,
    kinds: Vec<(String, usize)>,
}

/// `["a", "b\"c"]` (Debug of a `Vec<String>`) -> the elements, escapes reduced to the escaped char
fn parse_debug_list(s: &str) -> Vec<String> {
    let mut out = vec![];
    let mut cur: Option<String> = None;
    let mut it = s.chars();
    while let Some(c) = it.next() {
        match &mut cur {
            None => {
                if c == '"' {
                    cur = Some(String::new());
                }
            }
            Some(acc) => match c {
                '\\' => {
                    if let Some(n) = it.next() {
                        acc.push(n);
                    }
                }
                '"' => out.push(cur.take().unwrap()),
                _ => acc.push(c),
            },
        }
    }
    out
}

fn classify(msg: &str) -> &'static str {
    const TABLE: &[(&str, &str)] = &[
        ("multiple timestamps written", "ts"),
        ("entry dimensions must be configured before emitting a metric with custom dimensions", "dims-late"),
        ("entry dimensions cannot be set twice", "dims-twice"),
        ("entry dimensions cannot be empty", "dims-empty"),
        ("duplicate field", "dup"),
        ("missing dimension", "missing"),
        ("name can't be empty", "name-empty"),
        ("name can't be `_aws`", "name-aws"),
        ("WithDimensions<>", "permetric"),
        ("can't use metric in dimension field", "metric-in-dim"),
        ("format with non-positive sample rate", "rate"),
    ];
    for (suffix, kind) in TABLE {
        if msg.ends_with(suffix) {
            return kind;
        }
    }
    "value"
}

fn mask_timestamps(bytes: &[u8]) -> Vec<u8> {
    const PAT: &[u8] = b"\"Timestamp\":";
    let mut out = Vec::with_capacity(bytes.len());
    for line in bytes.split_inclusive(|b| *b == b'\n') {
        match line.windows(PAT.len()).position(|w| w == PAT) {
            Some(p) => {
                let start = p + PAT.len();
                let mut end = start;
                while end < line.len() && line[end].is_ascii_digit() {
                    end += 1;
                }
                out.extend_from_slice(&line[..start]);
                if end > start {
                    out.push(b'0');
                }
                out.extend_from_slice(&line[end..]);
            }
            None => out.extend_from_slice(line),
        }
    }
    out
}

const PANIC_MSG: &str = "verif: user code panics while the entry is written";

/// `GenEntry` whose `write` panics mid-way (see `Step::panic`); otherwise it makes exactly the writer
/// calls of `GenEntry`
struct PanicEntry<'e> {
    e: &'e GenEntry,
    item: usize,
    site: char,
    k: usize,
}

struct PanicMetric<'e> {
    obs: &'e [Observation],
    unit: Unit,
    dims: &'e [(String, String)],
    flags: GFlags,
    site: char,
    k: usize,
}

impl metrique_writer_core::Value for PanicMetric<'_> {
    fn write(&self, writer: impl metrique_writer_core::ValueWriter) {
        use metrique_writer_core::value::{FlagConstructor, MetricFlags};
        let f = match self.flags {
            GFlags::None => MetricFlags::empty(),
            GFlags::HighRes => metrique_writer_format_emf::HighStorageResolutionCtor::construct(),
            GFlags::NoMetric => metrique_writer_format_emf::NoMetricCtor::construct(),
        };
        let (ko, kd) = match self.site {
            'o' => (self.k, usize::MAX),
            _ => (usize::MAX, self.k),
        };
        let obs = self.obs.iter().copied().enumerate().map(move |(i, o)| if i >= ko { panic!("{PANIC_MSG}") } else { o });
        let obs = obs.chain(std::iter::from_fn(move || -> Option<Observation> {
            if ko != usize::MAX { panic!("{PANIC_MSG}") } else { None }
        }));
        let dims = self.dims.iter().enumerate().map(move |(i, (k, v))| if i >= kd { panic!("{PANIC_MSG}") } else { (k.as_str(), v.as_str()) });
        let dims = dims.chain(std::iter::from_fn(move || -> Option<(&str, &str)> {
            if kd != usize::MAX { panic!("{PANIC_MSG}") } else { None }
        }));
        writer.metric(obs, self.unit, dims, f)
    }
}

impl metrique_writer_core::Entry for PanicEntry<'_> {
    fn write<'a>(&'a self, writer: &mut impl metrique_writer_core::EntryWriter<'a>) {
        use metrique_writer_core::Entry as _;
        for (i, it) in self.e.items.iter().enumerate() {
            if i == self.item {
                match (self.site, it) {
                    ('o' | 'd', GItem::Value(name, GVal::Metric { obs, unit, dims, flags })) => {
                        writer.value(name.as_str(), &PanicMetric { obs, unit: *unit, dims, flags: *flags, site: self.site, k: self.k });
                        continue;
                    }
                    _ => panic!("{PANIC_MSG}"),
                }
            }
            match it {
                GItem::Timestamp(us) => writer.timestamp(micros_to_system_time(*us)),
                GItem::AllowSplit(c) => writer.config(c),
                GItem::OtherCfg(c) => writer.config(c),
                GItem::EntryDims(_, c) => writer.config(c),
                GItem::Unroutable(_, e) => e.write(writer),
                GItem::Value(name, v) => writer.value(name.as_str(), v),
            }
        }
        if self.item >= self.e.items.len() {
            panic!("{PANIC_MSG}"); // after the last field
        }
    }
}

fn run_step(fmt: &mut Slot, cfg: &EmfCfg, step: &Step) -> StepOut {
    use metrique_writer_core::format::Format;
    let mut w = BudgetWriter { zero: step.io_zero, budget: step.io, accepted: vec![] };
    let kind = fmt.kind();
    let r = catch(|| match &mut *fmt {
        Slot::Plain(f) => with_entry!(step, |e| f.format(e, &mut w)),
        Slot::Sampled(f) => match (step.rate, step.mult.or(cfg.multiplicity).and_then(rate_for)) {
            (Some(bits), _) => with_entry!(step, |e| f.format_with_sample_rate(e, &mut w, f32::from_bits(bits))),
            (None, Some(rate)) => with_entry!(step, |e| f.format_with_sample_rate(e, &mut w, rate)),
            (None, None) => with_entry!(step, |e| f.format(e, &mut w)),
        },
        Slot::Wrapped(_, g) => g(step, &mut w),
    });
    let mut kinds = vec![];
    let res = match r {
        Ok(Ok(())) => "ok".to_string(),
        Ok(Err(IoStreamError::Io(e))) => {
            let expected = if step.io_zero { io::ErrorKind::WriteZero } else { io::ErrorKind::BrokenPipe };
            if e.kind() == expected { "io".to_string() } else { format!("io-{:?}", e.kind()) }
        }
        Ok(Err(IoStreamError::Validation(e))) => {
            let mut m: BTreeMap<&'static str, usize> = BTreeMap::new();
            for msg in parse_debug_list(&format!("{e:?}")) {
                *m.entry(classify(&msg)).or_insert(0) += 1;
            }
            kinds = m.iter().map(|(k, n)| (k.to_string(), *n)).collect();
            format!("val:{}", m.iter().map(|(k, n)| format!("{k}*{n}")).collect::<Vec<_>>().join(","))
        }
        Err(p) if step.panic.is_some() && p.contains(PANIC_MSG) => "panic".to_string(),
        Err(p) => format!("panic:{p}"),
    };
    let bytes = if step.has_timestamp() { w.accepted } else { mask_timestamps(&w.accepted) };
    StepOut { kind, res, bytes, kinds }
}

/// all steps on one persistent formatter; `None` when the cfg's multiplicity is unsupported
fn run_case(c: &Case) -> Option<Vec<StepOut>> {
    let first = if c.cfg.multiplicity.is_some() { Kind::Sampled } else { Kind::Plain };
    let mut pool = vec![catch(|| Slot::fresh(&c.cfg, first)).ok()??];
    let mut outs = vec![];
    for s in &c.steps {
        for op in &s.pre {
            catch(|| apply_op(&mut pool, *op)).ok()??;
        }
        if s.on >= pool.len() {
            return None;
        }
        if (s.mult.is_some() || s.rate.is_some()) && pool[s.on].kind() != Kind::Sampled {
            return None;
        }
        if let Some(m) = s.mult {
            rate_for(m)?;
        }
        outs.push(run_step(&mut pool[s.on], &c.cfg, s));
    }
    Some(outs)
}

fn lines_of(bytes: &[u8]) -> Vec<&[u8]> {
    bytes.split_inclusive(|b| *b == b'\n').collect()
}

fn fnv1a64(bytes: &[u8]) -> u64 {
    let mut h: u64 = 0xcbf29ce484222325;
    for b in bytes {
        h ^= *b as u64;
        h = h.wrapping_mul(0x100000001b3);
    }
    h
}

fn enc_line(l: &[u8]) -> String {
    if l.len() <= 2048 { hex(l) } else { format!("#{}:{:016x}", l.len(), fnv1a64(l)) }
}

fn sorted_line_tokens(bytes: &[u8]) -> Vec<String> {
    let mut v: Vec<String> = lines_of(bytes).into_iter().map(enc_line).collect();
    v.sort();
    v
}

fn is_io(res: &str) -> bool {
    res.starts_with("io")
}

/// the observable of one step as the Lean driver prints it
fn observable(o: &StepOut) -> String {
    let (lines, j) = if is_io(&o.res) {
        ("*".to_string(), true)
    } else if o.bytes.is_empty() {
        ("-".to_string(), true)
    } else {
        (sorted_line_tokens(&o.bytes).join(","), lines_of(&o.bytes).iter().all(|l| strict_json::accepts_grammar(l)))
    };
    format!("{} {} {} j{} f1", o.res, o.bytes.len(), lines, j as u8)
}

fn observables(outs: &[StepOut]) -> String {
    outs.iter().map(observable).collect::<Vec<_>>().join(" | ")
}

/// what the Lean driver must reply: `skipped` for the steps that are not run in the model
fn expected_reply(c: &Case, outs: &[StepOut]) -> String {
    c.steps.iter().zip(outs).map(|(s, o)| if s.skip { "skipped".to_string() } else { observable(o) }).collect::<Vec<_>>().join(" | ")
}

// ------------------------------------------------------------------------------------------------
// oracles

fn aws_shape(j: &J) -> Result<(), String> {
    let ms = j.as_obj().ok_or("record is not a JSON object")?;
    let aws = ms.iter().find(|(k, _)| k == "_aws").map(|(_, v)| v).ok_or("no `_aws` member")?;
    if aws.as_obj().is_none() {
        return Err("`_aws` is not an object".into());
    }
    match aws.get("Timestamp") {
        Some(J::Num(t)) if !t.is_empty() && t.bytes().all(|b| b.is_ascii_digit()) => {}
        other => return Err(format!("`_aws.Timestamp` is not an integer: {other:?}")),
    }
    let cwm = aws.get("CloudWatchMetrics").and_then(|c| c.as_arr()).ok_or("`_aws.CloudWatchMetrics` is not an array")?;
    for d in cwm {
        if d.as_obj().is_none() {
            return Err("a metric directive is not an object".into());
        }
        if !matches!(d.get("Namespace"), Some(J::Str(_))) {
            return Err("directive without string `Namespace`".into());
        }
        if !matches!(d.get("Dimensions"), Some(J::Arr(_))) {
            return Err("directive without array `Dimensions`".into());
        }
        if !matches!(d.get("Metrics"), Some(J::Arr(_))) {
            return Err("directive without array `Metrics`".into());
        }
    }
    Ok(())
}

fn show(bytes: &[u8]) -> String {
    let s = String::from_utf8_lossy(&bytes[..bytes.len().min(400)]).into_owned();
    if bytes.len() > 400 { format!("{s}…({} bytes)", bytes.len()) } else { s }
}

/// C02 on one step. `parsed` = `strict_json::parse` of every line of `o.bytes`.
fn oracle_c02(step: &Step, o: &StepOut, parsed: &[Result<J, String>]) -> Option<(&'static str, String)> {
    let sampled = o.kind == Kind::Sampled;
    if o.res.starts_with("panic") && !(step.panic.is_some() && o.res == "panic") {
        return Some(("emf:panic", format!("formatting panicked: {}", o.res)));
    }
    if sampled {
        if let Some(bits) = step.rate {
            if invalid_rate(bits) && !(o.res.starts_with("val:") && o.bytes.is_empty()) {
                return Some((
                    "emf:bad-rate",
                    format!("sample rate {:?} gave `{}` with {} bytes written", f32::from_bits(bits), o.res, o.bytes.len()),
                ));
            }
        }
    }
    if o.res.starts_with("val:") && !o.bytes.is_empty() {
        return Some(("emf:validation-wrote-bytes", format!("validation error after writing {} bytes: {}", o.bytes.len(), show(&o.bytes))));
    }
    if o.res != "ok" {
        return None;
    }
    if o.bytes.is_empty() {
        return Some(("emf:framing", "Ok returned but nothing was written".into()));
    }
    if o.bytes.last() != Some(&b'\n') {
        return Some(("emf:framing", format!("output does not end with a newline: {}", show(&o.bytes))));
    }
    for (l, p) in lines_of(&o.bytes).iter().zip(parsed) {
        if l.iter().filter(|b| **b == b'\n').count() != 1 || l.last() != Some(&b'\n') {
            return Some(("emf:framing", format!("record is not terminated by exactly one newline: {}", show(l))));
        }
        if l.iter().all(|b| b.is_ascii_whitespace()) {
            return Some(("emf:framing", "empty record line".into()));
        }
        match p {
            Err(e) => return Some(("emf:invalid-json", format!("{e}: {}", show(l)))),
            Ok(j) => {
                if let Err(e) = aws_shape(j) {
                    return Some(("emf:aws-shape", format!("{e}: {}", show(l))));
                }
            }
        }
    }
    None
}

/// C14 on a whole case
fn oracle_c14(c: &Case, outs: &[StepOut]) -> Option<(&'static str, String)> {
    for (i, (step, o)) in c.steps.iter().zip(outs).enumerate() {
        if o.res.starts_with("panic") && !(step.panic.is_some() && o.res == "panic") {
            return Some(("emf:panic", format!("step {i}: formatting panicked: {}", o.res)));
        }
        let mut fresh = Slot::fresh(&c.cfg, o.kind)?;
        let f = run_step(&mut fresh, &c.cfg, step);
        if f.res != o.res {
            return Some((
                "emf:history-dependence",
                format!("step {i}: `{}` after the history, `{}` on a fresh formatter", o.res, f.res),
            ));
        }
        if is_io(&o.res) {
            if f.bytes.len() != o.bytes.len() {
                return Some((
                    "emf:history-dependence",
                    format!("step {i}: {} bytes accepted after the history, {} on a fresh formatter", o.bytes.len(), f.bytes.len()),
                ));
            }
        } else if sorted_line_tokens(&f.bytes) != sorted_line_tokens(&o.bytes) {
            return Some((
                "emf:history-dependence",
                format!("step {i}: records differ: after the history {} / fresh {}", show(&o.bytes), show(&f.bytes)),
            ));
        }
    }
    None
}

#[derive(Clone, Copy, PartialEq)]
enum Prop {
    C02,
    C14,
}

fn parse_lines(o: &StepOut) -> Vec<Result<J, String>> {
    if o.res == "ok" { lines_of(&o.bytes).into_iter().map(strict_json::parse).collect() } else { vec![] }
}

/// runs the case and the property's oracle: (key, what, impl observable)
fn check_case(c: &Case, prop: Prop) -> Option<(&'static str, String, String)> {
    let outs = run_case(c)?;
    let f = match prop {
        Prop::C02 => c.steps.iter().zip(&outs).find_map(|(s, o)| oracle_c02(s, o, &parse_lines(o))),
        Prop::C14 => oracle_c14(c, &outs),
    };
    f.map(|(k, w)| (k, w, brief_observables(&outs)))
}

fn brief_observables(outs: &[StepOut]) -> String {
    let s = observables(outs);
    if s.len() > 4000 {
        let mut cut = 4000;
        while !s.is_char_boundary(cut) {
            cut -= 1;
        }
        format!("{}…", &s[..cut])
    } else {
        s
    }
}

/// shrinks the step list, the formatter configuration and the item list of every entry while the
/// same oracle (same key) keeps failing; a step keeps its timestamp (no needless clock dependence)
fn shrink_case(c: &Case, prop: Prop, key: &str) -> Case {
    // bounded: oversized entries (hundreds of thousands of observations) take a noticeable time per run
    let deadline = std::time::Instant::now() + std::time::Duration::from_secs(20);
    let fails = |cc: &Case| std::time::Instant::now() < deadline && check_case(cc, prop).map(|(k, _, _)| k == key).unwrap_or(false);
    let mut cur = c.clone();
    if cur.steps.len() > 1 {
        let steps = shrink_list(&cur.steps, |s| !s.is_empty() && fails(&Case { cfg: cur.cfg.clone(), steps: s.to_vec() }));
        cur.steps = steps;
    }
    let simplifications: [fn(&mut EmfCfg); 6] = [
        |c| c.namespaces.truncate(1),
        |c| c.log_group = None,
        |c| c.extra_directive = false,
        |c| c.allow_ignored = false,
        |c| c.default_dims = vec![vec![]],
        |c| c.multiplicity = None,
    ];
    for round in 0..2 {
        for f in simplifications {
            let mut cc = cur.clone();
            f(&mut cc.cfg);
            if cc.cfg.multiplicity.is_none() && cc.steps.iter().any(|s| s.rate.is_some()) {
                continue;
            }
            if cc.cfg != cur.cfg && fails(&cc) {
                cur = cc;
            }
        }
        if round == 1 {
            break;
        }
        for i in 0..cur.steps.len() {
            let had_ts = cur.steps[i].has_timestamp();
            if std::time::Instant::now() >= deadline || cur.steps[i].entry.items.len() > 3_000 {
                continue; // (delta debugging copies the list for every candidate)
            }
            let items = shrink_list(&cur.steps[i].entry.items, |its| {
                let mut cc = cur.clone();
                cc.steps[i].entry.items = its.to_vec();
                cc.steps[i].has_timestamp() == had_ts && fails(&cc)
            });
            cur.steps[i].entry.items = items;
            // and the observation list of every remaining metric
            for k in 0..cur.steps[i].entry.items.len() {
                let GItem::Value(name, GVal::Metric { obs, unit, dims, flags }) = cur.steps[i].entry.items[k].clone() else { continue };
                if obs.len() > 5_000 || std::time::Instant::now() >= deadline {
                    continue; // an oversized distribution is the point of the case
                }
                let with_obs = |o: &[Observation]| GItem::Value(name.clone(), GVal::Metric { obs: o.to_vec(), unit, dims: dims.clone(), flags });
                let small = shrink_list(&obs, |o| {
                    let mut cc = cur.clone();
                    cc.steps[i].entry.items[k] = with_obs(o);
                    fails(&cc)
                });
                cur.steps[i].entry.items[k] = with_obs(&small);
            }
        }
    }
    cur
}

// ------------------------------------------------------------------------------------------------
// generators

const NS_PLAIN: &[&str] = &["Ns", "MyApp", "App/Prod", "Svc2"];
const NS_NASTY: &[&str] = &["N\"s", "b\\s", "\u{1}ctl", "日本 ns", "", "Timestamp", "\u{2028}", "_aws", "a\nb", "😀", "\u{7f}"];
const DIM_POOL: &[&str] = &["Operation", "AZ", "Region", "D\"q"];
const LOG_GROUPS: &[&str] = &["lg", "/aws/my-group", "g\"q\\", "\n", "é😀", ""];
const PM_KEYS: &[&str] = &["Dim", "Kind", "Zone", "k\"q"];
const PM_VALS: &[&str] = &["v0", "v1", "v2", "w\"x", ""];
const STR_VALS: &[&str] = &["GetItem", "use1-az1", "us-east-1", "", "a b", "q\"uote", "back\\slash", "tab\t", "é", "ok", "\u{1}"];
const ERR_MSGS: &[&str] = &["bad value", "boom", "x"];
const UNROUTABLE_MSGS: &[&str] = &["for `A`: duplicate field", "boom", "", "m\"q\\\n", "日本", "missing dimension"];
const INVALID_RATES: &[u32] = &[
    0x0000_0000, // 0.0
    0x8000_0000, // -0.0
    0xbf80_0000, // -1.0
    0x7fc0_0000, // NaN
    0xffc0_0000, // -NaN
    0xff80_0000, // -inf
    0x8000_0001, // -min subnormal
    0x7f80_0001, // signalling NaN
    0xff7f_ffff, // -MAX
];

fn gen_cfg(rng: &mut Rng, nasty: bool, sampled: bool) -> EmfCfg {
    let how = *rng.pick(&['A', 'A', 'N', 'B', 'B', 'S', 'F', 'F']);
    let trivial = how == 'A';
    let nns = if trivial { 1 } else { *rng.pick(&[1usize, 1, 2, 3]) };
    let namespaces = (0..nns)
        .map(|_| {
            if nasty && rng.chance(1, 3) {
                gen_string(rng)
            } else if nasty || rng.chance(1, 5) {
                rng.pick(NS_NASTY).to_string()
            } else {
                rng.pick(NS_PLAIN).to_string()
            }
        })
        .collect();
    let nsets = *rng.pick(&[1usize, 1, 2, 3]);
    let mut default_dims: Vec<Vec<String>> = vec![];
    for _ in 0..nsets {
        let mut set: Vec<String> = vec![];
        for _ in 0..rng.range(0, 2) {
            let d = if nasty && rng.chance(1, 2) {
                let s = rng.pick(NASTY_STRINGS).to_string();
                if s.is_empty() || s == "_aws" { "Operation".to_string() } else { s }
            } else {
                rng.pick(DIM_POOL).to_string()
            };
            if !set.contains(&d) || rng.chance(1, 20) {
                set.push(d);
            }
        }
        default_dims.push(set);
    }
    let log_group = if !trivial && rng.chance(1, 3) {
        Some(if nasty && rng.chance(1, 2) { gen_string(rng) } else { rng.pick(LOG_GROUPS).to_string() })
    } else {
        None
    };
    let multiplicity = if sampled {
        Some(match rng.below(5) {
            0 => 1,
            1 | 2 => 1u64 << rng.range(1, 52),
            3 => 2,
            _ => u64::MAX,
        })
    } else {
        None
    };
    EmfCfg {
        how,
        namespaces,
        default_dims,
        log_group,
        allow_ignored: !trivial && rng.chance(1, 4),
        extra_directive: !trivial && rng.chance(1, 4),
        multiplicity,
    }
}

fn gen_ts(rng: &mut Rng) -> i64 {
    match rng.below(10) {
        0 => 0,
        1 => -(rng.range(1, 1_000_000_000) as i64),
        2 => rng.below(2000) as i64,
        _ => rng.below(2_000_000_000_000_000) as i64,
    }
}

fn nan_obs(rng: &mut Rng) -> Observation {
    match rng.below(4) {
        0 => Observation::Floating(f64::NAN),
        1 => Observation::Floating(f64::from_bits(0xfff8_0000_0000_0001)),
        2 => Observation::Repeated { total: f64::NAN, occurrences: rng.range(1, 9) },
        _ => Observation::Repeated { total: f64::from_bits(0x7ff8_0000_0000_0000 | rng.below(1 << 20)), occurrences: u64::MAX },
    }
}

fn simple_obs(rng: &mut Rng) -> Observation {
    match rng.below(4) {
        0 => Observation::Unsigned(rng.below(100)),
        1 => Observation::Floating((rng.below(400) as f64 - 100.0) / 4.0),
        2 => Observation::Repeated { total: rng.below(1000) as f64, occurrences: rng.range(0, 5) },
        _ => Observation::Floating(f64::from_bits(*rng.pick(NASTY_F64))),
    }
}

fn gen_obs_list(rng: &mut Rng) -> Vec<Observation> {
    if rng.chance(1, 5) {
        // NaN in every position of short lists
        let n = rng.range(1, 5);
        return (0..n).map(|_| if rng.chance(1, 2) { nan_obs(rng) } else { simple_obs(rng) }).collect();
    }
    let n = match rng.below(12) {
        0 => 0,
        1..=4 => 1,
        5..=6 => 2,
        _ => rng.range(2, 6),
    };
    (0..n).map(|_| if rng.chance(1, 2) { gen_obs(rng) } else { simple_obs(rng) }).collect()
}

fn gen_dims(rng: &mut Rng, nasty: bool) -> Vec<(String, String)> {
    let n = rng.range(1, 2);
    let mut v: Vec<(String, String)> = vec![];
    for _ in 0..n {
        let k = if nasty {
            rng.pick(NASTY_STRINGS).to_string()
        } else if rng.chance(1, 15) {
            "AZ".to_string() // collides with a default dimension / string member
        } else {
            rng.pick(PM_KEYS).to_string()
        };
        let val = if nasty { gen_string(rng) } else { rng.pick(PM_VALS).to_string() };
        if v.iter().all(|(k2, _)| *k2 != k) || rng.chance(1, 10) {
            v.push((k, val));
        }
    }
    v
}

fn gen_unit_for(rng: &mut Rng, nasty: bool) -> Unit {
    if nasty && rng.chance(1, 2) {
        // custom unit names are leaked (`unit_static`): draw them from a fixed pool
        Unit::Custom(unit_static(*rng.pick(NASTY_STRINGS)))
    } else {
        gen_unit(rng)
    }
}

fn gen_metric(rng: &mut Rng, nasty: bool, dims_pct: u64) -> GVal {
    GVal::Metric {
        obs: gen_obs_list(rng),
        unit: gen_unit_for(rng, nasty),
        dims: if rng.chance(dims_pct, 100) { gen_dims(rng, nasty) } else { vec![] },
        flags: *rng.pick(&[GFlags::None, GFlags::None, GFlags::None, GFlags::None, GFlags::HighRes, GFlags::NoMetric]),
    }
}

fn field_name(rng: &mut Rng, nasty: bool, i: usize) -> String {
    if !nasty {
        gen_name(rng, i)
    } else if rng.chance(3, 10) {
        gen_string(rng)
    } else {
        format!("{}{}", gen_string(rng), i)
    }
}

fn string_value(rng: &mut Rng, nasty: bool) -> String {
    if nasty || rng.chance(1, 8) { gen_string(rng) } else { rng.pick(STR_VALS).to_string() }
}

#[derive(Clone, Copy, Default)]
struct EOpt {
    nasty: bool,
    cs: Option<bool>,
    cd: Option<bool>,
    min_metrics: u64,
    /// percentage of metrics that get per-metric dimensions when they are legal (0 = default 45)
    dims_pct: u64,
    small: bool,
}

fn default_dim_names(cfg: &EmfCfg) -> Vec<String> {
    let mut v: Vec<String> = vec![];
    for s in &cfg.default_dims {
        for d in s {
            if !v.contains(d) {
                v.push(d.clone());
            }
        }
    }
    v
}

/// a mostly-valid entry for this formatter configuration
fn gen_valid_items(rng: &mut Rng, cfg: &EmfCfg, o: EOpt) -> Vec<GItem> {
    let cs = o.cs.unwrap_or_else(|| rng.chance(2, 5));
    let mut strings: Vec<GItem> =
        default_dim_names(cfg).into_iter().map(|d| GItem::Value(d, GVal::Str(string_value(rng, o.nasty)))).collect();
    let mut idx = 0usize;
    for _ in 0..rng.range(0, if o.small { 1 } else { 3 }) {
        strings.push(GItem::Value(field_name(rng, o.nasty, idx), GVal::Str(string_value(rng, o.nasty))));
        idx += 1;
    }
    let cd = o.cd.unwrap_or_else(|| rng.chance(1, 4));
    let cd_item = if cd {
        let names: Vec<String> = strings.iter().filter_map(|i| if let GItem::Value(n, _) = i { Some(n.clone()) } else { None }).collect();
        let nsets = rng.range(1, 2);
        let sets: Vec<Vec<String>> = (0..nsets)
            .map(|_| {
                let mut s: Vec<String> = vec![];
                if !names.is_empty() {
                    for _ in 0..rng.range(0, 2) {
                        let n = rng.pick(&names).clone();
                        if !s.contains(&n) {
                            s.push(n);
                        }
                    }
                }
                s
            })
            .collect();
        Some(GItem::entry_dims(sets))
    } else {
        None
    };
    let dims_legal = cs || cfg.allow_ignored;
    let dims_pct = if dims_legal {
        if o.dims_pct == 0 { 45 } else { o.dims_pct }
    } else if rng.chance(1, 30) {
        50 // a stray per-metric dimension without split entries: validation error
    } else {
        0
    };
    let nm = rng.range(o.min_metrics, if o.small { o.min_metrics.max(2) } else { 6 });
    let mut rest: Vec<GItem> = vec![];
    for _ in 0..nm {
        rest.push(GItem::Value(field_name(rng, o.nasty, idx), gen_metric(rng, o.nasty, dims_pct)));
        idx += 1;
    }
    if rng.chance(1, 10) {
        rest.push(GItem::OtherCfg(OtherConfig));
    }
    if rng.chance(1, 10) {
        rest.push(GItem::Value(field_name(rng, o.nasty, idx), GVal::Nothing));
    }
    let mut items: Vec<GItem> = vec![GItem::Timestamp(gen_ts(rng))];
    if cs {
        items.push(GItem::allow_split());
        if rng.chance(1, 10) {
            items.swap(0, 1);
        }
    }
    if let Some(cd_item) = cd_item {
        rng.shuffle(&mut strings);
        let at = rng.below(strings.len() as u64 + 1) as usize;
        strings.insert(at, cd_item);
        rng.shuffle(&mut rest);
        items.extend(strings);
        items.extend(rest);
    } else if rng.chance(1, 2) {
        strings.extend(rest);
        rng.shuffle(&mut strings);
        items.extend(strings);
    } else {
        rng.shuffle(&mut rest);
        items.extend(strings);
        items.extend(rest);
    }
    if rng.chance(1, 10) {
        // the timestamp may come anywhere
        let t = items.iter().position(|i| matches!(i, GItem::Timestamp(_))).unwrap();
        let it = items.remove(t);
        let at = rng.below(items.len() as u64 + 1) as usize;
        items.insert(at, it);
    }
    items
}

const DEFECTS: &[&str] = &[
    "dup-str-str",
    "dup-str-metric",
    "dup-metric-metric",
    "dup-metric-other-dims(legal)",
    "two-timestamps",
    "empty-name",
    "aws-name",
    "metric-as-dimension",
    "missing-dimension",
    "dims-without-split",
    "cd-empty",
    "cd-twice",
    "cd-late",
    "value-error",
    "unroutable-alone",
    "unroutable-mixed",
    "cd-names-metric",
    "cd-names-absent",
];

fn pos(rng: &mut Rng, items: &[GItem]) -> usize {
    rng.below(items.len() as u64 + 1) as usize
}

fn names_where(items: &[GItem], f: impl Fn(&GVal) -> bool) -> Vec<String> {
    items.iter().filter_map(|i| if let GItem::Value(n, v) = i { if f(v) { Some(n.clone()) } else { None } } else { None }).collect()
}

fn small_metric(rng: &mut Rng, dims: Vec<(String, String)>) -> GVal {
    GVal::Metric { obs: vec![simple_obs(rng)], unit: Unit::None, dims, flags: GFlags::None }
}

fn ensure_cs(items: &mut Vec<GItem>) {
    if !items.iter().any(|i| matches!(i, GItem::AllowSplit(_))) {
        items.insert(0, GItem::allow_split());
    }
}

/// applies one validation defect (or a legal look-alike) to an otherwise valid entry
fn inject_defect(rng: &mut Rng, cfg: &EmfCfg, items: &mut Vec<GItem>, which: &str) {
    let strings = names_where(items, |v| matches!(v, GVal::Str(_)));
    let metrics = names_where(items, |v| matches!(v, GVal::Metric { .. }));
    match which {
        "dup-str-str" => {
            let n = if strings.is_empty() { "Dup".to_string() } else { rng.pick(&strings).clone() };
            if strings.is_empty() {
                items.push(GItem::Value(n.clone(), GVal::Str("a".into())));
            }
            let at = pos(rng, items);
            items.insert(at, GItem::Value(n, GVal::Str(string_value(rng, false))));
        }
        "dup-str-metric" => {
            let at = pos(rng, items);
            if !strings.is_empty() && (metrics.is_empty() || rng.chance(1, 2)) {
                let n = rng.pick(&strings).clone();
                items.insert(at, GItem::Value(n, small_metric(rng, vec![])));
            } else if !metrics.is_empty() {
                let n = rng.pick(&metrics).clone();
                items.insert(at, GItem::Value(n, GVal::Str("s".into())));
            } else {
                items.push(GItem::Value("Dup".into(), GVal::Str("s".into())));
                items.push(GItem::Value("Dup".into(), small_metric(rng, vec![])));
            }
        }
        "dup-metric-metric" => {
            let existing: Vec<(String, GVal)> = items
                .iter()
                .filter_map(|i| if let GItem::Value(n, v @ GVal::Metric { .. }) = i { Some((n.clone(), v.clone())) } else { None })
                .collect();
            if existing.is_empty() {
                items.push(GItem::Value("Dup".into(), small_metric(rng, vec![])));
                items.push(GItem::Value("Dup".into(), small_metric(rng, vec![])));
            } else {
                let (n, v) = rng.pick(&existing).clone();
                let dims = if let GVal::Metric { dims, .. } = &v { dims.clone() } else { vec![] };
                let at = pos(rng, items);
                items.insert(at, GItem::Value(n, small_metric(rng, dims)));
            }
        }
        "dup-metric-other-dims(legal)" => {
            ensure_cs(items);
            let a = vec![("Dim".to_string(), "v0".to_string())];
            let b = if rng.chance(1, 2) { vec![("Dim".to_string(), "v1".to_string())] } else { vec![] };
            items.push(GItem::Value("Same".into(), small_metric(rng, a)));
            items.push(GItem::Value("Same".into(), small_metric(rng, b)));
        }
        "two-timestamps" => {
            let at = pos(rng, items);
            items.insert(at, GItem::Timestamp(gen_ts(rng)));
        }
        "empty-name" | "aws-name" => {
            let n = if which == "empty-name" { "" } else { "_aws" };
            let v = if rng.chance(1, 2) { GVal::Str("v".into()) } else { small_metric(rng, vec![]) };
            let at = pos(rng, items);
            items.insert(at, GItem::Value(n.into(), v));
        }
        "metric-as-dimension" => {
            let dims = default_dim_names(cfg);
            if dims.is_empty() {
                return inject_defect(rng, cfg, items, "cd-names-metric");
            }
            let d = rng.pick(&dims).clone();
            if rng.chance(2, 3) {
                items.retain(|i| !matches!(i, GItem::Value(n, GVal::Str(_)) if *n == d));
            }
            let at = pos(rng, items);
            items.insert(at, GItem::Value(d, small_metric(rng, vec![])));
        }
        "missing-dimension" => {
            let dims = default_dim_names(cfg);
            if dims.is_empty() {
                return inject_defect(rng, cfg, items, "cd-names-absent");
            }
            let d = rng.pick(&dims).clone();
            items.retain(|i| !matches!(i, GItem::Value(n, _) if *n == d));
        }
        "dims-without-split" => {
            items.retain(|i| !matches!(i, GItem::AllowSplit(_)));
            let at = pos(rng, items);
            let dims = gen_dims(rng, false);
            items.insert(at, GItem::Value("PerMetric".into(), small_metric(rng, dims)));
        }
        "cd-empty" => {
            let at = pos(rng, items);
            items.insert(at, GItem::entry_dims(vec![]));
        }
        "cd-twice" => {
            items.retain(|i| !matches!(i, GItem::EntryDims(..)));
            let first_metric = items.iter().position(|i| matches!(i, GItem::Value(_, GVal::Metric { .. }))).unwrap_or(items.len());
            for _ in 0..2 {
                let at = rng.below(first_metric as u64 + 1) as usize;
                let set = if strings.is_empty() || rng.chance(1, 2) { vec![] } else { vec![rng.pick(&strings).clone()] };
                items.insert(at, GItem::entry_dims(vec![set]));
            }
        }
        "cd-late" => {
            ensure_cs(items);
            items.retain(|i| !matches!(i, GItem::EntryDims(..)));
            items.push(GItem::Value("Early".into(), small_metric(rng, vec![("Dim".to_string(), "v0".to_string())])));
            items.push(GItem::entry_dims(vec![vec![]]));
            if rng.chance(1, 2) {
                items.push(GItem::Value("Later".into(), small_metric(rng, vec![])));
            }
        }
        "value-error" => {
            let at = pos(rng, items);
            items.insert(at, GItem::Value(format!("Err{}", rng.below(3)), GVal::Error(rng.pick(ERR_MSGS).to_string())));
        }
        "unroutable-alone" => {
            let keep_ts = rng.chance(1, 2);
            items.retain(|i| keep_ts && matches!(i, GItem::Timestamp(_)));
            items.truncate(1);
            items.push(GItem::unroutable(rng.pick(UNROUTABLE_MSGS).to_string()));
        }
        "unroutable-mixed" => {
            let at = pos(rng, items);
            items.insert(at, GItem::unroutable(rng.pick(UNROUTABLE_MSGS).to_string()));
        }
        "cd-names-metric" => {
            let n = if metrics.is_empty() { "Named".to_string() } else { rng.pick(&metrics).clone() };
            if metrics.is_empty() {
                items.push(GItem::Value(n.clone(), small_metric(rng, vec![])));
            }
            items.retain(|i| !matches!(i, GItem::EntryDims(..)));
            let at = pos(rng, items);
            items.insert(at, GItem::entry_dims(vec![vec![n]]));
        }
        _ => {
            // cd-names-absent
            items.retain(|i| !matches!(i, GItem::EntryDims(..)));
            let at = pos(rng, items);
            items.insert(at, GItem::entry_dims(vec![vec!["Absent".to_string()]]));
        }
    }
}

fn entry(items: Vec<GItem>) -> GenEntry {
    GenEntry { items, sample_group: vec![] }
}

/// C02: one single-step case of stream number `slot % 40`
fn gen_c02_case(rng: &mut Rng, slot: u64, bumps: &mut Bumps) -> Case {
    match slot % 40 {
        0..=14 => {
            bumps.bump("stream:mostly-valid");
            let cfg = gen_cfg(rng, false, false);
            let items = gen_valid_items(rng, &cfg, EOpt::default());
            Case { cfg, steps: vec![Step::plain(entry(items))] }
        }
        15..=22 => {
            bumps.bump("stream:nasty-strings");
            let cfg = gen_cfg(rng, true, false);
            let items = gen_valid_items(rng, &cfg, EOpt { nasty: true, ..EOpt::default() });
            Case { cfg, steps: vec![Step::plain(entry(items))] }
        }
        23..=32 => {
            bumps.bump("stream:defect-injection");
            let cfg = gen_cfg(rng, false, false);
            let mut items = gen_valid_items(rng, &cfg, EOpt { small: true, ..EOpt::default() });
            let n = if rng.chance(1, 3) { 2 } else { 1 };
            for _ in 0..n {
                let d = *rng.pick(DEFECTS);
                bumps.bump(&format!("defect:{d}"));
                inject_defect(rng, &cfg, &mut items, d);
            }
            Case { cfg, steps: vec![Step::plain(entry(items))] }
        }
        33..=34 => {
            bumps.bump("stream:no-timestamp");
            let sampled = rng.chance(1, 5);
            let cfg = gen_cfg(rng, false, sampled);
            let mut items = gen_valid_items(rng, &cfg, EOpt::default());
            items.retain(|i| !matches!(i, GItem::Timestamp(_)));
            Case { cfg, steps: vec![Step::plain(entry(items))] }
        }
        _ => {
            bumps.bump("stream:sampled");
            let nasty = rng.chance(1, 5);
            let cfg = gen_cfg(rng, nasty, true);
            let items = gen_valid_items(rng, &cfg, EOpt::default());
            let rate = if rng.chance(3, 10) {
                Some(if rng.chance(2, 3) { *rng.pick(INVALID_RATES) } else { 0x8000_0000 | rng.next_u64() as u32 })
            } else {
                None
            };
            Case { cfg, steps: vec![Step { rate, ..Step::plain(entry(items)) }] }
        }
    }
}

fn huge_string(rng: &mut Rng) -> String {
    let len = rng.range(1_153_434, 1_677_721) as usize; // 1.1 - 1.6 MiB
    if rng.chance(1, 2) {
        "x".repeat(len)
    } else {
        let chunk = "abcdefghijklmnopqrstuvwxyz0123456789 \"quoted\" back\\slash é\n";
        let mut s = String::with_capacity(len + chunk.len());
        while s.len() < len {
            s.push_str(chunk);
        }
        s
    }
}

fn unfaulted_len(cfg: &EmfCfg, step: &Step) -> usize {
    unfaulted_bytes(cfg, step).len()
}

fn unfaulted_bytes(cfg: &EmfCfg, step: &Step) -> Vec<u8> {
    let mut probe = step.clone();
    probe.io = None;
    probe.pre.clear();
    probe.on = 0;
    let first = if cfg.multiplicity.is_some() { Kind::Sampled } else { Kind::Plain };
    match Slot::fresh(cfg, first) {
        Some(mut f) => run_step(&mut f, cfg, &probe).bytes,
        None => vec![],
    }
}

/// C02: an entry whose write fails on I/O (hard error or zero-length write; inside a split record, at a
/// call boundary, inside the default record; with and without entry dimensions), then ordinary entries
/// into a healthy writer on the same formatter - every step strict-JSON judged
fn gen_c02_io_seq(rng: &mut Rng, bumps: &mut Bumps) -> Case {
    bumps.bump("stream:io-failure-then-ordinary");
    let (nasty, sampled) = (rng.chance(1, 8), rng.chance(1, 4));
    let cfg = gen_cfg(rng, nasty, sampled);
    let mut steps = vec![];
    if rng.chance(1, 4) {
        steps.push(Step::plain(entry(gen_valid_items(rng, &cfg, EOpt { small: true, ..EOpt::default() }))));
    }
    let opt = match rng.below(4) {
        0 => EOpt { cs: Some(true), cd: Some(false), min_metrics: 3, dims_pct: 75, ..EOpt::default() },
        1 => EOpt { cs: Some(true), cd: Some(true), min_metrics: 2, dims_pct: 60, ..EOpt::default() },
        2 => EOpt { cd: Some(true), min_metrics: 1, ..EOpt::default() },
        _ => EOpt { cd: Some(false), min_metrics: 1, ..EOpt::default() },
    };
    let mut items = gen_valid_items(rng, &cfg, opt);
    if !items.iter().any(|i| matches!(i, GItem::Timestamp(_))) {
        items.insert(0, GItem::Timestamp(gen_ts(rng)));
    }
    let mut st = Step::plain(entry(items));
    let bytes = unfaulted_bytes(&cfg, &st);
    let ends: Vec<usize> = bytes.iter().enumerate().filter(|(_, b)| **b == b'\n').map(|(i, _)| i + 1).collect();
    let last_start = if ends.len() >= 2 { ends[ends.len() - 2] } else { 0 };
    let len = bytes.len();
    let (k, site) = match rng.below(6) {
        0 => (0, "first-call"),
        1 if ends.len() >= 2 => (ends[rng.below(ends.len() as u64 - 1) as usize], "call-boundary"),
        2 if ends.len() >= 2 => (rng.range(0, last_start as u64) as usize, "split-record"),
        3 => (len.saturating_sub(1), "last-byte"),
        _ => (rng.range(last_start as u64, len.saturating_sub(1) as u64) as usize, "default-record"),
    };
    bumps.bump(&format!("io-failure:{site}"));
    st.io = Some(k);
    st.io_zero = rng.chance(1, 3);
    bumps.bump(if st.io_zero { "io-failure:zero-length-write" } else { "io-failure:hard-error" });
    steps.push(st);
    for _ in 0..rng.range(2, 3) {
        let o = if rng.chance(1, 3) { EOpt { cd: Some(true), min_metrics: 1, ..EOpt::default() } } else { EOpt { small: true, ..EOpt::default() } };
        steps.push(Step::plain(entry(gen_valid_items(rng, &cfg, o))));
    }
    Case { cfg, steps }
}

/// C14: one step of the given kind for this configuration
fn gen_c14_step(rng: &mut Rng, cfg: &EmfCfg, kind: &str, bumps: &mut Bumps) -> Step {
    bumps.bump(&format!("step:{kind}"));
    match kind {
        "defect" => {
            let mut items = gen_valid_items(rng, cfg, EOpt { small: true, ..EOpt::default() });
            let d = *rng.pick(DEFECTS);
            bumps.bump(&format!("defect:{d}"));
            inject_defect(rng, cfg, &mut items, d);
            Step::plain(entry(items))
        }
        "split" => Step::plain(entry(gen_valid_items(
            rng,
            cfg,
            EOpt { cs: Some(true), cd: Some(false), min_metrics: 3, dims_pct: 75, ..EOpt::default() },
        ))),
        "entry-dims" => Step::plain(entry(gen_valid_items(rng, cfg, EOpt { cd: Some(true), min_metrics: 1, ..EOpt::default() }))),
        "unroutable" => {
            let mut items = if rng.chance(1, 2) { vec![GItem::Timestamp(gen_ts(rng))] } else { vec![] };
            items.push(GItem::unroutable(rng.pick(UNROUTABLE_MSGS).to_string()));
            Step::plain(entry(items))
        }
        "no-timestamp" => {
            let mut items = gen_valid_items(rng, cfg, EOpt { small: true, ..EOpt::default() });
            items.retain(|i| !matches!(i, GItem::Timestamp(_)));
            Step::plain(entry(items))
        }
        "bad-rate" => {
            let items = gen_valid_items(rng, cfg, EOpt { small: true, ..EOpt::default() });
            Step { rate: Some(*rng.pick(INVALID_RATES)), ..Step::plain(entry(items)) }
        }
        "panic" => gen_panic_step(rng, cfg, bumps),
        "huge-name" | "huge-string" => {
            let mut items = gen_valid_items(rng, cfg, EOpt { small: true, cd: Some(false), ..EOpt::default() });
            if kind == "huge-string" {
                // last among the strings
                items.push(GItem::Value("Huge".into(), GVal::Str(huge_string(rng))));
            } else {
                items.push(GItem::Value(huge_string(rng), small_metric(rng, vec![])));
            }
            Step::plain(entry(items))
        }
        "io" => {
            let inner = *rng.pick(&["valid", "valid", "split", "entry-dims", "defect"]);
            let mut st = gen_c14_step(rng, cfg, inner, bumps);
            if !st.has_timestamp() {
                // the byte count of a clock-stamped record is not reproducible
                st.entry.items.insert(0, GItem::Timestamp(gen_ts(rng)));
            }
            let len = unfaulted_len(cfg, &st);
            st.io = Some(match rng.below(8) {
                0 => 0,
                1 => len,
                2 => len.saturating_sub(1),
                _ => rng.range(0, len as u64) as usize,
            });
            st
        }
        _ => {
            let nasty = rng.chance(1, 6);
            Step::plain(entry(gen_valid_items(rng, cfg, EOpt { nasty, ..EOpt::default() })))
        }
    }
}

/// an entry that panics while it is written (contained by `catch_unwind`; the formatter is used again)
fn gen_panic_step(rng: &mut Rng, cfg: &EmfCfg, bumps: &mut Bumps) -> Step {
    let mut items = gen_valid_items(rng, cfg, EOpt { small: true, min_metrics: 1, ..EOpt::default() });
    let metrics: Vec<usize> = items
        .iter()
        .enumerate()
        .filter(|(_, it)| matches!(it, GItem::Value(n, GVal::Metric { .. }) if !n.is_empty() && n != "_aws"))
        .map(|(i, _)| i)
        .collect();
    let site = match rng.below(10) {
        0..=5 if !metrics.is_empty() => 'o',
        6..=7 if !metrics.is_empty() && !cfg.allow_ignored => 'd',
        _ => 'w',
    };
    bumps.bump(&format!("panic-site:{site}"));
    let panic = match site {
        'w' => (rng.range(0, items.len() as u64) as usize, 'w', 0),
        'o' => {
            let i = *rng.pick(&metrics);
            let n = rng.range(2, 6) as usize;
            if let GItem::Value(_, GVal::Metric { obs, .. }) = &mut items[i] {
                *obs = (0..n).map(|_| if rng.chance(1, 6) { nan_obs(rng) } else { simple_obs(rng) }).collect();
            }
            // mostly after >= 2 observations: the interrupted Values loop then leaves counts behind
            let k = if rng.chance(3, 4) { rng.range(2, n as u64) } else { rng.range(0, 1) } as usize;
            (i, 'o', k)
        }
        _ => {
            let i = *rng.pick(&metrics);
            let mut n = 0;
            if let GItem::Value(_, GVal::Metric { dims, .. }) = &mut items[i] {
                if dims.is_empty() {
                    dims.push(("Dim".to_string(), "v0".to_string()));
                }
                n = dims.len();
            }
            (i, 'd', rng.range(0, n as u64) as usize)
        }
    };
    Step { panic: Some(panic), ..Step::plain(entry(items)) }
}

/// C02: an entry that panics mid-way, then ordinary entries on the same formatter (strict-JSON judged)
fn gen_c02_panic_seq(rng: &mut Rng, bumps: &mut Bumps) -> Case {
    bumps.bump("stream:panic-then-ordinary");
    let (nasty, sampled) = (rng.chance(1, 6), rng.chance(3, 10));
    let cfg = gen_cfg(rng, nasty, sampled);
    let mut steps = vec![];
    if rng.chance(1, 3) {
        steps.push(Step::plain(entry(gen_valid_items(rng, &cfg, EOpt::default()))));
    }
    steps.push(gen_panic_step(rng, &cfg, bumps));
    for _ in 0..rng.range(1, 2) {
        let mut its = gen_valid_items(rng, &cfg, EOpt { small: true, ..EOpt::default() });
        its.push(GItem::Value(
            "Dist".into(),
            GVal::Metric {
                obs: vec![Observation::Unsigned(rng.below(9)), Observation::Unsigned(7)],
                unit: Unit::None,
                dims: vec![],
                flags: GFlags::None,
            },
        ));
        steps.push(Step::plain(entry(its)));
    }
    Case { cfg, steps }
}

fn gen_c14_case(rng: &mut Rng, huge: Option<u64>, bumps: &mut Bumps) -> Case {
    let (nasty, sampled) = (rng.chance(1, 6), rng.chance(3, 10));
    let cfg = gen_cfg(rng, nasty, sampled);
    let n = rng.range(2, 6) as usize;
    let huge_at = huge.map(|_| rng.below(n as u64 - 1) as usize); // never last: something must follow it
    let mut steps = vec![];
    for i in 0..n {
        let kind = if huge_at == Some(i) {
            // alternate deterministically: a huge metric name (fields_buf and metrics_buf) / a huge string
            if huge.unwrap_or(0) % 2 == 0 { "huge-name" } else { "huge-string" }
        } else {
            match rng.below(100) {
                0..=25 => "valid",
                26..=31 => "panic",
                32..=56 => "defect",
                57..=68 => "split",
                69..=76 => "entry-dims",
                77..=81 => "unroutable",
                82..=93 => "io",
                94..=95 => "no-timestamp",
                _ => {
                    if cfg.multiplicity.is_some() {
                        "bad-rate"
                    } else {
                        "valid"
                    }
                }
            }
        };
        steps.push(gen_c14_step(rng, &cfg, kind, bumps));
    }
    // formatters obtained from a used formatter: clones (continuing on the clone AND on the original),
    // with_sampling, merge_globals, output_to - only a plain `Emf` can be cloned or wrapped, so only in
    // configurations without a configuration-level multiplicity
    if cfg.multiplicity.is_none() && rng.chance(1, 2) {
        bumps.bump("sequence:with-pool-ops");
        let mut kinds = vec![Kind::Plain];
        for (i, st) in steps.iter_mut().enumerate() {
            let plain: Vec<usize> = (0..kinds.len()).filter(|k| kinds[*k] == Kind::Plain).collect();
            if !plain.is_empty() && rng.chance(if i == 0 { 1 } else { 9 }, 20) {
                let k = *rng.pick(&plain);
                match rng.below(10) {
                    0..=5 => {
                        st.pre.push(Op::Clone(k));
                        kinds.push(Kind::Plain);
                    }
                    6..=7 if kinds.len() > 1 || rng.chance(1, 3) => {
                        st.pre.push(Op::Sampling(k));
                        kinds[k] = Kind::Sampled;
                    }
                    8 if kinds.len() > 1 || rng.chance(1, 3) => {
                        st.pre.push(Op::Globals(k));
                        kinds[k] = Kind::Globals;
                    }
                    9 if kinds.len() > 1 || rng.chance(1, 3) => {
                        st.pre.push(Op::Stream(k));
                        kinds[k] = Kind::Stream;
                    }
                    _ => {
                        st.pre.push(Op::Clone(k));
                        kinds.push(Kind::Plain);
                    }
                }
            }
            // mostly the newest formatter or the one it was cloned from
            st.on = if rng.chance(1, 2) { kinds.len() - 1 } else { rng.below(kinds.len() as u64) as usize };
            if kinds[st.on] == Kind::Sampled {
                match rng.below(10) {
                    0..=5 => {
                        st.mult = Some(match rng.below(4) {
                            0 => 1,
                            1 => 2,
                            2 => 1u64 << rng.range(2, 52),
                            _ => u64::MAX,
                        })
                    }
                    6 => st.rate = Some(*rng.pick(INVALID_RATES)),
                    _ => {}
                }
            }
        }
    }
    Case { cfg, steps }
}

/// C02: an oversized entry (one that pushes a prefixed buffer of the formatter past 1 MiB, so that the
/// next `clear` takes its shrink path) followed by ordinary entries; every step is strict-JSON judged
fn gen_c02_oversized(rng: &mut Rng, which: u64, bumps: &mut Bumps) -> Case {
    let kind = ["observations", "observations-sampled", "many-metrics", "metric-name", "string", "entry-dimension"][(which % 6) as usize];
    bumps.bump(&format!("oversized:{kind}"));
    let mut cfg = gen_cfg(rng, false, kind == "observations-sampled");
    if kind == "observations-sampled" {
        cfg.multiplicity = Some(u64::MAX); // 20-digit counts: 60 000 observations make counts_buf exceed 1 MiB
    }
    let mut items = gen_valid_items(rng, &cfg, EOpt { small: true, cd: Some(false), ..EOpt::default() });
    let mut skip = false;
    match kind {
        "observations" | "observations-sampled" => {
            // fields_buf and counts_buf
            let n = if kind == "observations" { rng.range(560_000, 700_000) } else { rng.range(56_000, 70_000) } as usize;
            let mut obs = vec![Observation::Unsigned(rng.below(10)); n];
            if rng.chance(1, 2) {
                obs[n - 1] = Observation::Floating(f64::NAN); // and a skipped last observation
            }
            items.push(GItem::Value("Big".into(), GVal::Metric { obs, unit: Unit::None, dims: vec![], flags: GFlags::None }));
            skip = true;
        }
        "many-metrics" => {
            // metrics_buf and fields_buf
            for i in 0..rng.range(70_000, 90_000) {
                items.push(GItem::Value(
                    format!("Metric{i:07}"),
                    GVal::Metric { obs: vec![Observation::Unsigned(i)], unit: Unit::None, dims: vec![], flags: GFlags::None },
                ));
            }
            skip = true;
        }
        "metric-name" => items.push(GItem::Value(huge_string(rng), small_metric(rng, vec![]))),
        "string" => items.push(GItem::Value("Huge".into(), GVal::Str(huge_string(rng)))),
        _ => {
            // dimensions_buf: an entry dimension with a huge name (and the string member it refers to)
            let name = "d".repeat(rng.range(1_153_434, 1_400_000) as usize);
            let at = items.iter().position(|i| matches!(i, GItem::Value(_, GVal::Metric { .. }))).unwrap_or(items.len());
            items.insert(at, GItem::entry_dims(vec![vec![name.clone()]]));
            items.insert(at, GItem::Value(name, GVal::Str("v".into())));
        }
    }
    let mut steps = vec![Step { skip, ..Step::plain(entry(items)) }];
    for _ in 0..rng.range(2, 3) {
        let mut its = gen_valid_items(rng, &cfg, EOpt { min_metrics: 1, ..EOpt::default() });
        its.push(GItem::Value(
            "Dist".into(),
            GVal::Metric {
                obs: vec![Observation::Unsigned(rng.below(9)), Observation::Unsigned(7)],
                unit: Unit::Count,
                dims: vec![],
                flags: GFlags::None,
            },
        ));
        steps.push(Step::plain(entry(its)));
    }
    Case { cfg, steps }
}

// ------------------------------------------------------------------------------------------------
// distribution bookkeeping

#[derive(Default)]
struct Bumps(BTreeMap<String, u64>);

impl Bumps {
    fn bump(&mut self, k: &str) {
        *self.0.entry(k.to_string()).or_insert(0) += 1;
    }
    fn merge_into(self, rep: &mut Report) {
        for (k, n) in self.0 {
            rep.bump_by(&k, n);
        }
    }
}

fn pow2_label(m: u64) -> String {
    if m == u64::MAX {
        "max".into()
    } else if m == 1 {
        "1".into()
    } else {
        "2^k".into()
    }
}

/// input/branch distribution of one case; returns whether it is non-trivial
fn describe(c: &Case, outs: &[StepOut], parsed: &[Vec<Result<J, String>>], prop: Prop, b: &mut Bumps) -> bool {
    b.bump(&format!("cfg:how={}", c.cfg.how));
    b.bump(&format!("cfg:validates={}", c.cfg.validates() as u8));
    b.bump(&format!("cfg:namespaces={}", c.cfg.namespaces.len()));
    b.bump(&format!("cfg:dimsets={}", c.cfg.default_dims.len()));
    if c.cfg.log_group.is_some() {
        b.bump("cfg:log-group");
    }
    if c.cfg.allow_ignored {
        b.bump("cfg:allow-ignored");
    }
    if c.cfg.extra_directive {
        b.bump("cfg:extra-directive");
    }
    b.bump(&format!("cfg:multiplicity={}", c.cfg.multiplicity.map(pow2_label).unwrap_or_else(|| "none".into())));
    b.bump(&format!("steps:{}", c.steps.len()));
    let mut nontrivial_c02 = false;
    let mut interesting_before_last = false;
    for (i, ((st, o), p)) in c.steps.iter().zip(outs).zip(parsed).enumerate() {
        let class = o.res.split(':').next().unwrap_or("?");
        b.bump(&format!("res:{class}"));
        for (k, _) in &o.kinds {
            b.bump(&format!("val-kind:{k}"));
        }
        if st.io.is_some() {
            b.bump("step:io-budget");
        }
        for op in &st.pre {
            b.bump(match op {
                Op::Clone(_) => if i == 0 { "pool-op:clone-of-unused" } else { "pool-op:clone-of-used" },
                Op::Sampling(_) => "pool-op:with_sampling",
                Op::Globals(_) => "pool-op:merge_globals",
                Op::Stream(_) => "pool-op:output_to",
            });
        }
        if c.steps.iter().any(|s| !s.pre.is_empty()) {
            b.bump(&format!("pool-step:formatted-by-{:?}{}", o.kind, if st.on == 0 { "(original)" } else { "(clone)" }));
        }
        if st.mult.is_some() {
            b.bump("step:own-multiplicity");
        }
        if st.skip {
            b.bump("step:not-modelled(oversized)");
        }
        if let Some((_, site, k)) = st.panic {
            b.bump(&format!("step:panics-{}", match site { 'o' => if k >= 2 { "in-observation-iterator(counts left behind)" } else { "in-observation-iterator(k<2)" }, 'd' => "in-dimension-iterator", _ => "in-entry-write" }));
        }
        if let Some(r) = st.rate {
            b.bump(if invalid_rate(r) { "step:invalid-rate" } else { "step:explicit-rate" });
        }
        if !st.has_timestamp() {
            b.bump("entry:no-timestamp(masked)");
        }
        for it in &st.entry.items {
            match it {
                GItem::AllowSplit(_) => b.bump("entry:CS"),
                GItem::EntryDims(..) => b.bump("entry:CD"),
                GItem::OtherCfg(_) => b.bump("entry:CO"),
                GItem::Unroutable(..) => b.bump("entry:U"),
                GItem::Timestamp(t) if *t < 0 => b.bump("entry:negative-timestamp"),
                GItem::Timestamp(_) => {}
                GItem::Value(_, GVal::Str(_)) => b.bump("value:string"),
                GItem::Value(_, GVal::Nothing) => b.bump("value:nothing"),
                GItem::Value(_, GVal::Error(_)) => b.bump("value:error"),
                GItem::Value(_, GVal::Metric { obs, unit, dims, flags }) => {
                    b.bump("value:metric");
                    b.bump(match unit {
                        Unit::None => "unit:none",
                        Unit::Custom(_) => "unit:custom",
                        _ => "unit:builtin",
                    });
                    b.bump(match flags {
                        GFlags::None => "flags:none",
                        GFlags::HighRes => "flags:h",
                        GFlags::NoMetric => "flags:x",
                    });
                    if !dims.is_empty() {
                        b.bump("metric:per-metric-dims");
                    }
                    let nan: Vec<bool> = obs.iter().map(|o| float_text(o).as_deref() == Some("nan")).collect();
                    if obs.is_empty() {
                        b.bump("metric:empty-obs");
                    } else if nan.iter().all(|x| *x) {
                        b.bump("metric:all-nan");
                    } else if nan.iter().any(|x| *x) {
                        if nan[0] {
                            b.bump("obs:nan-skipped-first");
                        }
                        if *nan.last().unwrap() {
                            b.bump("obs:nan-skipped-last");
                        }
                        if nan.len() > 2 && nan[1..nan.len() - 1].iter().any(|x| *x) {
                            b.bump("obs:nan-skipped-middle");
                        }
                    }
                    b.bump(&format!("obs-count:{}", obs.len().min(6)));
                    for ob in obs {
                        match ob {
                            Observation::Unsigned(_) => b.bump("obs:unsigned"),
                            Observation::Floating(v) => {
                                b.bump("obs:floating");
                                if v.is_infinite() {
                                    b.bump("obs:infinite-clamped");
                                }
                            }
                            Observation::Repeated { occurrences, .. } => {
                                b.bump("obs:repeated");
                                if *occurrences == 0 {
                                    b.bump("obs:repeated-occurrences-0");
                                }
                            }
                            _ => {}
                        }
                    }
                }
            }
        }
        let lines = lines_of(&o.bytes);
        let mut values_form = false;
        let mut escaped = false;
        if o.res == "ok" {
            b.bump(&format!("records:{}", if lines.len() >= 4 { "4+".to_string() } else { lines.len().to_string() }));
            for (l, pj) in lines.iter().zip(p) {
                if l.len() > 2048 {
                    b.bump("record:longer-than-2048");
                }
                if l.contains(&b'\\') {
                    escaped = true;
                }
                if let Ok(j) = pj {
                    if !strict_json::duplicate_members(j).is_empty() {
                        b.bump("dup-members");
                    }
                    for (k, v) in j.as_obj().unwrap_or(&[]) {
                        if k == "_aws" {
                            continue;
                        }
                        match v {
                            J::Num(_) => b.bump("form:scalar"),
                            J::Obj(_) if v.get("Values").is_some() => {
                                values_form = true;
                                b.bump("form:values-counts");
                            }
                            _ => {}
                        }
                    }
                }
            }
            if escaped {
                b.bump("record:escaped-string");
            }
        }
        if values_form || escaped || o.res.starts_with("val:") || lines.len() >= 2 {
            nontrivial_c02 = true;
        }
        if i + 1 < c.steps.len() && (o.res != "ok" || lines.len() >= 2 || o.bytes.len() > 1_000_000 || !st.pre.is_empty() || st.panic.is_some()) {
            interesting_before_last = true;
        }
    }
    match prop {
        Prop::C02 => nontrivial_c02,
        Prop::C14 => interesting_before_last,
    }
}

// ------------------------------------------------------------------------------------------------
// parallel helpers

fn threads() -> usize {
    std::thread::available_parallelism().map(|n| n.get()).unwrap_or(4).clamp(1, 8)
}

/// `f` over all items on up to 8 threads; results in item order (so the run stays deterministic)
fn par_map<T: Sync, R: Send>(items: &[T], f: impl Fn(usize, &T) -> R + Sync) -> Vec<R> {
    let next = AtomicUsize::new(0);
    let n = threads().min(items.len().max(1));
    let mut all: Vec<(usize, R)> = std::thread::scope(|s| {
        let hs: Vec<_> = (0..n)
            .map(|_| {
                s.spawn(|| {
                    let mut local = vec![];
                    loop {
                        let i = next.fetch_add(1, Ordering::Relaxed);
                        if i >= items.len() {
                            break;
                        }
                        local.push((i, f(i, &items[i])));
                    }
                    local
                })
            })
            .collect();
        hs.into_iter().flat_map(|h| h.join().expect("worker thread")).collect()
    });
    all.sort_by_key(|(i, _)| *i);
    all.into_iter().map(|(_, r)| r).collect()
}

/// the request list cut into contiguous chunks of similar weight, one driver process per chunk, at most
/// 8 processes at a time
fn run_driver_parallel(driver: &Option<String>, requests: &[String]) -> Option<Vec<String>> {
    if requests.is_empty() {
        return Some(vec![]);
    }
    // several chunks per thread: `par_map` hands them out dynamically, which evens out the load when a
    // few requests (multi-megabyte entries) dominate
    let n = (4 * threads()).min(requests.len().div_ceil(100)).max(1);
    let weight = |r: &String| r.len() + 2000;
    let total: usize = requests.iter().map(weight).sum();
    let target = total / n + 1;
    let mut chunks: Vec<&[String]> = vec![];
    let (mut start, mut acc) = (0usize, 0usize);
    for (i, r) in requests.iter().enumerate() {
        acc += weight(r);
        if acc >= target && chunks.len() + 1 < n {
            chunks.push(&requests[start..=i]);
            start = i + 1;
            acc = 0;
        }
    }
    if start < requests.len() {
        chunks.push(&requests[start..]);
    }
    let replies = par_map(&chunks, |_, c| run_driver(driver, "emf", c));
    let mut out = Vec::with_capacity(requests.len());
    for r in replies {
        out.extend(r?);
    }
    Some(out)
}

// ------------------------------------------------------------------------------------------------
// JSON recogniser tie stream

const TRICKY_JSON: &[&str] = &[
    "", " ", "01", "-", "1.", ".5", "1e", "1e+", "-0", "-0.0e-0", "0", "10", "1.5", "1E5", "1e-5", "1e+05", "0.0", "00", "-01",
    "1.e1", "+1", "0x1", "[1,]", "[,]", "[,1]", "[1,,2]", "[1 2]", "{\"a\":1,}", "{\"a\" 1}", "{\"a\":}", "{\"a\"}", "{a:1}",
    "{1:1}", "{\"a\":1 \"b\":2}", "{\"a\":1,\"a\":2}", "\"\\u12\"", "\"\\x\"", "\"\\u00zz\"", "\"\\u00e9\"", "\"\\u00E9\"",
    "\"\\uD83D\\uDE00\"", "\"a\u{1}b\"", "\"a\nb\"", "\"a\tb\"", "\"\u{7f}\"", "\"é日本😀\"", "tru", "true", "false", "null",
    "nulll", "nul", "True", "[]", "{}", " [ ] ", " { } ", "\t[\n1 ,\r2 ]\n", "1 2", "[] []", "\"\"", "\"", "\"\\\"", "\"\\\\\"",
    "\"\\/\"", "\"\\b\\f\\n\\r\\t\"", "\"\\a\"", "\"\\ud800\"", "\"\\udc00\\ud800\"", "\"\\ud800x\"", "[", "]", "{", "}", "[}",
    "{]", "[\"a\",{\"b\":[null,true,false,-1.5e-3]}]", "{\"Values\":[1,],\"Counts\":[1,]}", "{\"Values\":[],\"Counts\":[]}",
    "{\"a\":1}\n", "{\"a\":1}\n\n", "\n{\"a\":1}", "{\"a\":1}x", "{\"a\":1}{", "1e400", "-", "--1", "1-", "1e1.5", "\u{feff}1",
    "NaN", "Infinity", "'a'", "{\"a\":\"b\":\"c\"}", "[1:2]", ",", ":", "\\", "[\"\\", "{\"\\u0000\":0}",
];

const INSERT_BYTES: &[char] = &[',', ']', '}', '{', '[', '"', '\\', ':', '0', '1', '-', '.', 'e', '\n', '\u{1}', ' '];

fn gen_json_ties(rng: &mut Rng, pool: &[String], n: usize) -> Vec<Vec<u8>> {
    let mut out: Vec<Vec<u8>> = TRICKY_JSON.iter().map(|s| s.as_bytes().to_vec()).collect();
    let deep = 50;
    out.push(format!("{}{}", "[".repeat(deep), "]".repeat(deep)).into_bytes());
    out.push(format!("{}1{}", "[".repeat(deep), "]".repeat(deep - 1)).into_bytes());
    out.push(format!("{}null{}", "{\"a\":".repeat(deep), "}".repeat(deep)).into_bytes());
    for l in pool.iter().take(n / 10 + 5) {
        out.push(l.as_bytes().to_vec());
    }
    let mut guard = 0;
    while out.len() < n && !pool.is_empty() && guard < n * 20 {
        guard += 1;
        let base = rng.pick(pool);
        let bounds: Vec<usize> = base.char_indices().map(|(i, _)| i).chain(std::iter::once(base.len())).collect();
        let at = *rng.pick(&bounds);
        let next = bounds.iter().copied().find(|b| *b > at).unwrap_or(base.len());
        let mut m = String::new();
        match rng.below(6) {
            0 => {
                // delete one char
                m.push_str(&base[..at]);
                m.push_str(&base[next..]);
            }
            1 | 2 => {
                m.push_str(&base[..at]);
                m.push(*rng.pick(INSERT_BYTES));
                m.push_str(&base[at..]);
            }
            3 => {
                m.push_str(&base[..at]);
                m.push(if rng.chance(1, 2) { *rng.pick(INSERT_BYTES) } else { char::from_u32(rng.range(0x20, 0x7e) as u32).unwrap() });
                m.push_str(&base[next..]);
            }
            4 => m.push_str(&base[..at]),
            _ => {
                m.push_str(base);
                m.push_str(*rng.pick::<&str>(&["x", "}", " ", "\n", ",", "{}", "1", "\"", "]", "\r\n\t "]));
            }
        }
        if std::str::from_utf8(m.as_bytes()).is_ok() {
            out.push(m.into_bytes());
        }
    }
    out.truncate(n.max(TRICKY_JSON.len() + 3));
    out
}

fn verdict(b: &[u8]) -> &'static str {
    if strict_json::accepts_grammar(b) { "accept" } else { "reject" }
}

// ------------------------------------------------------------------------------------------------
// targeted search around a disagreeing case (oracle only)

fn neighbours(c: &Case) -> Vec<Case> {
    let mut out = vec![];
    for si in 0..c.steps.len() {
        let items = &c.steps[si].entry.items;
        let with_items = |its: Vec<GItem>| {
            let mut cc = c.clone();
            cc.steps[si].entry.items = its;
            cc
        };
        // move every skippable observation to every position
        for (ii, it) in items.iter().enumerate() {
            if let GItem::Value(n, GVal::Metric { obs, unit, dims, flags }) = it {
                for (oi, ob) in obs.iter().enumerate() {
                    if float_text(ob).as_deref() != Some("nan") {
                        continue;
                    }
                    for to in 0..obs.len() {
                        if to == oi {
                            continue;
                        }
                        let mut o2 = obs.clone();
                        let x = o2.remove(oi);
                        o2.insert(to, x);
                        let mut its = items.clone();
                        its[ii] = GItem::Value(n.clone(), GVal::Metric { obs: o2, unit: *unit, dims: dims.clone(), flags: *flags });
                        out.push(with_items(its));
                    }
                }
                // and a NaN inserted at every position
                for to in 0..=obs.len() {
                    let mut o2 = obs.clone();
                    o2.insert(to, Observation::Floating(f64::NAN));
                    let mut its = items.clone();
                    its[ii] = GItem::Value(n.clone(), GVal::Metric { obs: o2, unit: *unit, dims: dims.clone(), flags: *flags });
                    out.push(with_items(its));
                }
            }
        }
        // drop every item
        for ii in 0..items.len() {
            let mut its = items.clone();
            its.remove(ii);
            out.push(with_items(its));
        }
        // swap every string for every nasty string
        for (ii, it) in items.iter().enumerate() {
            if let GItem::Value(n, v) = it {
                for s in NASTY_STRINGS {
                    let mut its = items.clone();
                    its[ii] = GItem::Value(s.to_string(), v.clone());
                    out.push(with_items(its));
                    if let GVal::Str(_) = v {
                        let mut its = items.clone();
                        its[ii] = GItem::Value(n.clone(), GVal::Str(s.to_string()));
                        out.push(with_items(its));
                    }
                    if let GVal::Metric { obs, unit, dims, flags } = v {
                        for di in 0..dims.len() {
                            for side in 0..2 {
                                let mut d2 = dims.clone();
                                if side == 0 {
                                    d2[di].0 = s.to_string();
                                } else {
                                    d2[di].1 = s.to_string();
                                }
                                let mut its = items.clone();
                                its[ii] = GItem::Value(n.clone(), GVal::Metric { obs: obs.clone(), unit: *unit, dims: d2, flags: *flags });
                                out.push(with_items(its));
                            }
                        }
                    }
                }
            }
        }
    }
    // drop every step, swap adjacent steps
    if c.steps.len() > 1 {
        for si in 0..c.steps.len() {
            let mut cc = c.clone();
            cc.steps.remove(si);
            out.push(cc);
        }
        for si in 0..c.steps.len() - 1 {
            let mut cc = c.clone();
            cc.steps.swap(si, si + 1);
            out.push(cc);
        }
    }
    for s in NASTY_STRINGS {
        let mut cc = c.clone();
        cc.cfg.namespaces[0] = s.to_string();
        out.push(cc);
        if c.cfg.how != 'A' {
            let mut cc = c.clone();
            cc.cfg.log_group = Some(s.to_string());
            out.push(cc);
        }
    }
    out
}

// ------------------------------------------------------------------------------------------------
// batch processing

struct CaseResult {
    obs: String,
    nontrivial: bool,
    failure: Option<(&'static str, String)>,
    skipped: bool,
    bumps: Bumps,
    pool_lines: Vec<String>,
}

fn process_case(c: &Case, prop: Prop, want_pool: bool) -> CaseResult {
    let mut bumps = Bumps::default();
    let Some(outs) = run_case(c) else {
        return CaseResult { obs: String::new(), nontrivial: false, failure: None, skipped: true, bumps, pool_lines: vec![] };
    };
    let parsed: Vec<Vec<Result<J, String>>> = outs.iter().map(parse_lines).collect();
    let failure = match prop {
        Prop::C02 => c.steps.iter().zip(&outs).zip(&parsed).find_map(|((s, o), p)| oracle_c02(s, o, p)),
        Prop::C14 => oracle_c14(c, &outs),
    };
    let nontrivial = describe(c, &outs, &parsed, prop, &mut bumps);
    let mut pool_lines = vec![];
    if want_pool {
        for o in &outs {
            if o.res == "ok" {
                for l in lines_of(&o.bytes) {
                    if l.len() <= 700 {
                        if let Ok(s) = std::str::from_utf8(l) {
                            pool_lines.push(s.to_string());
                        }
                    }
                }
            }
        }
    }
    CaseResult { obs: expected_reply(c, &outs), nontrivial, failure, skipped: false, bumps, pool_lines }
}

struct Run {
    prop: Prop,
    driver: Option<String>,
    driver_ok: bool,
    selftest_left: usize,
    shrunk: usize,
    disagreeing: Vec<Case>,
    pool: Vec<String>,
    sampled: usize,
    total_cases: usize,
}

fn process_batch(run: &mut Run, rep: &mut Report, cases: &[Case]) {
    let want_pool = run.prop == Prop::C02 && run.pool.len() < 400;
    let prop = run.prop;
    let results = par_map(cases, |_, c| process_case(c, prop, want_pool));
    let use_driver = run.driver_ok && run.driver.as_ref().map(|p| std::path::Path::new(p).exists()).unwrap_or(false);
    if !use_driver {
        run.driver_ok = false;
    }
    let need_lines = use_driver || run.selftest_left > 0;
    let encoded: Vec<String> = par_map(cases, |_, c| c.encode());
    let mut requests: Vec<String> = vec![];
    let mut req_case: Vec<usize> = vec![];
    for (i, (c, r)) in cases.iter().zip(&results).enumerate() {
        if r.skipped {
            continue;
        }
        if need_lines {
            let req = format!("F{} {}", c.cfg.validates() as u8, encoded[i]);
            if run.selftest_left > 0 {
                run.selftest_left -= 1;
                println!("request : {req}\nexpected: {}\n", r.obs);
            }
            if use_driver {
                requests.push(req);
                req_case.push(i);
            }
        }
    }
    let expected: Vec<String> = results.iter().map(|r| r.obs.clone()).collect();
    for (i, r) in results.into_iter().enumerate() {
        let c = &cases[i];
        if r.skipped {
            rep.bump("skipped:unsupported-multiplicity");
            continue;
        }
        rep.case(&encoded[i], r.nontrivial);
        r.bumps.merge_into(rep);
        if run.pool.len() < 400 {
            for l in r.pool_lines {
                if run.pool.len() < 400 && !run.pool.contains(&l) {
                    run.pool.push(l);
                }
            }
        }
        run.total_cases += 1;
        if run.sampled < 6 && (run.total_cases % 331 == 1 || r.failure.is_some()) && encoded[i].len() < 3000 && r.obs.len() < 6000 {
            run.sampled += 1;
            rep.sample(json!({"case": encoded[i], "impl": r.obs}));
        }
        if let Some((key, what)) = r.failure {
            if run.shrunk < 12 {
                run.shrunk += 1;
                let small = shrink_case(c, prop, key);
                match check_case(&small, prop) {
                    Some((k, w, obs)) if k == key => rep.oracle_failure(key, &small.encode(), &obs, &w),
                    _ => rep.oracle_failure(key, &encoded[i], &r.obs, &what),
                }
            } else {
                let obs = if r.obs.len() > 4000 { format!("{} bytes of observable", r.obs.len()) } else { r.obs.clone() };
                rep.oracle_failure(key, &encoded[i], &obs, &what);
            }
        }
    }
    if use_driver {
        match run_driver_parallel(&run.driver, &requests) {
            Some(replies) => {
                rep.bump_by("model requests: F (one per case)", requests.len() as u64);
                for (k, reply) in replies.iter().enumerate() {
                    let i = req_case[k];
                    if *reply != expected[i] {
                        rep.disagreement("emf/format", &encoded[i], &expected[i], reply);
                        if run.disagreeing.len() < 3 {
                            run.disagreeing.push(cases[i].clone());
                        }
                    }
                }
            }
            None => run.driver_ok = false,
        }
    }
}

// ------------------------------------------------------------------------------------------------

/// Loopback self-check of the protocol plumbing: invoked like the Lean driver (`emf emf`, requests on
/// stdin), answers `F`/`J` requests from the IMPLEMENTATION. `--driver <this binary>` must therefore
/// report zero disagreements: it checks the case-line round trip (encode -> decode -> same behaviour),
/// request chunking and reply order - not the model.
fn loopback() {
    use std::io::BufRead;
    let stdin = io::stdin();
    let mut out = io::BufWriter::new(io::stdout());
    for line in stdin.lock().lines() {
        let line = line.unwrap_or_default();
        let reply = if let Some(h) = line.strip_prefix("J ") {
            unhex(h.trim()).map(|b| verdict(&b).to_string())
        } else if line.starts_with('F') && line.len() > 3 {
            Case::decode(&line[3..]).and_then(|c| run_case(&c).map(|o| expected_reply(&c, &o)))
        } else {
            None
        };
        let _ = writeln!(out, "{}", reply.unwrap_or_else(|| "bad-op".into()));
    }
}

fn main() {
    quiet_panics();
    if std::env::args().nth(1).as_deref() == Some("emf") {
        return loopback();
    }
    let args = Args::parse();
    let prop = if args.property == "C14" { Prop::C14 } else { Prop::C02 };
    let rule = match prop {
        Prop::C02 => {
            "case = (formatter configuration, one entry [+ sample rate]) or (configuration, one oversized entry, 2-3 \
             ordinary entries on the same formatter); non-trivial = the step wrote at least one \
             record containing a metric in Values/Counts form or a string needing escaping, or produced a validation \
             error, or wrote >= 2 records; distinct by case text"
        }
        Prop::C14 => {
            "case = (formatter configuration, 2-6 steps on one persistent formatter); non-trivial = at least one step \
             before the last one was rejected, failed with an io error, wrote >= 2 records (split), was huge \
             (> 1 MB) or was preceded by a pool operation (clone / with_sampling / merge_globals / output_to of a \
             formatter); distinct by case text"
        }
    };
    let mut rep = Report::new(&args, "emf", rule);
    let mut rng = Rng::new(args.seed);
    let mut jrng = rng.fork(0x4a53);
    let mut run = Run {
        prop,
        driver: args.driver.clone(),
        driver_ok: true,
        selftest_left: args.extra.get("selftest").map(|v| v.parse::<usize>().unwrap_or(5).max(5)).unwrap_or(0),
        shrunk: 0,
        disagreeing: vec![],
        pool: vec![],
        sampled: 0,
        total_cases: 0,
    };

    let mut json_ties = prop == Prop::C02;
    if let Some(line) = args.replay_case() {
        json_ties = false;
        if let Some(h) = line.strip_prefix("J ") {
            // a recogniser disagreement: replay exactly that request
            if let Some(bytes) = unhex(h.trim()) {
                match run_driver(&args.driver, "emf", &[line.clone()]) {
                    Some(r) => {
                        rep.case(&line, true);
                        if r[0] != verdict(&bytes) {
                            rep.disagreement("emf/json-recogniser", &line, verdict(&bytes), &r[0]);
                        }
                    }
                    None => rep.driver_available = false,
                }
            } else {
                rep.notes.push("replay case is not a valid J request".into());
            }
        } else {
            match Case::decode(&line) {
                Some(c) => process_batch(&mut run, &mut rep, &[c]),
                None => rep.notes.push("replay case does not decode".into()),
            }
        }
    } else {
        let corpus: Vec<Case> = args
            .corpus_cases()
            .iter()
            .filter_map(|l| {
                let c = Case::decode(l);
                if c.is_none() {
                    rep.notes.push(format!("corpus line does not decode: {}", &l[..l.len().min(120)]));
                }
                c
            })
            .collect();
        rep.bump_by("corpus cases", corpus.len() as u64);
        process_batch(&mut run, &mut rep, &corpus);
        let mut gb = Bumps::default();
        match prop {
            Prop::C02 => {
                let n: u64 = if args.thorough() { 250_000 } else { 4_000 };
                let batch = 4_000;
                let mut i = 0;
                while i < n {
                    let cases: Vec<Case> = (i..(i + batch).min(n)).map(|k| gen_c02_case(&mut rng, k, &mut gb)).collect();
                    process_batch(&mut run, &mut rep, &cases);
                    i += batch;
                }
                // sequences: an entry whose write fails on I/O, then ordinary entries into a healthy writer
                let n_io: u64 = if args.thorough() { 8_000 } else { 300 };
                let mut irng = rng.fork(0x10fa);
                let cases: Vec<Case> = (0..n_io).map(|_| gen_c02_io_seq(&mut irng, &mut gb)).collect();
                for chunk in cases.chunks(2_000) {
                    process_batch(&mut run, &mut rep, chunk);
                }
                // sequences: an entry that panics mid-way, then ordinary entries
                let n_panic: u64 = if args.thorough() { 6_000 } else { 200 };
                let mut prng = rng.fork(0x9a1c);
                let cases: Vec<Case> = (0..n_panic).map(|_| gen_c02_panic_seq(&mut prng, &mut gb)).collect();
                for chunk in cases.chunks(2_000) {
                    process_batch(&mut run, &mut rep, chunk);
                }
                // sequences: one oversized entry per kind of prefixed buffer, then ordinary entries
                let n_over: u64 = if args.thorough() { 48 } else { 6 };
                let mut orng = rng.fork(0x0b16);
                let cases: Vec<Case> = (0..n_over).map(|k| gen_c02_oversized(&mut orng, k, &mut gb)).collect();
                for chunk in cases.chunks(12) {
                    process_batch(&mut run, &mut rep, chunk);
                }
            }
            Prop::C14 => {
                let n: u64 = if args.thorough() { 60_000 } else { 1_500 };
                // exactly 48 (thorough) / 4 (quick) sequences contain a multi-megabyte step: the Lean side
                // needs about 2 s for each of them
                let huge_every: u64 = match args.extra.get("huge-every").and_then(|v| v.parse().ok()) {
                    Some(e) if e >= 2 => e,
                    _ if args.thorough() => n / 48,
                    _ => n / 4,
                };
                let batch = 1_000;
                let mut i = 0;
                while i < n {
                    let cases: Vec<Case> =
                        (i..(i + batch).min(n))
                            .map(|k| gen_c14_case(&mut rng, if k % huge_every == huge_every / 2 { Some(k / huge_every) } else { None }, &mut gb))
                            .collect();
                    process_batch(&mut run, &mut rep, &cases);
                    i += batch;
                }
            }
        }
        gb.merge_into(&mut rep);
    }

    // recogniser tie stream (C02 only)
    if json_ties {
        let n = if args.thorough() { 5_000 } else { 300 };
        let texts = gen_json_ties(&mut jrng, &run.pool, n);
        let requests: Vec<String> = texts.iter().map(|t| format!("J {}", hex(t))).collect();
        for t in &texts {
            rep.bump(&format!("json-tie:{}", verdict(t)));
        }
        if run.selftest_left > 0 || args.extra.contains_key("selftest") {
            for (t, r) in texts.iter().zip(&requests).skip(3).take(3) {
                println!("request : {r}\nexpected: {}\n", verdict(t));
            }
        }
        if run.driver_ok {
            match run_driver_parallel(&run.driver, &requests) {
                Some(replies) => {
                    rep.bump_by("model requests: J", requests.len() as u64);
                    for ((t, req), reply) in texts.iter().zip(&requests).zip(&replies) {
                        if reply != verdict(t) {
                            rep.disagreement("emf/json-recogniser", req, verdict(t), reply);
                        }
                    }
                }
                None => run.driver_ok = false,
            }
        }
    }
    rep.driver_available = rep.driver_available && run.driver_ok;

    // a disagreement without an oracle failure: look for one around the disagreeing cases
    if !run.disagreeing.is_empty() && rep.oracle_failures.is_empty() {
        let budget: u64 = 40_000;
        let mut frontier: Vec<Case> = run.disagreeing.clone();
        let mut seen: HashSet<String> = HashSet::new();
        let mut srng = rng.fork(0x5ea5);
        'search: while !frontier.is_empty() && rep.search_cases < budget {
            let base = frontier.remove(0);
            let mut ns = neighbours(&base);
            srng.shuffle(&mut ns);
            ns.retain(|c| c.steps.iter().all(|s| s.entry.encode().len() < 200_000));
            let room = (budget - rep.search_cases) as usize;
            ns.truncate(room);
            let found = par_map(&ns, |_, c| check_case(c, prop).map(|(k, w, o)| (k, w, o)));
            rep.search_cases += ns.len() as u64;
            for (c, f) in ns.iter().zip(found) {
                if let Some((key, what, obs)) = f {
                    rep.search_found = true;
                    let small = shrink_case(c, prop, key);
                    match check_case(&small, prop) {
                        Some((k, w, o)) if k == key => rep.oracle_failure(key, &small.encode(), &o, &w),
                        _ => rep.oracle_failure(key, &c.encode(), &obs, &what),
                    }
                    break 'search;
                }
            }
            // second ring: a few neighbours of neighbours
            for c in ns.into_iter().take(40) {
                if seen.insert(c.encode()) && frontier.len() < 200 {
                    frontier.push(c);
                }
            }
        }
    }
    rep.write(&args);
}
