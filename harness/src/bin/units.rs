//! Engine `units` (C19): declaring or converting a unit never changes the physical quantity reported.
//!
//! Components
//!  * `ratio`  — every real `<A as Convert<B>>::RATIO` (all 435 ordered convertible pairs, enumerated at
//!               the type level through the public `UnitTag` / `Convert` traits) against
//!               (oracle) the correctly rounded quotient of a hand-written SI table and
//!               (model) the bit pattern the Lean driver computes from the exact rational.
//!  * `name`   — `Unit::name()` of all 26 tags against the CloudWatch unit list and the model.
//!  * `value`  — observations pushed through `WithUnit`, `Option`, `Distribution`, `Mean` (in both
//!               nesting orders, plus a round trip) into a recording `ValueWriter`.
//!  * `macro`  — a fixed `#[metrics]` struct with `#[metrics(unit = …)]` fields written through a
//!               recording `EntryWriter`.
//!
//! Case lines
//!   `ratio <A> <B>` | `name <A>` | `macro <secs> <nanos> <u64> <f64 bits> <present 0/1>`
//!   `value <shape> <src> <A> <B> <elem>;<elem>;…`   (`-` for no element)
//!     shape: plain | with | withopt | optwith | withdist | distwith | withmean | meanwith | withmeanf | round
//!     src:   raw | u64 | f64 | obs | dur          (the Rust type of the innermost value)
//!     elem:  `raw:<W>:<obs,…|->:<ndims>` | `rawstr` | `absent` | `u<dec>` | `f<hex16>` | `o<obs>` | `d<secs>:<nanos>`
//!     obs:   `U<dec>` | `F<hex16>` | `R<hex16>x<dec>`
//! Tags are named by their Rust struct identifier.
//!
//! Oracle (written from the property statement, independent of the Lean model): see `oracle_value`.

use metrique::unit_of_work::metrics;
use metrique_writer::value::{Distribution, Mean};
use metrique_writer_core::unit::{self as ut, Convert, NegativeScale, PositiveScale, UnitTag, WithUnit};
use metrique_writer_core::value::MetricFlags;
use metrique_writer_core::{Entry, EntryConfig, EntryWriter, MetricValue, Observation, Unit, ValidationError, Value, ValueWriter};
use std::borrow::Cow;
use std::collections::HashMap;
use std::marker::PhantomData;
use std::time::{Duration, SystemTime};
use verif_harness::*;

// ------------------------------------------------------------------------------------------------
// hand-written specification table (SI prefixes, byte = 8 bit, CloudWatch names)

#[derive(Clone, Copy, PartialEq, Eq, Debug)]
enum Fam {
    Unitless,
    Plain,
    Time,
    Bits,
}

struct TagInfo {
    rust: String,
    unit: Unit,
    /// CloudWatch name
    cw: String,
    fam: Fam,
    /// size of one unit in base units (seconds; bits or bits/second) = num/den
    num: u64,
    den: u64,
}

/// https://docs.aws.amazon.com/AmazonCloudWatch/latest/APIReference/API_MetricDatum.html — `Unit` valid values
const CLOUDWATCH_UNITS: [&str; 27] = [
    "Seconds", "Microseconds", "Milliseconds", "Bytes", "Kilobytes", "Megabytes", "Gigabytes", "Terabytes", "Bits",
    "Kilobits", "Megabits", "Gigabits", "Terabits", "Percent", "Count", "Bytes/Second", "Kilobytes/Second",
    "Megabytes/Second", "Gigabytes/Second", "Terabytes/Second", "Bits/Second", "Kilobits/Second", "Megabits/Second",
    "Gigabits/Second", "Terabits/Second", "Count/Second", "None",
];

fn lower_first(s: &str) -> String {
    let mut c = s.chars();
    match c.next() {
        Some(f) => f.to_lowercase().collect::<String>() + c.as_str(),
        None => String::new(),
    }
}

fn spec_tags() -> Vec<TagInfo> {
    let t = |rust: &str, unit, cw: &str, fam, num, den| TagInfo { rust: rust.into(), unit, cw: cw.into(), fam, num, den };
    let mut v = vec![
        t("None", Unit::None, "None", Fam::Unitless, 1, 1),
        t("Count", Unit::Count, "Count", Fam::Plain, 1, 1),
        t("Percent", Unit::Percent, "Percent", Fam::Plain, 1, 1),
        t("Second", Unit::Second(NegativeScale::One), "Seconds", Fam::Time, 1, 1),
        t("Millisecond", Unit::Second(NegativeScale::Milli), "Milliseconds", Fam::Time, 1, 1_000),
        t("Microsecond", Unit::Second(NegativeScale::Micro), "Microseconds", Fam::Time, 1, 1_000_000),
    ];
    let bases: [(&str, fn(PositiveScale) -> Unit, &str, u64); 4] = [
        ("Byte", Unit::Byte, "Bytes", 8),
        ("Bit", Unit::Bit, "Bits", 1),
        ("BytePerSecond", Unit::BytePerSecond, "Bytes/Second", 8),
        ("BitPerSecond", Unit::BitPerSecond, "Bits/Second", 1),
    ];
    let prefixes = [
        ("", PositiveScale::One, 0u32),
        ("Kilo", PositiveScale::Kilo, 3),
        ("Mega", PositiveScale::Mega, 6),
        ("Giga", PositiveScale::Giga, 9),
        ("Tera", PositiveScale::Tera, 12),
    ];
    for (rust, ctor, cw, bits) in bases {
        for (pre, scale, exp) in prefixes {
            let (r, c) = if pre.is_empty() {
                (rust.to_string(), cw.to_string())
            } else {
                (format!("{pre}{}", lower_first(rust)), format!("{pre}{}", lower_first(cw)))
            };
            v.push(TagInfo { rust: r, unit: ctor(scale), cw: c, fam: Fam::Bits, num: bits * 10u64.pow(exp), den: 1 });
        }
    }
    for ti in &v {
        assert!(CLOUDWATCH_UNITS.contains(&ti.cw.as_str()), "spec name {} is not a CloudWatch unit", ti.cw);
    }
    v
}

struct Spec {
    tags: Vec<TagInfo>,
    by_unit: HashMap<Unit, usize>,
    by_rust: HashMap<String, usize>,
}

impl Spec {
    fn new() -> Spec {
        let tags = spec_tags();
        let by_unit = tags.iter().enumerate().map(|(i, t)| (t.unit, i)).collect();
        let by_rust = tags.iter().enumerate().map(|(i, t)| (t.rust.clone(), i)).collect();
        Spec { tags, by_unit, by_rust }
    }
    fn rust_of(&self, u: Unit) -> String {
        match self.by_unit.get(&u) {
            Some(i) => self.tags[*i].rust.clone(),
            None => format!("?{}", u.name()),
        }
    }
    /// the specification's conversion factor a → b as an exact fraction, `None` if the pair is not convertible
    fn factor(&self, a: usize, b: usize) -> Option<(u64, u64)> {
        let (ta, tb) = (&self.tags[a], &self.tags[b]);
        match (ta.fam, tb.fam) {
            (Fam::Unitless, _) => Some((1, 1)),
            (Fam::Time, Fam::Time) | (Fam::Bits, Fam::Bits) => Some((ta.num * tb.den, ta.den * tb.num)),
            _ => None,
        }
    }
}

// ------------------------------------------------------------------------------------------------
// case description

#[derive(Clone, Debug, PartialEq)]
enum Elem {
    Raw { written: usize, obs: Vec<Observation>, ndims: usize },
    RawStr,
    Absent,
    U(u64),
    F(f64),
    O(Observation),
    D(u64, u32),
}

#[derive(Clone, Copy, Debug, PartialEq, Eq, Hash)]
enum Shape {
    Plain,
    With,
    WithOpt,
    OptWith,
    WithDist,
    DistWith,
    WithMean,
    MeanWith,
    WithMeanF,
    Round,
}

const SHAPES: [(Shape, &str); 10] = [
    (Shape::Plain, "plain"),
    (Shape::With, "with"),
    (Shape::WithOpt, "withopt"),
    (Shape::OptWith, "optwith"),
    (Shape::WithDist, "withdist"),
    (Shape::DistWith, "distwith"),
    (Shape::WithMean, "withmean"),
    (Shape::MeanWith, "meanwith"),
    (Shape::WithMeanF, "withmeanf"),
    (Shape::Round, "round"),
];

fn shape_name(s: Shape) -> &'static str {
    SHAPES.iter().find(|(x, _)| *x == s).unwrap().1
}

#[derive(Clone, Copy, Debug, PartialEq, Eq, Hash)]
enum SrcKind {
    Raw,
    U64,
    F64,
    Obs,
    Dur,
}

const SRCS: [(SrcKind, &str); 5] =
    [(SrcKind::Raw, "raw"), (SrcKind::U64, "u64"), (SrcKind::F64, "f64"), (SrcKind::Obs, "obs"), (SrcKind::Dur, "dur")];

fn src_name(s: SrcKind) -> &'static str {
    SRCS.iter().find(|(x, _)| *x == s).unwrap().1
}

#[derive(Clone, Debug)]
struct Case {
    shape: Shape,
    src: SrcKind,
    from: usize,
    to: usize,
    elems: Vec<Elem>,
}

fn bits_canon(x: f64) -> String {
    if x.is_nan() { "7ff8000000000000".to_string() } else { f64_bits(x) }
}

fn enc_obs(o: &Observation) -> String {
    match o {
        Observation::Unsigned(u) => format!("U{u}"),
        Observation::Floating(f) => format!("F{}", f64_bits(*f)),
        Observation::Repeated { total, occurrences } => format!("R{}x{}", f64_bits(*total), occurrences),
        _ => "?".into(),
    }
}

fn enc_obs_canon(o: &Observation) -> String {
    match o {
        Observation::Unsigned(u) => format!("U{u}"),
        Observation::Floating(f) => format!("F{}", bits_canon(*f)),
        Observation::Repeated { total, occurrences } => format!("R{}x{}", bits_canon(*total), occurrences),
        _ => "?".into(),
    }
}

fn dec_f64(s: &str) -> Option<f64> {
    if s.len() != 16 {
        return None;
    }
    u64::from_str_radix(s, 16).ok().map(f64::from_bits)
}

fn dec_obs(s: &str) -> Option<Observation> {
    let body = s.get(1..)?;
    match s.chars().next()? {
        'U' => body.parse().ok().map(Observation::Unsigned),
        'F' => dec_f64(body).map(Observation::Floating),
        'R' => {
            let (t, n) = body.split_once('x')?;
            Some(Observation::Repeated { total: dec_f64(t)?, occurrences: n.parse().ok()? })
        }
        _ => None,
    }
}

fn enc_obs_list(obs: &[Observation], f: fn(&Observation) -> String) -> String {
    if obs.is_empty() { "-".into() } else { obs.iter().map(f).collect::<Vec<_>>().join(",") }
}

impl Elem {
    fn encode(&self, spec: &Spec) -> String {
        match self {
            Elem::Raw { written, obs, ndims } => format!("raw:{}:{}:{}", spec.tags[*written].rust, enc_obs_list(obs, enc_obs), ndims),
            Elem::RawStr => "rawstr".into(),
            Elem::Absent => "absent".into(),
            Elem::U(u) => format!("u{u}"),
            Elem::F(f) => format!("f{}", f64_bits(*f)),
            Elem::O(o) => format!("o{}", enc_obs(o)),
            Elem::D(s, n) => format!("d{s}:{n}"),
        }
    }
    fn decode(s: &str, spec: &Spec) -> Option<Elem> {
        if s == "rawstr" {
            return Some(Elem::RawStr);
        }
        if s == "absent" {
            return Some(Elem::Absent);
        }
        if let Some(rest) = s.strip_prefix("raw:") {
            let p: Vec<&str> = rest.split(':').collect();
            if p.len() != 3 {
                return None;
            }
            let obs = if p[1] == "-" { vec![] } else { p[1].split(',').map(dec_obs).collect::<Option<Vec<_>>>()? };
            return Some(Elem::Raw { written: *spec.by_rust.get(p[0])?, obs, ndims: p[2].parse().ok()? });
        }
        let body = s.get(1..)?;
        match s.chars().next()? {
            'u' => body.parse().ok().map(Elem::U),
            'f' => dec_f64(body).map(Elem::F),
            'o' => dec_obs(body).map(Elem::O),
            'd' => {
                let (a, b) = body.split_once(':')?;
                let n: u32 = b.parse().ok()?;
                if n >= 1_000_000_000 {
                    return None;
                }
                Some(Elem::D(a.parse().ok()?, n))
            }
            _ => None,
        }
    }
    /// the postfix token of the Lean driver that pushes this element (promised unit `from`)
    fn token(&self, spec: &Spec, from: usize) -> String {
        let p = &spec.tags[from].rust;
        match self {
            Elem::Raw { written, obs, ndims } => {
                format!("raw:{p}:{}:{}:{}", spec.tags[*written].rust, enc_obs_list(obs, enc_obs), ndims)
            }
            Elem::RawStr => format!("rawstr:{p}"),
            Elem::Absent => format!("none:{p}"),
            other => other.encode(spec),
        }
    }
    /// the observations an honest element reports
    fn observations(&self) -> Vec<Observation> {
        match self {
            Elem::Raw { obs, .. } => obs.clone(),
            Elem::U(u) => vec![Observation::Unsigned(*u)],
            Elem::F(f) => vec![Observation::Floating(*f)],
            Elem::O(o) => vec![*o],
            _ => vec![],
        }
    }
}

impl Case {
    fn encode(&self, spec: &Spec) -> String {
        let elems = if self.elems.is_empty() {
            "-".to_string()
        } else {
            self.elems.iter().map(|e| e.encode(spec)).collect::<Vec<_>>().join(";")
        };
        format!(
            "value {} {} {} {} {}",
            shape_name(self.shape),
            src_name(self.src),
            spec.tags[self.from].rust,
            spec.tags[self.to].rust,
            elems
        )
    }
    fn decode(s: &str, spec: &Spec) -> Option<Case> {
        let p: Vec<&str> = s.split(' ').collect();
        if p.len() != 6 || p[0] != "value" {
            return None;
        }
        let shape = SHAPES.iter().find(|(_, n)| *n == p[1])?.0;
        let src = SRCS.iter().find(|(_, n)| *n == p[2])?.0;
        let elems = if p[5] == "-" { vec![] } else { p[5].split(';').map(|e| Elem::decode(e, spec)).collect::<Option<Vec<_>>>()? };
        Some(Case { shape, src, from: *spec.by_rust.get(p[3])?, to: *spec.by_rust.get(p[4])?, elems })
    }
    /// the request line for the Lean driver
    fn request(&self, spec: &Spec) -> String {
        let a = &spec.tags[self.from].rust;
        let b = &spec.tags[self.to].rust;
        let n = self.elems.len();
        let toks: Vec<String> = self.elems.iter().map(|e| e.token(spec, self.from)).collect();
        let first = toks.first().cloned().unwrap_or_default();
        let absent = matches!(self.elems.first(), Some(Elem::Absent));
        let body = match self.shape {
            Shape::Plain => first,
            Shape::With => format!("{first} wu:{b}"),
            Shape::WithOpt => if absent { format!("{first} wu:{b}") } else { format!("{first} some wu:{b}") },
            Shape::OptWith => if absent { format!("none:{b}") } else { format!("{first} wu:{b} some") },
            Shape::WithDist => format!("{} dist:{n}:{a} wu:{b}", toks.join(" ")),
            Shape::DistWith => {
                format!("{} dist:{n}:{b}", toks.iter().map(|t| format!("{t} wu:{b}")).collect::<Vec<_>>().join(" "))
            }
            Shape::WithMean => format!("{} mean:{n}:{a} wu:{b}", toks.join(" ")),
            Shape::MeanWith => {
                format!("{} mean:{n}:{b}", toks.iter().map(|t| format!("{t} wu:{b}")).collect::<Vec<_>>().join(" "))
            }
            Shape::WithMeanF => {
                let fs: Vec<String> = self
                    .elems
                    .iter()
                    .map(|e| match e {
                        Elem::F(f) => f64_bits(*f),
                        _ => "?".into(),
                    })
                    .collect();
                format!("meanf:{a}:{} wu:{b}", if fs.is_empty() { "-".to_string() } else { fs.join(",") })
            }
            Shape::Round => format!("{first} wu:{b} wu:{a}"),
        };
        format!("eval {}", body.split_whitespace().collect::<Vec<_>>().join(" "))
    }
    /// well-formed for its shape and source type (decoded corpus / replay lines are checked with this)
    fn well_formed(&self, spec: &Spec) -> bool {
        let elem_ok = |e: &Elem| match (self.src, e) {
            (_, Elem::Absent) => !matches!(self.shape, Shape::With | Shape::Round | Shape::WithMeanF),
            (SrcKind::Raw, Elem::Raw { .. }) | (SrcKind::Raw, Elem::RawStr) => self.shape != Shape::WithMeanF,
            (SrcKind::U64, Elem::U(_)) | (SrcKind::F64, Elem::F(_)) | (SrcKind::Obs, Elem::O(_)) | (SrcKind::Dur, Elem::D(..)) => {
                self.shape != Shape::WithMeanF
            }
            (SrcKind::Raw, Elem::F(_)) => self.shape == Shape::WithMeanF,
            _ => false,
        };
        let n_ok = match self.shape {
            Shape::Plain | Shape::With | Shape::WithOpt | Shape::OptWith | Shape::Round => self.elems.len() == 1,
            _ => true,
        };
        let from_ok = match self.src {
            SrcKind::Raw => true,
            SrcKind::U64 | SrcKind::F64 | SrcKind::Obs => spec.tags[self.from].fam == Fam::Unitless,
            SrcKind::Dur => spec.tags[self.from].rust == "Millisecond",
        };
        let pair_ok = spec.factor(self.from, self.to).is_some()
            && (self.shape != Shape::Round || spec.factor(self.to, self.from).is_some());
        n_ok && from_ok && pair_ok && self.elems.iter().all(elem_ok)
    }
}

// ------------------------------------------------------------------------------------------------
// implementation side: values, recorder, type-level dispatch

const DIM_KEYS: [&str; 3] = ["k0", "k1", "k2"];
const DIM_VALS: [&str; 3] = ["v0", "v1", "v2"];

/// a `MetricValue` that promises unit `A` and writes what it is told to
struct Raw<A> {
    kind: RawKind,
    _p: PhantomData<A>,
}

enum RawKind {
    Metric { obs: Vec<Observation>, written: Unit, ndims: usize },
    Str,
}

impl<A> Value for Raw<A> {
    fn write(&self, writer: impl ValueWriter) {
        match &self.kind {
            RawKind::Metric { obs, written, ndims } => writer.metric(
                obs.iter().copied(),
                *written,
                (0..*ndims).map(|i| (DIM_KEYS[i % 3], DIM_VALS[i % 3])),
                MetricFlags::empty(),
            ),
            RawKind::Str => writer.string("text"),
        }
    }
}

impl<A: UnitTag> MetricValue for Raw<A> {
    type Unit = A;
}

/// construction of the innermost value from an element (`None` = `Option::None` / not constructible)
trait Src: MetricValue + Sized {
    fn make(e: &Elem, spec: &Spec) -> Option<Self>;
}

impl<A: UnitTag> Src for Raw<A> {
    fn make(e: &Elem, spec: &Spec) -> Option<Self> {
        match e {
            Elem::Raw { written, obs, ndims } => Some(Raw {
                kind: RawKind::Metric { obs: obs.clone(), written: spec.tags[*written].unit, ndims: *ndims },
                _p: PhantomData,
            }),
            Elem::RawStr => Some(Raw { kind: RawKind::Str, _p: PhantomData }),
            _ => None,
        }
    }
}

impl Src for u64 {
    fn make(e: &Elem, _: &Spec) -> Option<Self> {
        if let Elem::U(u) = e { Some(*u) } else { None }
    }
}

impl Src for f64 {
    fn make(e: &Elem, _: &Spec) -> Option<Self> {
        if let Elem::F(f) = e { Some(*f) } else { None }
    }
}

impl Src for Observation {
    fn make(e: &Elem, _: &Spec) -> Option<Self> {
        if let Elem::O(o) = e { Some(*o) } else { None }
    }
}

impl Src for Duration {
    fn make(e: &Elem, _: &Spec) -> Option<Self> {
        if let Elem::D(s, n) = e { Some(Duration::new(*s, *n)) } else { None }
    }
}

#[derive(Clone, Debug, PartialEq)]
enum Written {
    Nothing,
    Str,
    Metric { obs: Vec<Observation>, unit: Unit, dims: Vec<(String, String)> },
    Error(Vec<String>),
    CtorError(Vec<String>),
    Panic(String),
    Twice,
}

#[derive(Clone, Debug)]
struct ImplOut {
    /// `MetricValue::Unit` of the outermost type
    promised: Option<Unit>,
    written: Written,
}

#[derive(Default)]
struct Rec {
    calls: Vec<Written>,
}

fn messages(e: &ValidationError) -> Vec<String> {
    e.to_string().split(", ").map(|s| s.to_string()).collect()
}

impl ValueWriter for &mut Rec {
    fn string(self, _value: &str) {
        self.calls.push(Written::Str);
    }
    fn metric<'a>(
        self,
        distribution: impl IntoIterator<Item = Observation>,
        unit: Unit,
        dimensions: impl IntoIterator<Item = (&'a str, &'a str)>,
        _flags: MetricFlags<'_>,
    ) {
        self.calls.push(Written::Metric {
            obs: distribution.into_iter().collect(),
            unit,
            dims: dimensions.into_iter().map(|(k, v)| (k.to_string(), v.to_string())).collect(),
        });
    }
    fn error(self, error: ValidationError) {
        self.calls.push(Written::Error(messages(&error)));
    }
}

fn written_of(mut rec: Rec) -> Written {
    match rec.calls.len() {
        0 => Written::Nothing,
        1 => rec.calls.pop().unwrap(),
        _ => Written::Twice,
    }
}

fn record<X: MetricValue>(x: &X) -> ImplOut {
    record_dyn(<X::Unit as UnitTag>::UNIT, &mut |rec| x.write(rec))
}

/// (not generic: keeps the per-instantiation code small)
fn record_dyn(promised: Unit, write: &mut dyn FnMut(&mut Rec)) -> ImplOut {
    let mut rec = Rec::default();
    let r = catch(|| write(&mut rec));
    ImplOut {
        promised: Some(promised),
        written: match r {
            Ok(()) => written_of(rec),
            Err(p) => Written::Panic(p),
        },
    }
}

fn ctor_error<U: UnitTag>(e: ValidationError) -> ImplOut {
    ImplOut { promised: Some(U::UNIT), written: Written::CtorError(messages(&e)) }
}

fn guarded(f: &mut dyn FnMut() -> ImplOut) -> ImplOut {
    match catch(f) {
        Ok(o) => o,
        Err(p) => ImplOut { promised: None, written: Written::Panic(p) },
    }
}

fn floats(c: &Case) -> Vec<f64> {
    c.elems.iter().filter_map(|e| if let Elem::F(f) = e { Some(*f) } else { None }).collect()
}

/// the shapes without a collection, for innermost type `V` and declared unit `B` (instantiated for every pair)
fn run<V: Src, B: UnitTag>(c: &Case, spec: &Spec) -> ImplOut
where
    V::Unit: Convert<B>,
{
    guarded(&mut || {
        let first = || c.elems.first().and_then(|e| V::make(e, spec));
        match c.shape {
            Shape::Plain => record(&first()),
            Shape::With => match first() {
                Some(v) => record(&WithUnit::<V, B>::from(v)),
                None => ImplOut { promised: None, written: Written::Panic("harness: absent element for shape with".into()) },
            },
            Shape::WithOpt => record(&WithUnit::<Option<V>, B>::from(first())),
            Shape::OptWith => record(&first().map(WithUnit::<V, B>::from)),
            _ => ImplOut { promised: None, written: Written::Panic("harness: shape dispatched to run".into()) },
        }
    })
}

/// the shapes with a `Distribution` / `Mean` (instantiated for a subset of the pairs, see `dispatch`:
/// these types are generic in the unit tags and the instantiations are expensive to compile)
fn run_collected<V: Src, B: UnitTag>(c: &Case, spec: &Spec) -> ImplOut
where
    V::Unit: Convert<B>,
{
    guarded(&mut || {
        let all = || c.elems.iter().map(|e| V::make(e, spec));
        match c.shape {
            Shape::WithDist => {
                let d: Distribution<Option<V>> = all().collect();
                record(&WithUnit::<_, B>::from(d))
            }
            Shape::DistWith => {
                let d: Distribution<WithUnit<Option<V>, B>> = all().map(WithUnit::from).collect();
                record(&d)
            }
            Shape::WithMean => {
                let vs: Vec<Option<V>> = all().collect();
                match Mean::<V::Unit>::try_new(vs.iter()) {
                    Ok(m) => record(&WithUnit::<_, B>::from(m)),
                    Err(e) => ctor_error::<B>(e),
                }
            }
            Shape::MeanWith => {
                let vs: Vec<WithUnit<Option<V>, B>> = all().map(WithUnit::from).collect();
                match Mean::<B>::try_new(vs.iter()) {
                    Ok(m) => record(&m),
                    Err(e) => ctor_error::<B>(e),
                }
            }
            Shape::WithMeanF => {
                let m: Mean<V::Unit> = floats(c).into_iter().collect();
                record(&WithUnit::<_, B>::from(m))
            }
            _ => ImplOut { promised: None, written: Written::Panic("harness: shape dispatched to run_collected".into()) },
        }
    })
}

/// `WithUnit<WithUnit<V, B>, V::Unit>`
fn run_round<V: Src, B: UnitTag>(c: &Case, spec: &Spec) -> ImplOut
where
    V::Unit: Convert<B>,
    B: Convert<V::Unit>,
{
    guarded(&mut || match c.elems.first().and_then(|e| V::make(e, spec)) {
        Some(v) => record(&WithUnit::<WithUnit<V, B>, V::Unit>::from(WithUnit::from(v))),
        None => ImplOut { promised: None, written: Written::Panic("harness: absent element for shape round".into()) },
    })
}

type RunFn = fn(&Case, &Spec) -> ImplOut;

struct PairRow {
    from: Unit,
    to: Unit,
    ratio: f64,
}

#[derive(Default)]
struct Dispatch {
    pairs: Vec<PairRow>,
    run: HashMap<(SrcKind, Unit, Unit), RunFn>,
    collected: HashMap<(SrcKind, Unit, Unit), RunFn>,
    round: HashMap<(SrcKind, Unit, Unit), RunFn>,
}

fn reg_pair<A: UnitTag + Convert<B>, B: UnitTag>(d: &mut Dispatch) {
    d.pairs.push(PairRow { from: A::UNIT, to: B::UNIT, ratio: <A as Convert<B>>::RATIO });
    d.run.insert((SrcKind::Raw, A::UNIT, B::UNIT), run::<Raw<A>, B>);
}

fn reg_collected<A: UnitTag + Convert<B>, B: UnitTag>(d: &mut Dispatch) {
    d.collected.insert((SrcKind::Raw, A::UNIT, B::UNIT), run_collected::<Raw<A>, B>);
}

fn reg_sym<A: UnitTag + Convert<B>, B: UnitTag + Convert<A>>(d: &mut Dispatch) {
    d.round.insert((SrcKind::Raw, A::UNIT, B::UNIT), run_round::<Raw<A>, B>);
}

fn reg_unitless<B: UnitTag>(d: &mut Dispatch) {
    d.run.insert((SrcKind::U64, Unit::None, B::UNIT), run::<u64, B>);
    d.run.insert((SrcKind::F64, Unit::None, B::UNIT), run::<f64, B>);
    d.run.insert((SrcKind::Obs, Unit::None, B::UNIT), run::<Observation, B>);
    d.collected.insert((SrcKind::U64, Unit::None, B::UNIT), run_collected::<u64, B>);
    d.collected.insert((SrcKind::F64, Unit::None, B::UNIT), run_collected::<f64, B>);
    d.collected.insert((SrcKind::Obs, Unit::None, B::UNIT), run_collected::<Observation, B>);
}

fn reg_time<B: UnitTag + Convert<ut::Millisecond>>(d: &mut Dispatch)
where
    ut::Millisecond: Convert<B>,
{
    d.run.insert((SrcKind::Dur, ut::Millisecond::UNIT, B::UNIT), run::<Duration, B>);
    d.collected.insert((SrcKind::Dur, ut::Millisecond::UNIT, B::UNIT), run_collected::<Duration, B>);
    d.round.insert((SrcKind::Dur, ut::Millisecond::UNIT, B::UNIT), run_round::<Duration, B>);
}

macro_rules! cross {
    ($f:ident, $d:ident; [$($a:ident),*]; $bs:tt) => { $( cross!(@row $f, $d; $a; $bs); )* };
    (@row $f:ident, $d:ident; $a:ident; [$($b:ident),*]) => { $( $f::<ut::$a, ut::$b>(&mut $d); )* };
}

macro_rules! each {
    ($f:ident, $d:ident; [$($b:ident),*]) => { $( $f::<ut::$b>(&mut $d); )* };
}

fn dispatch() -> Dispatch {
    let mut d = Dispatch::default();
    // `impl<U: UnitTag> Convert<U> for None`
    cross!(reg_pair, d; [None]; [None, Count, Percent, Second, Millisecond, Microsecond,
        Byte, Kilobyte, Megabyte, Gigabyte, Terabyte, Bit, Kilobit, Megabit, Gigabit, Terabit,
        BytePerSecond, KilobytePerSecond, MegabytePerSecond, GigabytePerSecond, TerabytePerSecond,
        BitPerSecond, KilobitPerSecond, MegabitPerSecond, GigabitPerSecond, TerabitPerSecond]);
    cross!(reg_pair, d; [Second, Millisecond, Microsecond]; [Second, Millisecond, Microsecond]);
    cross!(reg_pair, d; [Byte, Kilobyte, Megabyte, Gigabyte, Terabyte, Bit, Kilobit, Megabit, Gigabit, Terabit,
        BytePerSecond, KilobytePerSecond, MegabytePerSecond, GigabytePerSecond, TerabytePerSecond,
        BitPerSecond, KilobitPerSecond, MegabitPerSecond, GigabitPerSecond, TerabitPerSecond];
        [Byte, Kilobyte, Megabyte, Gigabyte, Terabyte, Bit, Kilobit, Megabit, Gigabit, Terabit,
        BytePerSecond, KilobytePerSecond, MegabytePerSecond, GigabytePerSecond, TerabytePerSecond,
        BitPerSecond, KilobitPerSecond, MegabitPerSecond, GigabitPerSecond, TerabitPerSecond]);
    // collections: every `None → B`, every time pair, and a spread of the 400 bit pairs
    cross!(reg_collected, d; [None]; [None, Count, Percent, Second, Millisecond, Microsecond,
        Byte, Kilobyte, Megabyte, Gigabyte, Terabyte, Bit, Kilobit, Megabit, Gigabit, Terabit,
        BytePerSecond, KilobytePerSecond, MegabytePerSecond, GigabytePerSecond, TerabytePerSecond,
        BitPerSecond, KilobitPerSecond, MegabitPerSecond, GigabitPerSecond, TerabitPerSecond]);
    cross!(reg_collected, d; [Second, Millisecond, Microsecond]; [Second, Millisecond, Microsecond]);
    reg_collected::<ut::Byte, ut::Byte>(&mut d);
    reg_collected::<ut::Byte, ut::Kilobyte>(&mut d);
    reg_collected::<ut::Byte, ut::Gigabyte>(&mut d);
    reg_collected::<ut::Kilobyte, ut::Megabyte>(&mut d);
    reg_collected::<ut::Kilobyte, ut::BytePerSecond>(&mut d);
    reg_collected::<ut::Megabyte, ut::Gigabyte>(&mut d);
    reg_collected::<ut::Megabyte, ut::Gigabit>(&mut d);
    reg_collected::<ut::Megabyte, ut::MegabitPerSecond>(&mut d);
    reg_collected::<ut::Gigabyte, ut::Terabyte>(&mut d);
    reg_collected::<ut::Terabyte, ut::Bit>(&mut d);
    reg_collected::<ut::Terabyte, ut::KilobytePerSecond>(&mut d);
    reg_collected::<ut::Bit, ut::Kilobit>(&mut d);
    reg_collected::<ut::Bit, ut::GigabitPerSecond>(&mut d);
    reg_collected::<ut::Kilobit, ut::Bit>(&mut d);
    reg_collected::<ut::Kilobit, ut::Megabit>(&mut d);
    reg_collected::<ut::Megabit, ut::Gigabit>(&mut d);
    reg_collected::<ut::Megabit, ut::MegabytePerSecond>(&mut d);
    reg_collected::<ut::Gigabit, ut::Megabyte>(&mut d);
    reg_collected::<ut::Gigabit, ut::Terabit>(&mut d);
    reg_collected::<ut::Gigabit, ut::TerabitPerSecond>(&mut d);
    reg_collected::<ut::Terabit, ut::Kilobyte>(&mut d);
    reg_collected::<ut::Terabit, ut::Kilobit>(&mut d);
    reg_collected::<ut::Terabit, ut::BytePerSecond>(&mut d);
    reg_collected::<ut::BytePerSecond, ut::KilobytePerSecond>(&mut d);
    reg_collected::<ut::BytePerSecond, ut::GigabytePerSecond>(&mut d);
    reg_collected::<ut::KilobytePerSecond, ut::Byte>(&mut d);
    reg_collected::<ut::KilobytePerSecond, ut::MegabytePerSecond>(&mut d);
    reg_collected::<ut::MegabytePerSecond, ut::Megabit>(&mut d);
    reg_collected::<ut::MegabytePerSecond, ut::GigabytePerSecond>(&mut d);
    reg_collected::<ut::GigabytePerSecond, ut::TerabytePerSecond>(&mut d);
    reg_collected::<ut::TerabytePerSecond, ut::Kilobyte>(&mut d);
    reg_collected::<ut::TerabytePerSecond, ut::BitPerSecond>(&mut d);
    reg_collected::<ut::BitPerSecond, ut::Gigabit>(&mut d);
    reg_collected::<ut::BitPerSecond, ut::KilobitPerSecond>(&mut d);
    reg_collected::<ut::KilobitPerSecond, ut::BitPerSecond>(&mut d);
    reg_collected::<ut::KilobitPerSecond, ut::MegabitPerSecond>(&mut d);
    reg_collected::<ut::MegabitPerSecond, ut::Megabyte>(&mut d);
    reg_collected::<ut::MegabitPerSecond, ut::GigabitPerSecond>(&mut d);
    reg_collected::<ut::GigabitPerSecond, ut::Terabit>(&mut d);
    reg_collected::<ut::GigabitPerSecond, ut::TerabitPerSecond>(&mut d);
    reg_collected::<ut::TerabitPerSecond, ut::Byte>(&mut d);
    reg_collected::<ut::TerabitPerSecond, ut::KilobitPerSecond>(&mut d);
    cross!(reg_sym, d; [None]; [None]);
    cross!(reg_sym, d; [Second, Millisecond, Microsecond]; [Second, Millisecond, Microsecond]);
    cross!(reg_sym, d; [Byte, Kilobyte, Megabyte, Gigabyte, Terabyte, Bit, Kilobit, Megabit, Gigabit, Terabit,
        BytePerSecond, KilobytePerSecond, MegabytePerSecond, GigabytePerSecond, TerabytePerSecond,
        BitPerSecond, KilobitPerSecond, MegabitPerSecond, GigabitPerSecond, TerabitPerSecond];
        [Byte, Kilobyte, Megabyte, Gigabyte, Terabyte, Bit, Kilobit, Megabit, Gigabit, Terabit,
        BytePerSecond, KilobytePerSecond, MegabytePerSecond, GigabytePerSecond, TerabytePerSecond,
        BitPerSecond, KilobitPerSecond, MegabitPerSecond, GigabitPerSecond, TerabitPerSecond]);
    each!(reg_unitless, d; [None, Count, Percent, Second, Millisecond, Microsecond,
        Byte, Kilobyte, Megabyte, Gigabyte, Terabyte, Bit, Kilobit, Megabit, Gigabit, Terabit,
        BytePerSecond, KilobytePerSecond, MegabytePerSecond, GigabytePerSecond, TerabytePerSecond,
        BitPerSecond, KilobitPerSecond, MegabitPerSecond, GigabitPerSecond, TerabitPerSecond]);
    each!(reg_time, d; [Second, Millisecond, Microsecond]);
    d.round.insert((SrcKind::U64, Unit::None, Unit::None), run_round::<u64, ut::None>);
    d.round.insert((SrcKind::F64, Unit::None, Unit::None), run_round::<f64, ut::None>);
    d.round.insert((SrcKind::Obs, Unit::None, Unit::None), run_round::<Observation, ut::None>);
    d
}

fn is_collected(shape: Shape) -> bool {
    matches!(shape, Shape::WithDist | Shape::DistWith | Shape::WithMean | Shape::MeanWith | Shape::WithMeanF)
}

fn has_instance(d: &Dispatch, spec: &Spec, shape: Shape, src: SrcKind, a: usize, b: usize) -> bool {
    let key = (src, spec.tags[a].unit, spec.tags[b].unit);
    match shape {
        Shape::Round => d.round.contains_key(&key),
        s if is_collected(s) => d.collected.contains_key(&key),
        _ => d.run.contains_key(&key),
    }
}

fn run_impl(c: &Case, spec: &Spec, d: &Dispatch) -> ImplOut {
    let key = (c.src, spec.tags[c.from].unit, spec.tags[c.to].unit);
    let f = match c.shape {
        Shape::Round => d.round.get(&key),
        Shape::WithDist | Shape::DistWith | Shape::WithMean | Shape::MeanWith | Shape::WithMeanF => d.collected.get(&key),
        _ => d.run.get(&key),
    };
    match f {
        Some(f) => f(c, spec),
        None => ImplOut { promised: None, written: Written::Panic("harness: no such instantiation".into()) },
    }
}

// ------------------------------------------------------------------------------------------------
// canonical text (the format of the Lean driver's replies)

fn canon_err(m: &str, spec: &Spec) -> String {
    let _ = spec;
    if m == "can't apply a unit to a string value" {
        return "unit-on-string".into();
    }
    if m == "can't construct a distribution of strings" {
        return "dist-strings".into();
    }
    if m == "dimensions must be added after collecting into a distribution" {
        return "dist-dims".into();
    }
    if let Some(rest) = m.strip_prefix("value promised to write unit `") {
        if let Some((p, rest)) = rest.split_once("` but wrote `") {
            if let Some(w) = rest.strip_suffix("` instead") {
                return format!("mismatch:{p}:{w}");
            }
        }
    }
    format!("other:{}", hex(m.as_bytes()))
}

fn canon(o: &ImplOut, spec: &Spec) -> String {
    let errs = |ms: &Vec<String>| ms.iter().map(|m| canon_err(m, spec)).collect::<Vec<_>>().join(",");
    let p = o.promised.map(|u| spec.rust_of(u)).unwrap_or_else(|| "?".into());
    match &o.written {
        Written::Nothing => format!("{p} nothing"),
        Written::Str => format!("{p} string"),
        Written::Metric { obs, unit, dims } => {
            format!("{p} metric {} {} {}", unit.name(), enc_obs_list(obs, enc_obs_canon), dims.len())
        }
        Written::Error(ms) => format!("{p} error {}", errs(ms)),
        Written::CtorError(ms) => format!("ctor-error {}", errs(ms)),
        Written::Panic(m) => format!("panic {m}"),
        Written::Twice => "wrote-twice".into(),
    }
}

// ------------------------------------------------------------------------------------------------
// the property oracle (independent of the Lean model)

/// relative tolerance for "up to floating-point rounding": a handful of binary64 roundings
const TOL: f64 = 1.0 / ((1u64 << 49) as f64);

fn obs_value(o: &Observation) -> (f64, u64, u8) {
    match o {
        Observation::Unsigned(u) => (*u as f64, 1, 0),
        Observation::Floating(f) => (*f, 1, 1),
        Observation::Repeated { total, occurrences } => (*total, *occurrences, 2),
        _ => (f64::NAN, 0, 3),
    }
}

/// `emitted · scale(to) = input · scale(from)` up to rounding, i.e. `emitted ≈ input · num / den`.
/// `slack` widens the tolerance (absolute, for sums with cancellation).
fn quantity_matches(input: f64, emitted: f64, num: u64, den: u64, slack: f64) -> Result<(), String> {
    if input.is_nan() {
        return if emitted.is_nan() { Ok(()) } else { Err(format!("NaN became {emitted:e}")) };
    }
    if input.is_infinite() {
        return if emitted == input { Ok(()) } else { Err(format!("{input} became {emitted:e}")) };
    }
    if input == 0.0 && slack == 0.0 {
        return if emitted == 0.0 { Ok(()) } else { Err(format!("zero became {emitted:e}")) };
    }
    // exact in binary64: num, den < 2^53
    let expected = input * (num as f64) / (den as f64);
    let expected2 = input / (den as f64) * (num as f64);
    if !expected.is_finite() || !expected2.is_finite() || (expected.abs() < 1e-290 && slack == 0.0) {
        // overflow / underflow region: only the sign and the direction are demanded
        let ok = emitted.is_nan() == false
            && (emitted == 0.0 || emitted.signum() == input.signum())
            && (expected2.is_finite() || expected.is_finite() || emitted.abs() > 1e290)
            && (expected.abs() >= 1e-290 || emitted.abs() < 1e-280);
        return if ok { Ok(()) } else { Err(format!("{input:e}·{num}/{den} emitted as {emitted:e}")) };
    }
    if (emitted - expected).abs() <= TOL * expected.abs() + slack {
        Ok(())
    } else {
        Err(format!("{input:e} · {num}/{den} = {expected:e} but {emitted:e} was emitted"))
    }
}

fn obs_matches(input: &Observation, emitted: &Observation, num: u64, den: u64) -> Result<(), String> {
    let (iv, io, ik) = obs_value(input);
    let (ev, eo, ek) = obs_value(emitted);
    if io != eo {
        return Err(format!("occurrences changed from {io} to {eo}"));
    }
    if (ik == 2) != (ek == 2) {
        return Err("a repeated observation changed kind".into());
    }
    quantity_matches(iv, ev, num, den, 0.0)
}

fn is_honest(e: &Elem, from: usize) -> bool {
    match e {
        Elem::Raw { written, .. } => *written == from,
        Elem::RawStr => false,
        _ => true,
    }
}

fn elem_ndims(e: &Elem) -> usize {
    if let Elem::Raw { ndims, .. } = e { *ndims } else { 0 }
}

/// milliseconds of a duration, exactly representable parts combined with one rounding each
fn duration_millis(secs: u64, nanos: u32) -> f64 {
    ((secs as u128 * 1_000_000_000 + nanos as u128) as f64) / 1e6
}

/// Returns a description of the violated demand, if any.
///
/// Demands (from the property statement):
///  * the emitted unit is the declared one (`to`; for a round trip and for no wrapper: `from`);
///  * one emitted observation per input observation, in order, occurrences untouched, and
///    `emitted · scale(to) = input · scale(from)` up to floating-point rounding (hand-written SI table);
///    a `Mean` emits one repeated observation whose total and occurrences are the sums;
///  * a `Duration` without declared unit is reported in milliseconds (`secs·1000 + nanos/10^6`);
///  * a string under a unit, or a value that writes a unit other than the promised one, yields a
///    validation error and no metric;
///  * nothing panics and the writer is called at most once.
fn oracle_value(c: &Case, o: &ImplOut, spec: &Spec) -> Option<String> {
    match &o.written {
        Written::Panic(m) => return Some(format!("panicked: {m}")),
        Written::Twice => return Some("the value writer was called more than once".into()),
        _ => {}
    }
    let wrapped = c.shape != Shape::Plain;
    let dishonest = c.elems.iter().any(|e| !is_honest(e, c.from));
    if dishonest {
        if !wrapped {
            return None; // nobody checks an unwrapped value
        }
        return match &o.written {
            Written::Error(ms) | Written::CtorError(ms) if !ms.is_empty() => None,
            other => Some(format!(
                "a string under a unit / a value writing another unit than promised must yield a validation error, got {}",
                canon(&ImplOut { promised: o.promised, written: other.clone() }, spec)
            )),
        };
    }
    let collected = matches!(c.shape, Shape::WithDist | Shape::DistWith | Shape::WithMean | Shape::MeanWith);
    if collected && c.elems.iter().any(|e| elem_ndims(e) > 0) {
        return None; // documented restriction of Distribution/Mean, not part of this property
    }
    let declared = match c.shape {
        Shape::Plain | Shape::Round => c.from,
        _ => c.to,
    };
    let (num, den) = match c.shape {
        Shape::Plain | Shape::Round => (1, 1),
        _ => spec.factor(c.from, c.to)?,
    };
    // the input observations, in order
    let mut inputs: Vec<Observation> = vec![];
    for e in &c.elems {
        match e {
            Elem::D(s, n) => inputs.push(Observation::Floating(duration_millis(*s, *n))),
            other => inputs.extend(other.observations()),
        }
    }
    let all_absent = c.elems.iter().all(|e| matches!(e, Elem::Absent));
    let expect_nothing = match c.shape {
        Shape::Plain | Shape::With | Shape::WithOpt | Shape::OptWith | Shape::Round => all_absent,
        Shape::WithDist | Shape::DistWith => c.elems.is_empty(),
        Shape::WithMean | Shape::MeanWith | Shape::WithMeanF => inputs.iter().map(|o| obs_value(o).1).sum::<u64>() == 0,
    };
    let (obs, unit, dims) = match &o.written {
        Written::Nothing => return if expect_nothing { None } else { Some("nothing was written for a value with observations".into()) },
        Written::Metric { obs, unit, dims } => (obs, unit, dims),
        other => {
            return Some(format!(
                "an honest value produced {}",
                canon(&ImplOut { promised: o.promised, written: other.clone() }, spec)
            ));
        }
    };
    if expect_nothing {
        return Some("a metric was written for an absent / empty value".into());
    }
    if *unit != spec.tags[declared].unit {
        return Some(format!("emitted unit `{}` is not the declared unit `{}`", unit.name(), spec.tags[declared].cw));
    }
    if unit.name() != spec.tags[declared].cw {
        return Some(format!("unit name `{}` is not the CloudWatch name `{}`", unit.name(), spec.tags[declared].cw));
    }
    if let Some(p) = o.promised {
        if p != spec.tags[declared].unit {
            return Some(format!("MetricValue::Unit is `{}`, declared `{}`", p.name(), spec.tags[declared].cw));
        }
    }
    match c.shape {
        Shape::WithMean | Shape::MeanWith | Shape::WithMeanF => {
            if obs.len() != 1 {
                return Some(format!("a mean emitted {} observations", obs.len()));
            }
            let Observation::Repeated { total, occurrences } = obs[0] else {
                return Some("a mean did not emit a repeated observation".into());
            };
            let occ: u64 = inputs.iter().map(|o| obs_value(o).1).sum();
            if occurrences != occ {
                return Some(format!("mean occurrences {occurrences}, inputs have {occ}"));
            }
            let vals: Vec<f64> = inputs.iter().map(|o| obs_value(o).0).collect();
            if vals.iter().any(|v| !v.is_finite()) {
                return None;
            }
            let sum: f64 = vals.iter().sum();
            let abs_sum: f64 = vals.iter().map(|v| v.abs()).sum();
            if !sum.is_finite() || !abs_sum.is_finite() {
                return None;
            }
            let slack = abs_sum * (num as f64) / (den as f64) * TOL * (vals.len() as f64 + 2.0);
            if !slack.is_finite() {
                return None;
            }
            quantity_matches(sum, total, num, den, slack).err().map(|e| format!("mean total: {e}"))
        }
        _ => {
            let want_dims = if collected { 0 } else { c.elems.iter().map(elem_ndims).sum::<usize>() };
            if dims.len() != want_dims
                || dims.iter().enumerate().any(|(i, (k, v))| k != DIM_KEYS[i % 3] || v != DIM_VALS[i % 3])
            {
                return Some(format!("dimensions changed: {dims:?}"));
            }
            if obs.len() != inputs.len() {
                return Some(format!("{} observations emitted for {} inputs", obs.len(), inputs.len()));
            }
            for (i, (inp, em)) in inputs.iter().zip(obs.iter()).enumerate() {
                if c.shape == Shape::Round {
                    // the intermediate value (in unit `to`) must be in the binary64 normal range for
                    // "up to rounding" to mean anything
                    let (n1, d1) = spec.factor(c.from, c.to)?;
                    let v = obs_value(inp).0;
                    let mid = v * (n1 as f64) / (d1 as f64);
                    let mid2 = v / (d1 as f64) * (n1 as f64);
                    if v.is_finite() && v != 0.0 && !(mid.is_finite() && mid2.is_finite() && mid.abs() > 1e-290 && mid2.abs() > 1e-290) {
                        continue;
                    }
                }
                if let Err(e) = obs_matches(inp, em, num, den) {
                    return Some(format!("observation {i}: {e}"));
                }
            }
            None
        }
    }
}

fn oracle_key(c: &Case) -> &'static str {
    match (c.shape, c.src) {
        (_, SrcKind::Dur) => "units:duration",
        (Shape::WithDist | Shape::DistWith, _) => "units:distribution",
        (Shape::WithMean | Shape::MeanWith | Shape::WithMeanF, _) => "units:mean",
        (Shape::Round, _) => "units:round-trip",
        (Shape::Plain, _) => "units:plain",
        _ => "units:with_unit",
    }
}

/// RATIO: the correctly rounded quotient of the specification's exact factor (both integers are
/// exact in binary64 and IEEE division is correctly rounded), and `ratio(a,b)·ratio(b,a) ≈ 1`.
fn oracle_ratio(a: usize, b: usize, ratio: f64, back: Option<f64>, spec: &Spec) -> Option<String> {
    let Some((num, den)) = spec.factor(a, b) else {
        return Some(format!("the code converts {} to {} but the specification does not", spec.tags[a].rust, spec.tags[b].rust));
    };
    assert!(num < (1 << 53) && den < (1 << 53));
    let want = (num as f64) / (den as f64);
    if ratio.to_bits() != want.to_bits() {
        return Some(format!(
            "RATIO {} → {} is {ratio:e} ({}), the SI factor {num}/{den} rounds to {want:e} ({})",
            spec.tags[a].rust,
            spec.tags[b].rust,
            f64_bits(ratio),
            f64_bits(want)
        ));
    }
    if let Some(back) = back {
        if (ratio * back - 1.0).abs() > TOL {
            return Some(format!("RATIO·inverse RATIO = {:e}", ratio * back));
        }
    }
    None
}

// ------------------------------------------------------------------------------------------------
// the fixed `#[metrics(unit = …)]` struct

#[metrics]
struct UnitFields {
    #[metrics(unit = ut::Second)]
    dur_s: Duration,
    #[metrics(unit = ut::Millisecond)]
    dur_ms: Duration,
    #[metrics(unit = ut::Microsecond)]
    dur_us: Duration,
    dur_plain: Duration,
    #[metrics(unit = ut::Second)]
    opt_dur_s: Option<Duration>,
    #[metrics(unit = ut::Kilobyte)]
    size_kb: u64,
    #[metrics(unit = ut::TerabitPerSecond)]
    rate_tbps: f64,
    #[metrics(unit = ut::Percent)]
    pct: f64,
    #[metrics(unit = ut::Count)]
    cnt: u64,
    #[metrics(unit = ut::Megabit)]
    opt_mb: Option<u64>,
    plain_u: u64,
    plain_f: f64,
}

#[derive(Clone, Debug)]
struct MacroCase {
    secs: u64,
    nanos: u32,
    u: u64,
    f: f64,
    present: bool,
}

impl MacroCase {
    fn encode(&self) -> String {
        format!("macro {} {} {} {} {}", self.secs, self.nanos, self.u, f64_bits(self.f), self.present as u8)
    }
    fn decode(s: &str) -> Option<MacroCase> {
        let p: Vec<&str> = s.split(' ').collect();
        if p.len() != 6 || p[0] != "macro" {
            return None;
        }
        let nanos: u32 = p[2].parse().ok()?;
        if nanos >= 1_000_000_000 {
            return None;
        }
        Some(MacroCase { secs: p[1].parse().ok()?, nanos, u: p[3].parse().ok()?, f: dec_f64(p[4])?, present: p[5] == "1" })
    }
    /// what each field is, as a value case
    fn fields(&self, spec: &Spec) -> Vec<(&'static str, Case)> {
        let t = |n: &str| spec.by_rust[n];
        let d = Elem::D(self.secs, self.nanos);
        let opt = |e: Elem| if self.present { e } else { Elem::Absent };
        let mk = |shape, src, from: &str, to: &str, e: Elem| Case { shape, src, from: t(from), to: t(to), elems: vec![e] };
        vec![
            ("dur_s", mk(Shape::With, SrcKind::Dur, "Millisecond", "Second", d.clone())),
            ("dur_ms", mk(Shape::With, SrcKind::Dur, "Millisecond", "Millisecond", d.clone())),
            ("dur_us", mk(Shape::With, SrcKind::Dur, "Millisecond", "Microsecond", d.clone())),
            ("dur_plain", mk(Shape::Plain, SrcKind::Dur, "Millisecond", "Millisecond", d.clone())),
            ("opt_dur_s", mk(Shape::WithOpt, SrcKind::Dur, "Millisecond", "Second", opt(d.clone()))),
            ("size_kb", mk(Shape::With, SrcKind::U64, "None", "Kilobyte", Elem::U(self.u))),
            ("rate_tbps", mk(Shape::With, SrcKind::F64, "None", "TerabitPerSecond", Elem::F(self.f))),
            ("pct", mk(Shape::With, SrcKind::F64, "None", "Percent", Elem::F(self.f))),
            ("cnt", mk(Shape::With, SrcKind::U64, "None", "Count", Elem::U(self.u))),
            ("opt_mb", mk(Shape::WithOpt, SrcKind::U64, "None", "Megabit", opt(Elem::U(self.u)))),
            ("plain_u", mk(Shape::Plain, SrcKind::U64, "None", "None", Elem::U(self.u))),
            ("plain_f", mk(Shape::Plain, SrcKind::F64, "None", "None", Elem::F(self.f))),
        ]
    }
    fn run(&self) -> Result<Vec<(String, Written)>, String> {
        let m = UnitFields {
            dur_s: Duration::new(self.secs, self.nanos),
            dur_ms: Duration::new(self.secs, self.nanos),
            dur_us: Duration::new(self.secs, self.nanos),
            dur_plain: Duration::new(self.secs, self.nanos),
            opt_dur_s: self.present.then(|| Duration::new(self.secs, self.nanos)),
            size_kb: self.u,
            rate_tbps: self.f,
            pct: self.f,
            cnt: self.u,
            opt_mb: self.present.then_some(self.u),
            plain_u: self.u,
            plain_f: self.f,
        };
        catch(|| {
            let entry = metrique::RootEntry::new(metrique::CloseValue::close(m));
            let mut w = FieldRecorder::default();
            entry.write(&mut w);
            w.fields
        })
    }
}

#[derive(Default)]
struct FieldRecorder {
    fields: Vec<(String, Written)>,
}

impl<'a> EntryWriter<'a> for FieldRecorder {
    fn timestamp(&mut self, _timestamp: SystemTime) {}
    fn value(&mut self, name: impl Into<Cow<'a, str>>, value: &(impl Value + ?Sized)) {
        let mut rec = Rec::default();
        let w = match catch(|| value.write(&mut rec)) {
            Ok(()) => written_of(rec),
            Err(p) => Written::Panic(p),
        };
        self.fields.push((name.into().into_owned(), w));
    }
    fn config(&mut self, _config: &'a dyn EntryConfig) {}
}

// ------------------------------------------------------------------------------------------------
// generators

fn gen_u64(rng: &mut Rng) -> u64 {
    match rng.below(10) {
        0 => *rng.pick(&[0, 1, 2, 7, 8, 1000, 1024, u64::MAX, u64::MAX - 1, 1 << 53, (1 << 53) + 1, (1 << 53) - 1, 1 << 63]),
        1 | 2 => rng.below(1000),
        3 => 10u64.pow(rng.below(20) as u32),
        4 => (1u64 << rng.below(64)).wrapping_add(rng.below(3)).wrapping_sub(1),
        5 | 6 => rng.next_u64() >> rng.below(64),
        _ => rng.below(1_000_000_000_000),
    }
}

fn gen_f64(rng: &mut Rng, nasty: bool) -> f64 {
    let k = if nasty { rng.below(6) } else { 6 + rng.below(8) };
    match k {
        0 => *rng.pick(&[f64::NAN, f64::INFINITY, f64::NEG_INFINITY, -0.0, 0.0]),
        1 => *rng.pick(&[f64::MAX, f64::MIN, f64::MIN_POSITIVE, 5e-324, 1e300, 1e-300, -1e300, 2.2250738585072009e-308]),
        2 => f64::from_bits(rng.next_u64()),
        3 => f64::from_bits(rng.below(1 << 52)), // subnormal
        4 => -(gen_u64(rng) as f64),
        5 => f64::from_bits(0x7fe0_0000_0000_0000 | rng.below(1 << 52)), // near overflow
        6 | 7 => gen_u64(rng) as f64,
        8 => *rng.pick(&[0.1, 0.5, 1.0, 1.5, 2.0, 42.0, 0.042, 1e-3, 1e-6, 8.0, 0.125, 1e3, 1e6, 1e9, 1e12, 3.141592653589793]),
        9 | 10 => {
            let m = rng.below(1 << 52);
            let e = 1023 - 40 + rng.below(80);
            f64::from_bits((e << 52) | m)
        }
        11 => (rng.below(2_000_000) as f64) / 1000.0,
        12 => {
            let m = rng.below(1 << 52);
            let e = 1 + rng.below(2045);
            f64::from_bits((e << 52) | m)
        }
        _ => (rng.below(1_000_000_000) as f64) * 1e-9,
    }
}

fn gen_obs(rng: &mut Rng, nasty: bool, small_occ: bool) -> Observation {
    match rng.below(3) {
        0 => Observation::Unsigned(gen_u64(rng)),
        1 => Observation::Floating(gen_f64(rng, nasty)),
        _ => {
            let occurrences = match rng.below(4) {
                0 => 0,
                1 => 1,
                2 => rng.range(2, 100),
                _ => {
                    if small_occ { rng.below(1 << 40) } else { gen_u64(rng) }
                }
            };
            Observation::Repeated { total: gen_f64(rng, nasty), occurrences }
        }
    }
}

fn gen_duration(rng: &mut Rng) -> Elem {
    let secs = match rng.below(6) {
        0 => 0,
        1 => rng.below(10),
        2 => rng.below(100_000),
        3 => gen_u64(rng),
        4 => u64::MAX,
        _ => rng.below(1 << 33),
    };
    let nanos = match rng.below(5) {
        0 => 0,
        1 => 999_999_999,
        2 => (rng.below(1000) * 1_000_000) as u32,
        3 => rng.below(1000) as u32,
        _ => rng.below(1_000_000_000) as u32,
    };
    Elem::D(secs, nanos)
}

/// one element for the given source type; `honest`: writes the promised unit
fn gen_elem(rng: &mut Rng, spec: &Spec, src: SrcKind, from: usize, nasty: bool, honest: bool, collected: bool) -> Elem {
    match src {
        SrcKind::U64 => Elem::U(gen_u64(rng)),
        SrcKind::F64 => Elem::F(gen_f64(rng, nasty)),
        SrcKind::Obs => Elem::O(gen_obs(rng, nasty, collected)),
        SrcKind::Dur => gen_duration(rng),
        SrcKind::Raw => {
            if !honest && rng.chance(1, 3) {
                return Elem::RawStr;
            }
            let written = if honest {
                from
            } else {
                // another unit, preferably a close relative
                let mut w = rng.below(spec.tags.len() as u64) as usize;
                if rng.chance(1, 2) {
                    let rel: Vec<usize> = (0..spec.tags.len()).filter(|i| spec.tags[*i].fam == spec.tags[from].fam).collect();
                    w = *rng.pick(&rel);
                }
                if w == from { (w + 1) % spec.tags.len() } else { w }
            };
            let n = match rng.below(8) {
                0 => 0,
                1..=4 => 1,
                _ => rng.range(2, 4),
            } as usize;
            let ndims = if rng.chance(1, if collected { 12 } else { 4 }) { rng.range(1, 3) as usize } else { 0 };
            Elem::Raw { written, obs: (0..n).map(|_| gen_obs(rng, nasty, collected)).collect(), ndims }
        }
    }
}

fn gen_case(rng: &mut Rng, spec: &Spec, shape: Shape, src: SrcKind, from: usize, to: usize, nasty: bool) -> Case {
    let collected = matches!(shape, Shape::WithDist | Shape::DistWith | Shape::WithMean | Shape::MeanWith);
    let may_absent = !matches!(shape, Shape::With | Shape::Round | Shape::WithMeanF);
    let n = match shape {
        Shape::WithMeanF => rng.range(0, 5),
        _ if collected => match rng.below(8) {
            0 => 0,
            1 | 2 => 1,
            _ => rng.range(2, 5),
        },
        _ => 1,
    } as usize;
    let dishonest_case = src == SrcKind::Raw && shape != Shape::WithMeanF && rng.chance(1, 6);
    let bad_at = rng.below(n.max(1) as u64) as usize;
    let elems = (0..n)
        .map(|i| {
            if shape == Shape::WithMeanF {
                Elem::F(gen_f64(rng, nasty))
            } else if may_absent && rng.chance(1, 8) {
                Elem::Absent
            } else {
                gen_elem(rng, spec, src, from, nasty, !(dishonest_case && i == bad_at), collected)
            }
        })
        .collect();
    Case { shape, src, from, to, elems }
}

// ------------------------------------------------------------------------------------------------

enum Item {
    Ratio(usize, usize),
    Name(usize),
    Value(Case),
    Macro(MacroCase),
}

fn decode_item(line: &str, spec: &Spec) -> Option<Item> {
    let p: Vec<&str> = line.split(' ').collect();
    match p.first().copied()? {
        "ratio" if p.len() == 3 => Some(Item::Ratio(*spec.by_rust.get(p[1])?, *spec.by_rust.get(p[2])?)),
        "name" if p.len() == 2 => Some(Item::Name(*spec.by_rust.get(p[1])?)),
        "value" => Case::decode(line, spec).filter(|c| c.well_formed(spec)).map(Item::Value),
        "macro" => MacroCase::decode(line).map(Item::Macro),
        _ => None,
    }
}

fn shrink_case(c: &Case, spec: &Spec, d: &Dispatch) -> Case {
    let fails = |cc: &Case| {
        cc.well_formed(spec)
            && has_instance(d, spec, cc.shape, cc.src, cc.from, cc.to)
            && oracle_value(cc, &run_impl(cc, spec, d), spec).is_some()
    };
    let mut cur = c.clone();
    // fewer elements
    let elems = shrink_list(&cur.elems, |es| fails(&Case { elems: es.to_vec(), ..cur.clone() }));
    cur.elems = elems;
    // fewer observations / dimensions per element
    for i in 0..cur.elems.len() {
        if let Elem::Raw { written, obs, ndims } = cur.elems[i].clone() {
            let with = |obs: &[Observation], ndims: usize| {
                let mut cc = cur.clone();
                cc.elems[i] = Elem::Raw { written, obs: obs.to_vec(), ndims };
                cc
            };
            let obs2 = shrink_list(&obs, |os| fails(&with(os, ndims)));
            let nd = if ndims > 0 && fails(&with(&obs2, 0)) { 0 } else { ndims };
            cur.elems[i] = Elem::Raw { written, obs: obs2, ndims: nd };
        }
    }
    // simpler numbers
    for i in 0..cur.elems.len() {
        let simple: Vec<Elem> = match &cur.elems[i] {
            Elem::U(_) => vec![Elem::U(1), Elem::U(1000)],
            Elem::F(_) => vec![Elem::F(1.0), Elem::F(1000.0)],
            Elem::D(..) => vec![Elem::D(1, 0), Elem::D(0, 1_000_000), Elem::D(1, 500_000_000)],
            Elem::O(_) => vec![Elem::O(Observation::Unsigned(1)), Elem::O(Observation::Floating(1.0))],
            Elem::Raw { written, obs, ndims } => {
                let mut v = vec![];
                for s in [Observation::Unsigned(1), Observation::Floating(1.0), Observation::Repeated { total: 1.0, occurrences: 1 }] {
                    for j in 0..obs.len() {
                        let mut o2 = obs.clone();
                        if std::mem::discriminant(&o2[j]) == std::mem::discriminant(&s) {
                            o2[j] = s;
                            v.push(Elem::Raw { written: *written, obs: o2, ndims: *ndims });
                        }
                    }
                }
                v
            }
            _ => vec![],
        };
        for s in simple {
            let mut cc = cur.clone();
            cc.elems[i] = s;
            if fails(&cc) {
                cur = cc;
            }
        }
    }
    cur
}

fn main() {
    quiet_panics();
    let args = Args::parse();
    let mut rep = Report::new(
        &args,
        "units",
        "case = a RATIO constant, a unit name, a value (shape, source type, unit pair, elements) or a #[metrics] struct; \
         non-trivial = a RATIO/name case, or a value case in which a conversion with ratio != 1 is applied to at least one \
         observation, or in which a validation error is demanded; distinct by case text",
    );
    let spec = Spec::new();
    let disp = dispatch();
    let mut rng = Rng::new(args.seed);
    let thorough = args.thorough();

    // the pairs the *code* declares convertible, as spec indices
    let mut code_pairs: Vec<(usize, usize, f64)> = vec![];
    for p in &disp.pairs {
        match (spec.by_unit.get(&p.from), spec.by_unit.get(&p.to)) {
            (Some(a), Some(b)) => code_pairs.push((*a, *b, p.ratio)),
            _ => rep.oracle_failure("units:ratio", "-", &format!("{} -> {}", p.from.name(), p.to.name()), "a tag of the code is not in the specification table"),
        }
    }
    let ratio_of: HashMap<(usize, usize), f64> = code_pairs.iter().map(|(a, b, r)| ((*a, *b), *r)).collect();
    let spec_pairs: Vec<(usize, usize)> = (0..spec.tags.len())
        .flat_map(|a| (0..spec.tags.len()).map(move |b| (a, b)))
        .filter(|(a, b)| spec.factor(*a, *b).is_some())
        .collect();
    rep.bump_by("convertible pairs (code)", code_pairs.len() as u64);
    rep.bump_by("convertible pairs (specification)", spec_pairs.len() as u64);

    // the thorough tier repeats the generated part in rounds (one driver batch per round, bounded memory)
    let replaying = args.replay.is_some();
    let rounds = if replaying { 1 } else if thorough { 6 } else { 1 };
    let mut disagreeing: Vec<Case> = vec![];
    for round in 0..rounds {
    let mut items: Vec<Item> = vec![];
    if let Some(line) = args.replay_case() {
        // a correspondence replay carries the request after " ## "
        let line = line.split(" ## ").next().unwrap_or("").to_string();
        items.extend(decode_item(&line, &spec));
    } else if replaying {
        rep.notes.push("replay file has no case".into());
    } else {
        if round == 0 {
            for l in args.corpus_cases() {
                match decode_item(&l, &spec) {
                    Some(i) => items.push(i),
                    None => rep.notes.push(format!("corpus line not understood: {l}")),
                }
            }
            // (1) exhaustive: every RATIO, every name
            for (a, b) in &spec_pairs {
                items.push(Item::Ratio(*a, *b));
            }
            for a in 0..spec.tags.len() {
                items.push(Item::Name(a));
            }
        }
        // (2) every pair × every shape, structured and nasty payloads
        let per = if thorough { 60 } else { 6 };
        for (a, b) in &spec_pairs {
            for (shape, _) in SHAPES {
                if shape == Shape::Round && spec.factor(*b, *a).is_none() {
                    continue;
                }
                if !has_instance(&disp, &spec, shape, SrcKind::Raw, *a, *b) {
                    continue;
                }
                // the collection shapes exist for a subset of the pairs: keep their share of the cases
                let per = if is_collected(shape) && spec.tags[*a].fam == Fam::Bits { per * 4 } else { per };
                for k in 0..per {
                    items.push(Item::Value(gen_case(&mut rng, &spec, shape, SrcKind::Raw, *a, *b, k % 4 == 1)));
                }
            }
        }
        // (3) the real primitive types: u64 / f64 / Observation declared as every unit, Duration as every time unit
        let per = if thorough { 400 } else { 30 };
        let ms = spec.by_rust["Millisecond"];
        let none = spec.by_rust["None"];
        for b in 0..spec.tags.len() {
            let mut srcs = vec![(SrcKind::U64, none), (SrcKind::F64, none), (SrcKind::Obs, none)];
            if spec.tags[b].fam == Fam::Time {
                srcs.push((SrcKind::Dur, ms));
                srcs.push((SrcKind::Dur, ms)); // durations are the headline case: twice the share
            }
            for (src, a) in srcs {
                for (shape, _) in SHAPES {
                    if shape == Shape::WithMeanF || (shape == Shape::Round && spec.factor(b, a).is_none()) {
                        continue;
                    }
                    for k in 0..per {
                        items.push(Item::Value(gen_case(&mut rng, &spec, shape, src, a, b, k % 4 == 1)));
                    }
                }
            }
        }
        // (4) the #[metrics(unit = …)] struct
        let n_macro = if thorough { 40_000 } else { 2_000 };
        for k in 0..n_macro {
            let Elem::D(secs, nanos) = gen_duration(&mut rng) else { unreachable!() };
            items.push(Item::Macro(MacroCase { secs, nanos, u: gen_u64(&mut rng), f: gen_f64(&mut rng, k % 4 == 1), present: !rng.chance(1, 4) }));
        }
    }

    // run
    let mut requests: Vec<String> = vec![];
    let mut expected: Vec<(String, String, String)> = vec![]; // (component, case text, implementation's canonical answer)
    let mut failed_components: Vec<(Shape, SrcKind, usize, usize)> = vec![];
    for (idx, item) in items.iter().enumerate() {
        match item {
            Item::Ratio(a, b) => {
                let enc = format!("ratio {} {}", spec.tags[*a].rust, spec.tags[*b].rust);
                rep.case(&enc, true);
                rep.bump("kind:ratio");
                match ratio_of.get(&(*a, *b)) {
                    Some(r) => {
                        if let Some(what) = oracle_ratio(*a, *b, *r, ratio_of.get(&(*b, *a)).copied(), &spec) {
                            rep.oracle_failure("units:ratio", &enc, &f64_bits(*r), &what);
                        }
                        requests.push(enc.clone());
                        expected.push(("units/ratio".into(), enc, f64_bits(*r)));
                    }
                    None => rep.oracle_failure("units:ratio", &enc, "not implemented", "the specification converts this pair but the code has no Convert impl"),
                }
            }
            Item::Name(a) => {
                let enc = format!("name {}", spec.tags[*a].rust);
                rep.case(&enc, true);
                rep.bump("kind:name");
                let name = spec.tags[*a].unit.name().to_string();
                if name != spec.tags[*a].cw {
                    rep.oracle_failure("units:name", &enc, &name, &format!("the CloudWatch name is `{}`", spec.tags[*a].cw));
                }
                requests.push(enc.clone());
                expected.push(("units/name".into(), enc, name));
            }
            Item::Value(c) => {
                let enc = c.encode(&spec);
                if !has_instance(&disp, &spec, c.shape, c.src, c.from, c.to) {
                    // (corpus / replay lines only: the generators never produce these)
                    rep.notes.push(format!("skipped, the harness has no instantiation of this shape for this pair: {enc}"));
                    continue;
                }
                let out = run_impl(c, &spec, &disp);
                let ratio = ratio_of.get(&(c.from, c.to)).copied().unwrap_or(1.0);
                let dishonest = c.elems.iter().any(|e| !is_honest(e, c.from)) && c.shape != Shape::Plain;
                let has_obs = c.elems.iter().any(|e| !e.observations().is_empty() || matches!(e, Elem::D(..)));
                let converting = ratio != 1.0 && has_obs && c.shape != Shape::Plain;
                rep.case(&enc, dishonest || converting);
                rep.bump("kind:value");
                rep.bump(&format!("shape:{}", shape_name(c.shape)));
                rep.bump(&format!("src:{}", src_name(c.src)));
                rep.bump(&format!("elements:{}", c.elems.len().min(5)));
                rep.bump(match &out.written {
                    Written::Nothing => "wrote:nothing",
                    Written::Str => "wrote:string",
                    Written::Metric { .. } => "wrote:metric",
                    Written::Error(_) => "wrote:error",
                    Written::CtorError(_) => "wrote:ctor-error",
                    Written::Panic(_) => "wrote:panic",
                    Written::Twice => "wrote:twice",
                });
                if let Written::Error(ms) | Written::CtorError(ms) = &out.written {
                    for m in ms {
                        let k = canon_err(m, &spec);
                        rep.bump(&format!("error:{}", k.split(':').next().unwrap()));
                    }
                }
                rep.bump(if ratio == 1.0 { "ratio:=1" } else if ratio > 1.0 { "ratio:>1" } else { "ratio:<1" });
                for e in &c.elems {
                    for o in e.observations() {
                        rep.bump(match o {
                            Observation::Unsigned(_) => "obs:unsigned",
                            Observation::Floating(f) if !f.is_finite() => "obs:floating-nonfinite",
                            Observation::Floating(_) => "obs:floating",
                            Observation::Repeated { .. } => "obs:repeated",
                            _ => "obs:?",
                        });
                    }
                }
                if idx % 4001 == 0 {
                    rep.sample(json!({"case": enc, "impl": canon(&out, &spec)}));
                }
                if let Some(what) = oracle_value(c, &out, &spec) {
                    let cc = shrink_case(c, &spec, &disp);
                    let oo = run_impl(&cc, &spec, &disp);
                    let what = oracle_value(&cc, &oo, &spec).unwrap_or(what);
                    rep.oracle_failure(oracle_key(&cc), &cc.encode(&spec), &canon(&oo, &spec), &what);
                }
                // the proved error bound, evaluated by the driver in exact arithmetic on the real output
                // (theorem c19_bound_check_sound): one request per converted observation
                if matches!(c.shape, Shape::With | Shape::WithOpt | Shape::OptWith)
                    && c.src != SrcKind::Dur
                    && !c.elems.iter().any(|e| !is_honest(e, c.from))
                {
                    if let Written::Metric { obs, .. } = &out.written {
                        let inputs: Vec<Observation> = c.elems.iter().flat_map(|e| e.observations()).collect();
                        if inputs.len() == obs.len() {
                            for (i, o) in inputs.iter().zip(obs.iter()) {
                                let (iv, io, ik) = obs_value(i);
                                let (ov, oo, ok) = obs_value(o);
                                if io != oo || (ik == 2) != (ok == 2) {
                                    continue; // the oracle has reported it
                                }
                                let want = if !iv.is_finite() {
                                    "range"
                                } else if ok == 0 {
                                    "ok"
                                } else if ov.is_normal() {
                                    "ok"
                                } else {
                                    "range"
                                };
                                rep.bump(&format!("bound:{want}"));
                                requests.push(format!(
                                    "bound {} {} {} {}",
                                    spec.tags[c.from].rust,
                                    spec.tags[c.to].rust,
                                    enc_obs(i),
                                    enc_obs(o)
                                ));
                                expected.push(("units/bound".into(), enc.clone(), want.to_string()));
                            }
                        }
                    }
                }
                requests.push(c.request(&spec));
                expected.push((format!("units/{}", shape_name(c.shape)), enc, canon(&out, &spec)));
                let _ = &mut failed_components;
            }
            Item::Macro(m) => {
                let enc = m.encode();
                rep.case(&enc, true);
                rep.bump("kind:macro");
                match m.run() {
                    Err(p) => rep.oracle_failure("units:macro", &enc, &format!("panic {p}"), "writing the entry panicked"),
                    Ok(fields) => {
                        let want = m.fields(&spec);
                        if fields.len() != want.len() {
                            rep.oracle_failure("units:macro", &enc, &format!("{} fields", fields.len()), "wrong number of fields written");
                        }
                        for (name, c) in &want {
                            let Some((_, w)) = fields.iter().find(|(n, _)| n == name) else {
                                rep.oracle_failure("units:macro", &enc, "-", &format!("field {name} was not written"));
                                continue;
                            };
                            let declared = if c.shape == Shape::Plain { c.from } else { c.to };
                            let out = ImplOut { promised: Some(spec.tags[declared].unit), written: w.clone() };
                            if let Some(what) = oracle_value(c, &out, &spec) {
                                rep.oracle_failure("units:macro", &enc, &canon(&out, &spec), &format!("field {name}: {what}"));
                            }
                            requests.push(c.request(&spec));
                            expected.push((format!("units/macro:{name}"), enc.clone(), canon(&out, &spec)));
                        }
                    }
                }
            }
        }
    }

    // model
    match run_driver(&args.driver, "units", &requests) {
        Some(replies) => {
            for (((component, case, ans), req), reply) in expected.iter().zip(requests.iter()).zip(replies.iter()) {
                if ans != reply {
                    rep.disagreement(component, &format!("{case} ## {req}"), ans, reply);
                    if let Some(c) = Case::decode(case, &spec) {
                        if disagreeing.len() < 4 {
                            disagreeing.push(c);
                        }
                    }
                }
            }
            rep.bump_by("model requests", requests.len() as u64);
        }
        None => rep.driver_available = false,
    }
    } // rounds

    // targeted search around disagreements that no oracle failure explains
    if rep.oracle_failures.is_empty() && !rep.disagreements.is_empty() {
        let budget = if thorough { 400_000 } else { 100_000 };
        let mut srng = rng.fork(0xC19);
        let mut pool: Vec<(Shape, SrcKind, usize, usize)> = disagreeing.iter().map(|c| (c.shape, c.src, c.from, c.to)).collect();
        if pool.is_empty() {
            // a RATIO / name / macro disagreement: search over all pairs
            for (a, b) in &spec_pairs {
                pool.push((Shape::With, SrcKind::Raw, *a, *b));
            }
        }
        'search: for i in 0..budget {
            let (shape, src, a, b) = pool[i % pool.len()];
            // the disagreeing shape and its neighbours
            let shape = if i % 3 == 0 { shape } else { SHAPES[srng.below(SHAPES.len() as u64) as usize].0 };
            let c = gen_case(&mut srng, &spec, shape, src, a, b, i % 4 == 1);
            if !c.well_formed(&spec) || !has_instance(&disp, &spec, c.shape, c.src, c.from, c.to) {
                continue;
            }
            rep.search_cases += 1;
            let out = run_impl(&c, &spec, &disp);
            if let Some(what) = oracle_value(&c, &out, &spec) {
                let cc = shrink_case(&c, &spec, &disp);
                let oo = run_impl(&cc, &spec, &disp);
                let what = oracle_value(&cc, &oo, &spec).unwrap_or(what);
                rep.oracle_failure(oracle_key(&cc), &cc.encode(&spec), &canon(&oo, &spec), &what);
                rep.search_found = true;
                break 'search;
            }
        }
    }
    rep.exhaustive = false;
    rep.write(&args);
}
