//! Engine `queue` (C09, C01, C05, C04): the real `BackgroundQueue` (typed and boxed) against the Lean
//! model `Queue` (lean/Model/Queue.lean).
//!
//! Three kinds of case line (the line is also the request sent to the Lean driver):
//!
//! * `script <short 0|1> new:<cap> <op>…` — model-guided run (T-step). Ops: `append:<h>:<o|v|i>`,
//!   `clone:<h>`, `drop:<h>`, `gate:<k>`, `flush`, `forget`, `dropjoin`. The ops are executed on a real
//!   queue over a `GateStream` (the writer blocks inside `next` until a permit is granted); after
//!   every op the harness polls (generously) until the observable the model predicts is reached:
//!   `next=… ent=… fl=… ov=… done=… closed=… joined=…`. `short = 1`: flush interval 2 ms (needed for the
//!   forget path, which is only noticed by the outer loop), the number of `flush` calls is then not
//!   compared. `short = 0`: flush interval 50 s, no deadline fires inside a case.
//! * `hww <cap> <op>…` — the real `WakerTracker` through `background_verif::WakerHarness` against the
//!   Lean `hww`, step by step. Ops `s`, `h:<d|t>:<count>`.
//! * `trace …` — real producer threads with schedule perturbation (see `trace.rs` part below).
//!
//! Oracles (written from the property statements, independent of the Lean model) run on the
//! implementation's call log in every case; see `Oracle` below.

use metrique_writer::sink::background_verif::WakerHarness;
use metrique_writer::EntrySink;
use metrique_writer_core::sink::FlushWait;
use std::collections::{BTreeSet, VecDeque};
use std::pin::Pin;
use std::sync::atomic::Ordering;
use std::time::{Duration, Instant};
use verif_harness::qgate::*;
use verif_harness::*;

// ------------------------------------------------------------------------------------------------
// guided cases

#[derive(Clone, Debug, PartialEq)]
enum Op {
    New(usize),
    Append(usize, Res),
    Clone(usize),
    Drop(usize),
    Gate(usize),
    Flush,
    Forget,
    DropJoin,
    /// `drop(join_handle)` performed by an unwinding panic (caught with catch_unwind) on the dropping thread
    DropJoinU,
    /// the join handle is owned by a spawned thread that panics; the thread is joined
    DropJoinT,
    /// a queue handle dropped while its thread unwinds from a panic
    DropU(usize),
    /// shut / open the flush gate: while shut every `stream.flush()` blocks
    Fclose,
    Fopen,
    /// let exactly one `flush` call through the shut flush gate
    Fstep,
    /// shut / open the recorder gate: while shut the writer's end-of-cycle histogram callbacks block
    Hclose,
    Hopen,
    /// let three (short) flush intervals pass: if the writer is held at a gate, the deadline of its current
    /// outer-loop iteration has then certainly passed
    Sleep,
}

#[derive(Clone, Debug, PartialEq)]
struct Case {
    short: bool,
    /// `shutdown_timeout` of 1 ns: the deadline test of the final drain (every 32 entries) always fires
    tiny: bool,
    /// the stream's `flush` calls and in-band report entries fail too (every error kind in turn)
    fail_others: bool,
    ops: Vec<Op>,
}

impl Op {
    fn enc(&self) -> String {
        match self {
            Op::New(c) => format!("new:{c}"),
            Op::Append(h, r) => format!("append:{h}:{}", r.letter()),
            Op::Clone(h) => format!("clone:{h}"),
            Op::Drop(h) => format!("drop:{h}"),
            Op::Gate(k) => format!("gate:{k}"),
            Op::Flush => "flush".into(),
            Op::Forget => "forget".into(),
            Op::DropJoin => "dropjoin".into(),
            Op::DropJoinU => "dropjoinU".into(),
            Op::DropJoinT => "dropjoinT".into(),
            Op::DropU(h) => format!("dropU:{h}"),
            Op::Fclose => "fclose".into(),
            Op::Fopen => "fopen".into(),
            Op::Fstep => "fstep".into(),
            Op::Hclose => "hclose".into(),
            Op::Hopen => "hopen".into(),
            Op::Sleep => "sleep".into(),
        }
    }
    fn dec(s: &str) -> Option<Op> {
        let p: Vec<&str> = s.split(':').collect();
        Some(match p.as_slice() {
            ["new", c] => Op::New(c.parse().ok()?),
            ["append", h, r] => Op::Append(h.parse().ok()?, Res::parse(r)?),
            ["clone", h] => Op::Clone(h.parse().ok()?),
            ["drop", h] => Op::Drop(h.parse().ok()?),
            ["gate", k] => Op::Gate(k.parse().ok()?),
            ["flush"] => Op::Flush,
            ["forget"] => Op::Forget,
            ["dropjoin"] => Op::DropJoin,
            ["dropjoinU"] => Op::DropJoinU,
            ["dropjoinT"] => Op::DropJoinT,
            ["dropU", h] => Op::DropU(h.parse().ok()?),
            ["fclose"] => Op::Fclose,
            ["fopen"] => Op::Fopen,
            ["fstep"] => Op::Fstep,
            ["hclose"] => Op::Hclose,
            ["hopen"] => Op::Hopen,
            ["sleep"] => Op::Sleep,
            _ => return None,
        })
    }
    fn kind(&self) -> &'static str {
        match self {
            Op::New(_) => "new",
            Op::Append(..) => "append",
            Op::Clone(_) => "clone",
            Op::Drop(_) => "drop",
            Op::Gate(_) => "gate",
            Op::Flush => "flush",
            Op::Forget => "forget",
            Op::DropJoin => "dropjoin",
            Op::DropJoinU => "dropjoinU",
            Op::DropJoinT => "dropjoinT",
            Op::DropU(_) => "dropU",
            Op::Fclose => "fclose",
            Op::Fopen => "fopen",
            Op::Fstep => "fstep",
            Op::Hclose => "hclose",
            Op::Hopen => "hopen",
            Op::Sleep => "sleep",
        }
    }
}

impl Case {
    fn encode(&self) -> String {
        format!(
            "script {}{}{} {}",
            if self.short { 1 } else { 0 },
            if self.tiny { "t" } else { "" },
            if self.fail_others { "e" } else { "" },
            self.ops.iter().map(|o| o.enc()).collect::<Vec<_>>().join(" ")
        )
    }
    fn decode(s: &str) -> Option<Case> {
        let mut it = s.split_whitespace();
        if it.next()? != "script" {
            return None;
        }
        let mode = it.next()?;
        let (mode, fail_others) = match mode.strip_suffix('e') {
            Some(m) => (m, true),
            None => (mode, false),
        };
        let (short, tiny) = match mode {
            "0" => (false, false),
            "1" => (true, false),
            "0t" => (false, true),
            "1t" => (true, true),
            _ => return None,
        };
        let ops: Option<Vec<Op>> = it.map(Op::dec).collect();
        let c = Case { short, tiny, fail_others, ops: ops? };
        if c.valid() { Some(c) } else { None }
    }
    /// well-formed: starts with `new` (cap ≥ 1), handles referenced are live, a live handle exists for
    /// `flush`, the join handle is used at most once; `forget` only in short mode (otherwise the thread
    /// would notice the missing handles only after 50 s)
    fn valid(&self) -> bool {
        let Some(Op::New(cap)) = self.ops.first() else { return false };
        if *cap == 0 {
            return false;
        }
        let mut live = vec![true];
        let mut join_held = true;
        let mut fclosed = false;
        let mut hclosed = false;
        for op in &self.ops[1..] {
            match op {
                Op::New(_) => return false,
                Op::Append(h, _) => {
                    if !live.get(*h).copied().unwrap_or(false) {
                        return false;
                    }
                }
                Op::Clone(h) => {
                    if !live.get(*h).copied().unwrap_or(false) {
                        return false;
                    }
                    live.push(true);
                }
                Op::Drop(h) | Op::DropU(h) => {
                    if !live.get(*h).copied().unwrap_or(false) {
                        return false;
                    }
                    live[*h] = false;
                }
                Op::Gate(_) => {}
                Op::Flush => {
                    if !live.iter().any(|l| *l) {
                        return false;
                    }
                }
                Op::Forget => {
                    if !join_held || !self.short {
                        return false;
                    }
                    join_held = false;
                }
                Op::DropJoin | Op::DropJoinU | Op::DropJoinT => {
                    if !join_held {
                        return false;
                    }
                    join_held = false;
                }
                Op::Fclose => {
                    if fclosed {
                        return false;
                    }
                    fclosed = true;
                }
                Op::Fopen => {
                    if !fclosed {
                        return false;
                    }
                    fclosed = false;
                }
                Op::Fstep => {
                    if !fclosed {
                        return false;
                    }
                }
                Op::Hclose => {
                    if hclosed {
                        return false;
                    }
                    hclosed = true;
                }
                Op::Hopen => {
                    if !hclosed {
                        return false;
                    }
                    hclosed = false;
                }
                Op::Sleep => {
                    if !self.short {
                        return false;
                    }
                }
            }
        }
        true
    }
    /// every case ends with the gate opened wide, the join handle dropped (if still held) and all
    /// handles dropped, so that the final state is a fully drained one
    fn finished(mut self) -> Case {
        let mut live = vec![true];
        let mut join_held = true;
        let mut fclosed = false;
        let mut hclosed = false;
        for op in &self.ops[1..] {
            match op {
                Op::Clone(_) => live.push(true),
                Op::Drop(h) | Op::DropU(h) => live[*h] = false,
                Op::Forget | Op::DropJoin | Op::DropJoinU | Op::DropJoinT => join_held = false,
                Op::Fclose => fclosed = true,
                Op::Fopen => fclosed = false,
                Op::Hclose => hclosed = true,
                Op::Hopen => hclosed = false,
                _ => {}
            }
        }
        let tail_ok = {
            // already finished? (gate:1000 present after the last append, no join, no handles)
            let last_append = self.ops.iter().rposition(|o| matches!(o, Op::Append(..)));
            let big_gate = self.ops.iter().rposition(|o| matches!(o, Op::Gate(k) if *k >= 1000));
            !fclosed && !hclosed && !join_held && !live.iter().any(|l| *l) && big_gate.is_some() && big_gate >= last_append
        };
        if tail_ok {
            return self;
        }
        if fclosed {
            self.ops.push(Op::Fopen);
        }
        if hclosed {
            self.ops.push(Op::Hopen);
        }
        self.ops.push(Op::Gate(1000));
        if join_held {
            self.ops.push(Op::DropJoin);
        }
        for (h, l) in live.iter().enumerate() {
            if *l {
                self.ops.push(Op::Drop(h));
            }
        }
        self
    }
}

#[derive(Clone, Copy)]
struct Profile {
    caps: &'static [usize],
    w_append: u64,
    w_gate: u64,
    w_flush: u64,
    w_clone: u64,
    w_drop: u64,
    w_join: u64,
    short_pct: u64,
    err_pct: u64,
    max_len: u64,
    /// weight of toggling the flush gate
    w_fgate: u64,
    /// share of scripts with a 1 ns shutdown_timeout
    tiny_pct: u64,
    /// share of directed scenario scripts (see `gen_directed`)
    directed_pct: u64,
}

fn profile(property: &str) -> Profile {
    match property {
        "C09" => Profile { caps: &[1, 2, 3, 5, 10], w_append: 60, w_gate: 18, w_flush: 6, w_clone: 6, w_drop: 3, w_join: 3, short_pct: 10, err_pct: 10, max_len: 30, w_fgate: 3, tiny_pct: 5, directed_pct: 10 },
        "C01" => Profile { caps: &[1, 2, 4, 16, 64], w_append: 45, w_gate: 25, w_flush: 10, w_clone: 8, w_drop: 4, w_join: 2, short_pct: 15, err_pct: 45, max_len: 25, w_fgate: 5, tiny_pct: 5, directed_pct: 20 },
        "C05" => Profile { caps: &[1, 2, 3, 8, 64], w_append: 35, w_gate: 18, w_flush: 8, w_clone: 12, w_drop: 12, w_join: 12, short_pct: 55, err_pct: 15, max_len: 22, w_fgate: 8, tiny_pct: 25, directed_pct: 30 },
        _ => Profile { caps: &[1, 2, 3, 5, 33], w_append: 35, w_gate: 25, w_flush: 28, w_clone: 4, w_drop: 2, w_join: 3, short_pct: 15, err_pct: 15, max_len: 25, w_fgate: 8, tiny_pct: 5, directed_pct: 30 },
    }
}

/// A drop is a drop, also when it happens while the dropping thread unwinds from a panic: some of the
/// generated `dropjoin` / `drop:h` ops become `dropjoinU` / `dropjoinT` / `dropU:h` (same model events).
fn vary_drops(rng: &mut Rng, mut c: Case) -> Case {
    for op in c.ops.iter_mut() {
        match op {
            Op::DropJoin => match rng.below(4) {
                0 => *op = Op::DropJoinU,
                1 => *op = Op::DropJoinT,
                _ => {}
            },
            Op::Drop(h) if rng.chance(1, 4) => *op = Op::DropU(*h),
            _ => {}
        }
    }
    c
}

fn gen_case(rng: &mut Rng, p: &Profile) -> Case {
    let c = gen_case_plain(rng, p);
    vary_drops(rng, c)
}

fn gen_case_plain(rng: &mut Rng, p: &Profile) -> Case {
    if rng.below(100) < p.directed_pct {
        return gen_directed(rng);
    }
    let short = rng.below(100) < p.short_pct;
    let tiny = rng.below(100) < p.tiny_pct;
    let mut fclosed = false;
    let mut hclosed = false;
    let cap = *rng.pick(p.caps);
    let mut ops = vec![Op::New(cap)];
    let mut live = vec![true];
    let mut join_held = true;
    let n = rng.range(3, p.max_len);
    // sometimes start with an open gate (the writer is not stalled at all)
    if rng.chance(1, 5) {
        ops.push(Op::Gate(rng.range(1, 40) as usize));
    }
    let total = p.w_append + p.w_gate + p.w_flush + p.w_clone + p.w_drop + p.w_join + p.w_fgate;
    for _ in 0..n {
        let lives: Vec<usize> = live.iter().enumerate().filter(|(_, l)| **l).map(|(i, _)| i).collect();
        let mut x = rng.below(total);
        let mut pick = |w: u64| {
            if x < w {
                true
            } else {
                x -= w;
                false
            }
        };
        if pick(p.w_append) {
            if lives.is_empty() {
                continue;
            }
            let h = *rng.pick(&lives);
            let r = if rng.below(100) < p.err_pct {
                if rng.chance(1, 2) { Res::Validation } else { *rng.pick(&IO_KINDS) }
            } else {
                Res::Ok
            };
            // bursts: fill the ring beyond its capacity now and then
            // and, with a tiny shutdown timeout, bursts around the 32-entry clock check of the drain loop
            let burst = if tiny && rng.chance(1, 4) {
                *rng.pick(&[31u64, 32, 33, 64])
            } else if rng.chance(1, 6) {
                rng.range(1, cap as u64 + 2)
            } else {
                1
            };
            for _ in 0..burst {
                ops.push(Op::Append(h, r));
            }
        } else if pick(p.w_gate) {
            let k = match rng.below(4) {
                0 => 1,
                1 => rng.range(1, 3),
                2 => rng.range(1, cap as u64 + 1),
                _ => rng.range(1, 12),
            };
            ops.push(Op::Gate(k as usize));
        } else if pick(p.w_flush) {
            if !lives.is_empty() {
                ops.push(Op::Flush);
            }
        } else if pick(p.w_clone) {
            if !lives.is_empty() && live.len() < 5 {
                ops.push(Op::Clone(*rng.pick(&lives)));
                live.push(true);
            }
        } else if pick(p.w_drop) {
            if !lives.is_empty() {
                let h = *rng.pick(&lives);
                ops.push(Op::Drop(h));
                live[h] = false;
            }
        } else if pick(p.w_fgate) {
            match rng.below(5) {
                0 | 1 => {
                    ops.push(if fclosed { Op::Fopen } else { Op::Fclose });
                    fclosed = !fclosed;
                }
                2 => {
                    ops.push(if hclosed { Op::Hopen } else { Op::Hclose });
                    hclosed = !hclosed;
                }
                3 if fclosed => ops.push(Op::Fstep),
                _ => {
                    if short {
                        ops.push(Op::Sleep)
                    }
                }
            }
        } else if join_held {
            if short && rng.chance(1, 2) {
                ops.push(Op::Forget);
            } else {
                ops.push(Op::DropJoin);
            }
            join_held = false;
        }
    }
    Case { short, tiny, fail_others: rng.chance(1, 4), ops }.finished()
}

/// Directed scenario scripts: the writer is parked at a chosen program point with the flush gate
/// (it sits inside its periodic / shutdown `stream.flush()`), then the interesting things happen:
///  A. no-appenders exit with a late append: the last handle appends and is dropped while the writer is
///     between its last drain pass and the `Arc::get_mut` test (join handle forgotten or still held);
///  B. flush requests pending (in the channel) when the writer notices shutdown, with entries
///     appended before them still unwritten; the gate is then opened step by step;
///  E. the writer held inside the flush of `handle_waiting_wakers`, appends + drop(join) in that window;
///  F. a second flush request collected by the call that completes the first one, > 32 entries ahead of it,
///     the next drain cut by the deadline at 32 entries;
///  G. the writer held inside its end-of-cycle recorder callback, appends + drop(join) in that window;
///  H. a flush batch completed by the countdown on a deadline-terminated drain, its stream flush held at the gate;
///  D. `shutdown_timeout` expiring inside the final drain at 31 / 32 / 33 / 64 pending entries
///     (join-handle, forgotten-handle and last-handle-dropped shutdowns).
fn gen_directed(rng: &mut Rng) -> Case {
    let res = |rng: &mut Rng| match rng.below(6) {
        0 => Res::Validation,
        1 => *rng.pick(&IO_KINDS),
        _ => Res::Ok,
    };
    let mut ops;
    let mut live = vec![true];
    let short;
    let mut tiny = false;
    // how the shutdown starts: 0 = drop(join), 1 = forget + last handle dropped, 2 = last handle dropped, join held
    let how = rng.below(3);
    match rng.below(7) {
        6 => {
            // H: a flush batch finishes by the countdown reaching 0 on a deadline-terminated drain (the ring was
            // full of pre-request entries when the request was picked up and is never seen empty); the flush
            // gate holds the stream flush that must precede the wake-up
            short = true;
            let laps = rng.range(1, 2) as usize; // capacity 32 or 64
            let cap = 32 * laps;
            ops = vec![Op::New(cap)];
            for _ in 0..cap + 1 {
                ops.push(Op::Append(0, res(rng)));
            }
            ops.push(Op::Flush);
            ops.push(Op::Sleep);
            ops.push(Op::Gate(32));
            // refill: the writer holds one entry, the ring gets the rest
            for _ in 0..31 {
                ops.push(Op::Append(0, Res::Ok));
            }
            for lap in 0..laps {
                if lap + 1 == laps {
                    ops.push(Op::Fclose);
                }
                ops.push(Op::Sleep);
                ops.push(Op::Gate(32));
                if lap + 1 < laps {
                    for _ in 0..32 {
                        ops.push(Op::Append(0, Res::Ok));
                    }
                }
            }
            ops.push(Op::Fopen);
        }
        4 => {
            // F: a flush request F2 arrives, with > 32 entries appended before it, while the writer is inside
            // the stream flush that completes F1; the next drain pass is cut by the deadline at 32 entries:
            // F2 must stay pending (its batch is sized by the capacity, not by a stale queue length)
            short = true;
            let cap = *rng.pick(&[40usize, 64, 100]);
            let n = rng.range(33, cap as u64 - 1) as usize;
            ops = vec![Op::New(cap), Op::Append(0, res(rng)), Op::Flush, Op::Fclose, Op::Sleep, Op::Gate(1), Op::Fstep];
            for _ in 0..n {
                ops.push(Op::Append(0, Res::Ok));
            }
            ops.push(Op::Flush);
            ops.push(Op::Sleep);
            ops.push(Op::Fopen);
            ops.push(Op::Sleep);
            ops.push(Op::Gate(32));
            if rng.chance(1, 2) {
                ops.push(Op::Gate(rng.range(1, 3) as usize));
            }
        }
        5 => {
            // G: the writer is held inside its end-of-cycle recorder callback (queue length already sampled);
            // entries are appended, then the join handle is dropped: they must all be written
            short = true;
            let cap = *rng.pick(&[2usize, 4, 8]);
            ops = vec![Op::New(cap)];
            if rng.chance(1, 2) {
                ops.push(Op::Append(0, res(rng)));
                ops.push(Op::Gate(1));
            }
            ops.push(Op::Hclose);
            for _ in 0..rng.range(1, cap as u64) {
                ops.push(Op::Append(0, res(rng)));
            }
            if rng.chance(1, 3) {
                ops.push(Op::Flush);
            }
            ops.push(Op::DropJoin);
            ops.push(Op::Hopen);
            for _ in 0..rng.below(3) {
                ops.push(Op::Gate(1));
            }
        }
        3 => {
            // E: the writer is held inside the flush of `handle_waiting_wakers` (a request completes on a
            // drained queue); entries are appended and the shutdown begins in that window
            short = false;
            let cap = *rng.pick(&[2usize, 4, 64]);
            ops = vec![Op::New(cap)];
            if rng.chance(1, 2) {
                ops.push(Op::Gate(1000));
            }
            ops.push(Op::Fclose);
            ops.push(Op::Flush);
            for _ in 0..rng.range(1, 3) {
                ops.push(Op::Append(0, res(rng)));
            }
            if rng.chance(1, 3) {
                ops.push(Op::Flush);
            }
            ops.push(Op::DropJoin);
            ops.push(Op::Fopen);
            for _ in 0..rng.below(3) {
                ops.push(Op::Gate(1));
            }
        }
        0 => {
            // A
            short = true;
            let cap = *rng.pick(&[1usize, 2, 4, 16]);
            ops = vec![Op::New(cap)];
            if rng.chance(1, 2) {
                ops.push(Op::Clone(0));
                live.push(true);
            }
            if how != 2 {
                ops.push(Op::Forget);
            }
            if rng.chance(1, 2) {
                ops.push(Op::Append(0, res(rng)));
                ops.push(Op::Gate(1));
            }
            if rng.chance(1, 3) {
                ops.push(Op::Gate(rng.range(1, 5) as usize));
            }
            ops.push(Op::Fclose);
            let last = live.len() - 1;
            if live.len() == 2 && rng.chance(1, 2) {
                ops.push(Op::Drop(0));
                live[0] = false;
            }
            for _ in 0..rng.range(1, cap as u64 + 1) {
                ops.push(Op::Append(last, res(rng)));
            }
            for h in 0..live.len() {
                if live[h] {
                    ops.push(Op::Drop(h));
                }
            }
            ops.push(Op::Fopen);
            for _ in 0..rng.below(3) {
                ops.push(Op::Gate(1));
            }
        }
        1 => {
            // B
            short = rng.chance(2, 3);
            let cap = *rng.pick(&[2usize, 4, 8, 40]);
            ops = vec![Op::New(cap)];
            if short {
                if how == 1 {
                    ops.push(Op::Forget);
                }
                ops.push(Op::Fclose);
                for _ in 0..rng.range(1, cap as u64) {
                    ops.push(Op::Append(0, res(rng)));
                }
                ops.push(Op::Flush);
                if rng.chance(1, 3) {
                    ops.push(Op::Append(0, res(rng)));
                    ops.push(Op::Flush);
                }
                if how == 0 {
                    ops.push(Op::DropJoin);
                } else {
                    ops.push(Op::Drop(0));
                }
                ops.push(Op::Fopen);
            } else {
                // quiet interval: the writer holds the first entry inside `next`, the request waits in
                // the channel, the join handle goes
                for _ in 0..rng.range(1, cap as u64) {
                    ops.push(Op::Append(0, res(rng)));
                }
                ops.push(Op::Flush);
                if rng.chance(1, 2) {
                    ops.push(Op::Fclose);
                }
                ops.push(Op::DropJoin);
            }
            for _ in 0..rng.range(1, 4) {
                ops.push(Op::Gate(rng.range(1, 2) as usize));
            }
        }
        _ => {
            // D
            short = rng.chance(2, 3);
            tiny = true;
            let pending = *rng.pick(&[31usize, 32, 33, 64, 64, 32]);
            let cap = *rng.pick(&[64usize, 64, 100, 32]);
            ops = vec![Op::New(cap)];
            if rng.chance(1, 3) {
                ops.push(Op::Gate(1000));
            }
            if short {
                if how == 1 {
                    ops.push(Op::Forget);
                }
                ops.push(Op::Fclose);
                for _ in 0..pending {
                    ops.push(Op::Append(0, Res::Ok));
                }
                if how == 0 {
                    ops.push(Op::DropJoin);
                } else {
                    ops.push(Op::Drop(0));
                }
                ops.push(Op::Fopen);
            } else {
                ops.push(Op::Fclose);
                ops.push(Op::DropJoin);
                for _ in 0..pending {
                    ops.push(Op::Append(0, Res::Ok));
                }
                ops.push(Op::Fopen);
            }
            if rng.chance(1, 2) {
                ops.push(Op::Gate(rng.range(1, 40) as usize));
            }
        }
    }
    let c = Case { short, tiny, fail_others: rng.chance(1, 4), ops };
    debug_assert!(c.valid(), "{}", c.encode());
    c.finished()
}

// ------------------------------------------------------------------------------------------------
// running a guided case on the real queue

#[derive(Clone, Debug)]
struct AppendRec {
    id: u64,
    res: Res,
    /// appended before `drop(join_handle)` began (or before the last handle was dropped)
    before_shutdown: bool,
    /// appended after `drop(join_handle)` had returned / the stream had been dropped
    after_exit: bool,
    /// the bounded-FIFO reference says this entry was displaced
    ref_lost: bool,
}

struct FlushRec {
    fut: Pin<Box<FlushWait>>,
    /// ids appended before the request
    appended_before: usize,
    done: bool,
    requested_after_close: bool,
}

#[derive(Default, Clone, Debug)]
struct GuidedOutcome {
    obs: Vec<String>,
    /// (key, what)
    oracle: Option<(String, String)>,
    timed_out_at: Option<usize>,
    max_append_us: u128,
}

struct Running {
    short: bool,
    tiny: bool,
    built_gate: std::sync::Arc<GateShared>,
    counters: std::sync::Arc<Counters>,
    handles: Vec<Option<Handle>>,
    join: Option<metrique_writer::sink::BackgroundQueueJoinHandle>,
    dropper: Option<JoinDropper>,
    flushes: Vec<FlushRec>,
    appends: Vec<AppendRec>,
    cap: usize,
    // bounded-FIFO reference for the overflow oracle
    refq: VecDeque<usize>,
    ref_taken: usize,
    ref_overflow: u64,
    shutdown_begun: bool,
    oracle: Option<(String, String)>,
}

impl Running {
    fn fail(&mut self, key: &str, what: String) {
        if self.oracle.is_none() {
            self.oracle = Some((key.to_string(), what));
        }
    }

    fn observe(&mut self) -> String {
        // futures first: whatever they imply must already be in the call log read afterwards
        let mut newly: Vec<usize> = vec![];
        for (i, f) in self.flushes.iter_mut().enumerate() {
            if !f.done && poll_once(&mut f.fut) {
                f.done = true;
                newly.push(i);
            }
        }
        let joined = self.dropper.as_ref().map(|d| d.has_returned()).unwrap_or(false);
        let ov = self.counters.overflows.load(Ordering::SeqCst);
        let (calls, entered, closed, after_close, fblk, hblk, fst) = {
            let g = self.built_gate.lock();
            (g.calls.clone(), g.entered, g.closed, g.calls_after_close, g.fblocked, g.hblocked, g.fstepped)
        };
        // ---- oracle C04 (flush barrier), at the first observation of a completed future
        for i in newly {
            let f = &self.flushes[i];
            // the request was made on a live queue (stream not yet closed): also when the future completes
            // during or at the end of shutdown, the entries appended before the request (and before the
            // shutdown began) must have been written, and flushed, by then. Exceptions: requests made after
            // the stream was closed complete at once; with a tiny shutdown_timeout the final drain may be cut.
            if f.requested_after_close || (closed && self.tiny) {
                continue;
            }
            let must: Vec<u64> =
                self.appends[..f.appended_before].iter().filter(|a| !a.ref_lost && a.before_shutdown).map(|a| a.id).collect();
            let mut last_pos: Option<usize> = None;
            for id in &must {
                match calls.iter().position(|c| matches!(c, Call::Next(x, _) if x == id)) {
                    Some(p) => last_pos = Some(last_pos.map_or(p, |l: usize| l.max(p))),
                    None => {
                        self.fail(
                            "queue:c04-flush-barrier",
                            format!("flush future {i} completed but entry {id}, appended before the request and not displaced, has not been handed to the stream"),
                        );
                        return String::new();
                    }
                }
            }
            let from = last_pos.map(|p| p + 1).unwrap_or(0);
            if !calls[from..].iter().any(|c| *c == Call::Flush) {
                self.fail(
                    "queue:c04-flush-barrier",
                    format!("flush future {i} completed but the stream was not flushed after the last entry appended before the request"),
                );
            }
        }
        // ---- oracle C05: drop(join) returned ⇒ stream closed
        if joined && !closed {
            self.fail("queue:c05-join-before-close", "drop(join_handle) returned before the stream was dropped".into());
        }
        if after_close > 0 {
            self.fail("queue:c05-call-after-close", "the stream was called after it had been dropped".into());
        }
        let next: Vec<String> = calls.iter().filter_map(|c| if let Call::Next(id, _) = c { Some(id.to_string()) } else { None }).collect();
        let fl = calls.iter().filter(|c| **c == Call::Flush).count();
        let done: Vec<String> = self.flushes.iter().enumerate().filter(|(_, f)| f.done).map(|(i, _)| i.to_string()).collect();
        format!(
            "next={} ent={} fl={} ov={} done={} closed={} joined={} fblk={} hblk={} fst={}",
            if next.is_empty() { "-".to_string() } else { next.join(",") },
            entered,
            if self.short { "*".to_string() } else { fl.to_string() },
            ov,
            if done.is_empty() { "-".to_string() } else { done.join(",") },
            closed as u8,
            joined as u8,
            fblk,
            hblk,
            fst
        )
    }

    /// poll until the predicted observable is reached; on timeout re-check once and give up
    fn wait_for(&mut self, pred: &str, timeout: Duration) -> (String, bool) {
        let t0 = Instant::now();
        let mut spins = 0u32;
        loop {
            let o = self.observe();
            if o == pred || self.oracle.is_some() {
                return (o, true);
            }
            if t0.elapsed() > timeout {
                std::thread::sleep(Duration::from_millis(20));
                let o = self.observe();
                let ok = o == pred;
                return (o, ok);
            }
            spins += 1;
            if spins < 200 {
                std::thread::yield_now();
            } else {
                std::thread::sleep(Duration::from_micros(100));
            }
        }
    }
}

const QUIET_INTERVAL: Duration = Duration::from_secs(50);
const SHORT_INTERVAL: Duration = Duration::from_millis(2);

fn run_guided(case: &Case, kind: Kind, predicted: &[String], timeout: Duration) -> GuidedOutcome {
    let mut out = GuidedOutcome::default();
    let Some(Op::New(cap)) = case.ops.first().cloned() else { return out };
    let built = build_with(
        kind,
        cap,
        if case.short { SHORT_INTERVAL } else { QUIET_INTERVAL },
        true,
        if case.tiny { Some(Duration::from_nanos(1)) } else { None },
    );
    built.gate.lock().fail_others = case.fail_others;
    let mut r = Running {
        short: case.short,
        tiny: case.tiny,
        built_gate: built.gate.clone(),
        counters: built.counters.clone(),
        handles: vec![Some(built.handle)],
        join: Some(built.join),
        dropper: None,
        flushes: vec![],
        appends: vec![],
        cap,
        refq: VecDeque::new(),
        ref_taken: 0,
        ref_overflow: 0,
        shutdown_begun: false,
        oracle: None,
    };
    let mut next_id = 0u64;
    for (k, op) in case.ops.iter().enumerate() {
        match op {
            Op::New(_) => {}
            Op::Append(h, res) => {
                // reference bounded FIFO: entries the writer has taken so far leave the queue
                let (entered, closed) = {
                    let g = r.built_gate.lock();
                    (g.entered, g.closed)
                };
                while r.ref_taken < entered {
                    r.refq.pop_front();
                    r.ref_taken += 1;
                }
                let idx = r.appends.len();
                let joined = r.dropper.as_ref().map(|d| d.has_returned()).unwrap_or(false);
                r.appends.push(AppendRec { id: next_id, res: *res, before_shutdown: !r.shutdown_begun, after_exit: joined || closed, ref_lost: false });
                if r.refq.len() >= r.cap {
                    let lost = r.refq.pop_front().unwrap();
                    r.appends[lost].ref_lost = true;
                    r.ref_overflow += 1;
                }
                r.refq.push_back(idx);
                let t = Instant::now();
                r.handles[*h].as_ref().unwrap().append(IdEntry { id: next_id, res: *res });
                out.max_append_us = out.max_append_us.max(t.elapsed().as_micros());
                next_id += 1;
            }
            Op::Clone(h) => {
                let c = r.handles[*h].as_ref().unwrap().clone();
                r.handles.push(Some(c));
            }
            Op::Drop(h) | Op::DropU(h) => {
                let handle = r.handles[*h].take();
                if !r.handles.iter().any(|h| h.is_some()) {
                    r.shutdown_begun = true;
                }
                if matches!(op, Op::DropU(_)) {
                    drop_while_unwinding(handle);
                } else {
                    drop(handle);
                }
            }
            Op::Gate(n) => r.built_gate.release(*n),
            Op::Flush => {
                let h = r.handles.iter().flatten().next().unwrap();
                let closed = r.built_gate.lock().closed;
                let fut = Box::pin(h.flush());
                let n = r.appends.len();
                r.flushes.push(FlushRec { fut, appended_before: n, done: false, requested_after_close: closed });
                if closed {
                    // "completes immediately once the queue has shut down"
                    let i = r.flushes.len() - 1;
                    if !poll_once(&mut r.flushes[i].fut) {
                        r.fail("queue:c04-flush-after-shutdown", format!("flush future {i} requested after the stream was closed is not ready"));
                    } else {
                        r.flushes[i].done = true;
                    }
                }
            }
            Op::Fclose => r.built_gate.set_fclosed(true),
            Op::Fopen => r.built_gate.set_fclosed(false),
            Op::Fstep => r.built_gate.fstep(),
            Op::Hclose => r.built_gate.set_hclosed(true),
            Op::Hopen => r.built_gate.set_hclosed(false),
            // a lower bound on elapsed time ("the interval has passed"), never an upper bound on anything
            Op::Sleep => std::thread::sleep(SHORT_INTERVAL * 3),
            Op::Forget => {
                if let Some(j) = r.join.take() {
                    j.forget();
                }
            }
            Op::DropJoin | Op::DropJoinU | Op::DropJoinT => {
                r.shutdown_begun = true;
                let how = match op {
                    Op::DropJoinU => DropHow::Unwind,
                    Op::DropJoinT => DropHow::PanickingThread,
                    _ => DropHow::Plain,
                };
                if let Some(j) = r.join.take() {
                    r.dropper = Some(JoinDropper::start_how(j, Duration::from_secs(30), how));
                }
            }
        }
        let pred = predicted.get(k).map(|s| s.as_str()).unwrap_or("<no prediction>");
        // after the first mismatch the rest of the script is still executed (with short waits) so that the
        // oracles see the whole scenario; only the first mismatch is reported as the disagreement
        let to = if out.timed_out_at.is_some() { Duration::from_millis(150) } else { timeout };
        let (o, ok) = r.wait_for(pred, to);
        if out.timed_out_at.is_none() {
            out.obs.push(o);
        }
        if r.oracle.is_some() {
            break;
        }
        if !ok && out.timed_out_at.is_none() {
            out.timed_out_at = Some(k);
        }
    }
    // ---- cleanup: open the gate, drop everything; drop(join) must return
    r.built_gate.open();
    r.handles.clear();
    let all_dropped_forgotten = r.join.is_none() && r.dropper.is_none();
    if let Some(j) = r.join.take() {
        r.dropper = Some(JoinDropper::start(j, Duration::from_secs(30)));
    }
    let cleanup_wait = if out.timed_out_at.is_some() { timeout.min(Duration::from_secs(5)) } else { Duration::from_secs(30) };
    if let Some(d) = r.dropper.as_mut() {
        if !d.finish(cleanup_wait) {
            r.fail("queue:c05-join-hangs", "drop(join_handle) did not return although the stream accepts everything".into());
        }
    } else if all_dropped_forgotten && case.short {
        // forget path: once the last handle is gone the thread must drain, flush, close and exit
        let t0 = Instant::now();
        while !r.built_gate.lock().closed {
            if t0.elapsed() > cleanup_wait {
                r.fail("queue:c05-forget-never-closes", "join handle forgotten and every queue handle dropped, but the stream is never dropped".into());
                break;
            }
            std::thread::sleep(Duration::from_millis(1));
        }
    }
    let _ = r.observe();
    if std::env::var("VERIF_DEBUG").is_ok() {
        eprintln!("{} {:?}\n  obs={:?}\n  calls={:?}", case.encode(), kind, out.obs, r.built_gate.lock().calls);
    }
    final_oracles(&mut r);
    out.oracle = r.oracle.take();
    out
}

/// end-of-case oracles on the complete call log (everything has been drained and closed)
fn final_oracles(r: &mut Running) {
    let (calls, closed) = {
        let g = r.built_gate.lock();
        (g.calls.clone(), g.closed)
    };
    let ov = r.counters.overflows.load(Ordering::SeqCst);
    // C01/C09: order preserved, nothing duplicated, only appended entries and reports reach the stream
    let mut last: Option<u64> = None;
    let mut seen = BTreeSet::new();
    for (i, c) in calls.iter().enumerate() {
        match c {
            Call::Next(id, res) => {
                if !seen.insert(*id) {
                    r.fail("queue:c01-duplicate", format!("entry {id} was handed to the stream twice"));
                    return;
                }
                match r.appends.get(*id as usize) {
                    Some(a) if a.res == *res => {}
                    _ => {
                        r.fail("queue:c01-foreign-entry", format!("the stream received entry {id} which was not appended like that"));
                        return;
                    }
                }
                if let Some(l) = last {
                    if *id < l {
                        r.fail("queue:c01-order", format!("entry {id} reached the stream after entry {l}, against append order"));
                        return;
                    }
                }
                last = Some(*id);
            }
            Call::Report => {
                let ok = i > 0 && matches!(calls[i - 1], Call::Next(_, Res::Validation));
                if !ok {
                    r.fail("queue:c01-report", "an in-band error report was written, but not directly after a validation failure".into());
                    return;
                }
            }
            Call::Unknown => {
                r.fail("queue:c01-foreign-entry", "the stream received an entry that nobody appended".into());
                return;
            }
            Call::Flush => {}
        }
    }
    // C09: the entries lost are exactly those the bounded FIFO displaces; the counter counts them.
    // C05: everything appended before shutdown began is written (unless displaced); nothing appended
    //      after the thread exited is.
    for a in &r.appends {
        let delivered = seen.contains(&a.id);
        if a.after_exit && delivered {
            r.fail("queue:c05-written-after-exit", format!("entry {} was appended after shutdown completed but was written", a.id));
            return;
        }
        if a.before_shutdown && closed {
            if a.ref_lost && delivered {
                r.fail("queue:c09-not-oldest", format!("entry {} should have been displaced (capacity {}), but was written: a newer entry must have been lost instead", a.id, r.cap));
                return;
            }
            if !a.ref_lost && !delivered && !r.tiny {
                r.fail(
                    if r.ref_overflow > 0 { "queue:c09-lost-without-cause" } else { "queue:c01-lost" },
                    format!("entry {} was appended before shutdown and fewer than {} newer entries were appended while it was queued, but it never reached the stream", a.id, r.cap),
                );
                return;
            }
        }
    }
    if ov != r.ref_overflow {
        r.fail("queue:c09-counter", format!("metrique_queue_overflows = {ov}, but {} entries were displaced", r.ref_overflow));
        return;
    }
    // C05: the last two things that happen to the stream are flush and drop
    if closed && calls.last() != Some(&Call::Flush) {
        r.fail("queue:c05-no-final-flush", "the stream was dropped without a final flush after the last entry".into());
    }
}

// ------------------------------------------------------------------------------------------------
// waker state machine alone (C04), against the real `WakerTracker`

fn run_hww_impl(line: &str) -> Option<String> {
    let mut it = line.split_whitespace();
    if it.next()? != "hww" {
        return None;
    }
    let cap: usize = it.next()?.parse().ok()?;
    let mut h = WakerHarness::new();
    let mut rx: Vec<(usize, tokio::sync::oneshot::Receiver<()>, bool)> = vec![];
    let mut out = vec![];
    for op in it {
        let p: Vec<&str> = op.split(':').collect();
        let mut flushed = false;
        match p.as_slice() {
            ["s"] => {
                let r = h.send_flush();
                rx.push((rx.len(), r, false));
            }
            ["h", d, c] => {
                let drained = match *d {
                    "d" => true,
                    "t" => false,
                    _ => return None,
                };
                flushed = h.handle_waiting_wakers(cap, drained, c.parse().ok()?);
            }
            _ => return None,
        }
        let mut comp = vec![];
        for (i, r, done) in rx.iter_mut() {
            if !*done {
                if let Err(tokio::sync::oneshot::error::TryRecvError::Closed) = r.try_recv() {
                    *done = true;
                    comp.push(i.to_string());
                }
            }
        }
        let (w, e) = h.state();
        out.push(format!(
            "{},{},{},{},{}",
            w,
            e,
            flushed as u8,
            if comp.is_empty() { "-".to_string() } else { comp.join("+") },
            h.will_progress_on_drained_queue() as u8
        ));
    }
    Some(if out.is_empty() { "-".into() } else { out.join(";") })
}

/// oracle on one `hww` run, from the invariants S1/L1 stated in background.rs: a waker completes
/// only in a call that flushed; after a call with Drained nobody who was waiting still waits; with
/// no waiter left and a signal in the channel the tracker asks not to park; a waker sent before a
/// call completes after at most `2·cap + 2` further calls that make progress (count > 0 or Drained).
fn hww_oracle(line: &str, reply: &str) -> Option<String> {
    let mut it = line.split_whitespace();
    it.next()?;
    let cap: usize = it.next()?.parse().ok()?;
    let ops: Vec<&str> = it.collect();
    let outs: Vec<&str> = if reply == "-" { vec![] } else { reply.split(';').collect() };
    if ops.len() != outs.len() {
        return Some("reply length".into());
    }
    let mut pending: Vec<(usize, usize)> = vec![]; // (id, progress calls seen since sent)
    let mut next_id = 0;
    for (op, o) in ops.iter().zip(outs.iter()) {
        let f: Vec<&str> = o.split(',').collect();
        let (w, _e, flushed, comp, wp) = (f[0].parse::<usize>().ok()?, f[1], f[2] == "1", f[3], f[4] == "1");
        let comp: Vec<usize> = if comp == "-" { vec![] } else { comp.split('+').filter_map(|x| x.parse().ok()).collect() };
        if *op == "s" {
            pending.push((next_id, 0));
            next_id += 1;
            if !comp.is_empty() {
                return Some("a waker completed without a handle_waiting_wakers call".into());
            }
        } else {
            let p: Vec<&str> = op.split(':').collect();
            let drained = p[1] == "d";
            let count: usize = p[2].parse().ok()?;
            if !comp.is_empty() && !flushed {
                return Some("wakers were woken without flushing the stream".into());
            }
            let progress = drained || count > 0;
            pending.retain(|(id, _)| !comp.contains(id));
            if progress {
                for p in pending.iter_mut() {
                    p.1 += 1;
                    if p.1 > 2 * cap + 2 {
                        return Some(format!("waker {} still pending after {} progressing calls (bound 2*cap+2)", p.0, p.1));
                    }
                }
            }
            if (w > 0) != wp {
                return Some("will_progress_on_drained_queue disagrees with the presence of waiting wakers".into());
            }
            if !pending.is_empty() && w == 0 {
                return Some("a signal is pending but nobody is waiting after the call (it was neither collected nor completed)".into());
            }
        }
    }
    None
}

fn hww_cases(rng: &mut Rng, thorough: bool) -> Vec<String> {
    let alphabet = ["s", "h:d:0", "h:d:1", "h:t:0", "h:t:1", "h:t:2", "h:t:32", "h:d:5", "s"];
    let mut out = vec![];
    // exhaustive: all sequences of a fixed length over the alphabet (shorter ones are prefixes)
    let (len, caps): (usize, &[usize]) = if thorough { (6, &[1, 2, 3]) } else { (5, &[1, 3]) };
    let letters = &alphabet[..8];
    for cap in caps {
        let n = letters.len();
        let total = n.pow(len as u32);
        for mut x in 0..total {
            let mut ops = Vec::with_capacity(len);
            for _ in 0..len {
                ops.push(letters[x % n]);
                x /= n;
            }
            out.push(format!("hww {cap} {}", ops.join(" ")));
        }
    }
    // random long ones with larger capacities and counts
    let n_rand = if thorough { 20_000 } else { 1_000 };
    for _ in 0..n_rand {
        let cap = *rng.pick(&[1usize, 2, 3, 7, 32, 33, 100]);
        let len = if thorough { 200 } else { 60 };
        let mut ops = vec![];
        for _ in 0..len {
            ops.push(match rng.below(10) {
                0..=2 => "s".to_string(),
                3..=4 => format!("h:d:{}", rng.below(cap as u64 + 2)),
                5 => "h:t:0".to_string(),
                6 => "h:t:32".to_string(),
                _ => format!("h:t:{}", rng.range(1, cap as u64 + 1)),
            });
        }
        out.push(format!("hww {cap} {}", ops.join(" ")));
    }
    out
}


// ------------------------------------------------------------------------------------------------
// T-trace: real producer / flusher threads, schedule perturbation at the hook points

#[derive(Clone, Debug)]
struct TraceCase {
    kind: Kind,
    cap: usize,
    producers: usize,
    per: usize,
    interval_us: u64,
    flushes: usize,
    err_pct: u64,
    slow_us: u64,
    /// drop the join handle while the producers are still appending (C05)
    mid: bool,
    /// entries appended (by an extra producer) while the stream is held shut, followed by a flush
    /// request, before the gate opens and the other threads start: the writer then drains a backlog
    /// past its deadline, which exercises the HitDeadline / entries_before_wake countdown (C04)
    backlog: usize,
    /// number of flusher threads (each makes `flushes` requests, one after the other): with more than
    /// one, requests overlap and can be collected while earlier ones are still counting down
    flushers: usize,
    seed: u64,
}

impl TraceCase {
    fn encode(&self) -> String {
        format!(
            "trace {} {} {} {} {} {} {} {} {} {} {} {}",
            self.kind.name(), self.cap, self.producers, self.per, self.interval_us, self.flushes, self.err_pct, self.slow_us, self.mid as u8, self.backlog, self.flushers, self.seed
        )
    }
    fn decode(l: &str) -> Option<TraceCase> {
        let w: Vec<&str> = l.split_whitespace().collect();
        if (w.len() != 12 && w.len() != 13) || w[0] != "trace" {
            return None;
        }
        Some(TraceCase {
            kind: match w[1] {
                "typed" => Kind::Typed,
                "boxed" => Kind::Boxed,
                _ => return None,
            },
            cap: w[2].parse().ok()?,
            producers: w[3].parse().ok()?,
            per: w[4].parse().ok()?,
            interval_us: w[5].parse().ok()?,
            flushes: w[6].parse().ok()?,
            err_pct: w[7].parse().ok()?,
            slow_us: w[8].parse().ok()?,
            mid: w[9] == "1",
            backlog: w[10].parse().ok()?,
            flushers: if w.len() == 13 { w[11].parse().ok()? } else { 1 },
            seed: w[w.len() - 1].parse().ok()?,
        })
    }
}

fn gen_trace(rng: &mut Rng, prop: &str) -> TraceCase {
    let kind = if rng.chance(1, 2) { Kind::Typed } else { Kind::Boxed };
    let producers = rng.range(1, 8) as usize;
    let per = rng.range(5, 60) as usize;
    let interval_us = *rng.pick(&[1u64, 50, 1000, 5000, 50_000_000]);
    let seed = rng.next_u64() >> 16;
    match prop {
        "C09" => TraceCase { kind, cap: *rng.pick(&[1usize, 2, 3, 5, 10]), producers, per, interval_us, flushes: rng.below(3) as usize, err_pct: 10, slow_us: *rng.pick(&[0u64, 5, 30]), mid: false, backlog: 0, flushers: 1, seed },
        "C05" => TraceCase { kind, cap: *rng.pick(&[2usize, 8, 4096]), producers, per, interval_us, flushes: rng.below(2) as usize, err_pct: 10, slow_us: *rng.pick(&[0u64, 5]), mid: rng.chance(2, 3), backlog: 0, flushers: 1, seed },
        "C04" => {
            if rng.chance(1, 3) {
                backlog_trace(rng)
            } else if rng.chance(1, 5) {
                saturation_trace(rng)
            } else {
                let mid = rng.chance(1, 4);
                TraceCase {
                    kind,
                    cap: if mid { *rng.pick(&[33usize, 4096]) } else { *rng.pick(&[1usize, 2, 5, 33, 4096]) },
                    producers,
                    per,
                    interval_us: *rng.pick(&[1u64, 1, 50, 5000, 50_000_000]),
                    flushes: rng.range(2, 6) as usize,
                    err_pct: 10,
                    slow_us: if mid { *rng.pick(&[10u64, 30]) } else { *rng.pick(&[0u64, 0, 10]) },
                    // shutdown while flush requests are pending and a backlog is unwritten
                    mid,
                    backlog: 0,
                    flushers: rng.range(1, 2) as usize,
                    seed,
                }
            }
        }
        _ => TraceCase { kind, cap: 4096, producers, per, interval_us, flushes: rng.below(4) as usize, err_pct: 35, slow_us: 0, mid: false, backlog: 0, flushers: 1, seed },
    }
}

/// a trace that starts with a backlog behind a shut stream and a flush request (see `TraceCase::backlog`)
fn backlog_trace(rng: &mut Rng) -> TraceCase {
    TraceCase {
        kind: if rng.chance(1, 2) { Kind::Typed } else { Kind::Boxed },
        cap: *rng.pick(&[33usize, 64, 100, 512, 4096]),
        producers: rng.range(0, 3) as usize,
        per: rng.range(5, 40) as usize,
        interval_us: *rng.pick(&[1u64, 1, 1, 50]),
        flushes: rng.below(3) as usize,
        err_pct: 5,
        slow_us: *rng.pick(&[0u64, 2]),
        mid: false,
        backlog: rng.range(40, 300) as usize,
        flushers: rng.range(1, 2) as usize,
        seed: rng.next_u64() >> 16,
    }
}

/// a trace in which several producers keep a small ring full in front of a slow stream while many flush
/// requests arrive: the writer's drain passes end with HitDeadline again and again, so requests are
/// collected while earlier ones are still counting down
fn saturation_trace(rng: &mut Rng) -> TraceCase {
    TraceCase {
        kind: if rng.chance(1, 2) { Kind::Typed } else { Kind::Boxed },
        cap: *rng.pick(&[33usize, 40, 64, 100]),
        producers: rng.range(3, 8) as usize,
        per: rng.range(60, 150) as usize,
        interval_us: 1,
        flushes: rng.range(4, 8) as usize,
        err_pct: 5,
        slow_us: *rng.pick(&[15u64, 30, 50]),
        mid: false,
        backlog: if rng.chance(1, 2) { rng.range(40, 120) as usize } else { 0 },
        flushers: rng.range(2, 4) as usize,
        seed: rng.next_u64() >> 16,
    }
}

static TRACE_FAILURES: std::sync::atomic::AtomicUsize = std::sync::atomic::AtomicUsize::new(0);

static PERTURB: std::sync::atomic::AtomicU64 = std::sync::atomic::AtomicU64::new(0x1234_5678);

fn install_perturbation(seed: u64) {
    PERTURB.store(seed | 1, Ordering::SeqCst);
    metrique_writer_core::verif::set_callback(Some(Box::new(|_id| {
        let mut z = PERTURB.fetch_add(0x9E37_79B9_7F4A_7C15, Ordering::Relaxed);
        z = (z ^ (z >> 30)).wrapping_mul(0xBF58_476D_1CE4_E5B9);
        z = (z ^ (z >> 27)).wrapping_mul(0x94D0_49BB_1331_11EB);
        z ^= z >> 31;
        match z % 16 {
            0..=7 => {}
            8..=11 => std::thread::yield_now(),
            12..=14 => {
                for _ in 0..((z >> 8) % 300) {
                    std::hint::spin_loop();
                }
            }
            _ => std::thread::sleep(Duration::from_micros(20)),
        }
    })));
}

fn block_on_timeout(mut f: Pin<Box<FlushWait>>, timeout: Duration) -> bool {
    struct TW(std::thread::Thread);
    impl std::task::Wake for TW {
        fn wake(self: std::sync::Arc<Self>) {
            self.0.unpark();
        }
    }
    let waker = std::task::Waker::from(std::sync::Arc::new(TW(std::thread::current())));
    let mut cx = std::task::Context::from_waker(&waker);
    let t0 = Instant::now();
    loop {
        if let std::task::Poll::Ready(()) = std::future::Future::poll(f.as_mut(), &mut cx) {
            return true;
        }
        if t0.elapsed() > timeout {
            return false;
        }
        std::thread::park_timeout(Duration::from_millis(1));
    }
}

#[derive(Default)]
struct TraceOutcome {
    oracle: Option<(String, String)>,
    /// requests for the Lean specification predicates, with a label
    spec: Vec<(String, String)>,
    delivered: usize,
    overflow: u64,
    flushes_done: usize,
}

fn ent(id: u64) -> String {
    format!("{}.{}", id / 1_000_000, id % 1_000_000)
}

fn run_trace(tc: &TraceCase) -> TraceOutcome {
    use std::sync::Arc;
    let mut out = TraceOutcome::default();
    let built = build(tc.kind, tc.cap, Duration::from_micros(tc.interval_us), tc.backlog > 0);
    let gate = built.gate.clone();
    gate.slow_us.store(tc.slow_us, Ordering::Relaxed);
    gate.lock().fail_others = tc.seed % 3 == 0;
    let n_flushers = tc.flushers.max(1);
    let start = Arc::new(std::sync::Barrier::new(tc.producers + n_flushers + 1));
    let mut rng = Rng::new(tc.seed);
    let fut_timeout = if TRACE_FAILURES.load(Ordering::SeqCst) > 0 { Duration::from_secs(3) } else { Duration::from_secs(20) };
    // backlog phase: the stream is shut, an extra producer fills the ring, a flush is requested
    let mut backlog_rec: Vec<(u64, Res, u64, u64)> = vec![];
    let mut backlog_flush: Option<(u64, Pin<Box<FlushWait>>)> = None;
    if tc.backlog > 0 {
        for k in 0..tc.backlog {
            let id = tc.producers as u64 * 1_000_000 + k as u64;
            let inv = gate.tick();
            built.handle.append(IdEntry { id, res: Res::Ok });
            let ret = gate.tick();
            backlog_rec.push((id, Res::Ok, inv, ret));
        }
        let inv = gate.tick();
        backlog_flush = Some((inv, Box::pin(built.handle.flush())));
        gate.open();
    }
    // (id, res, inv, ret) per producer
    let mut prod_threads = vec![];
    for p in 0..tc.producers {
        let h = built.handle.clone();
        let g = gate.clone();
        let st = start.clone();
        let mut r = rng.fork(p as u64);
        let (per, err_pct) = (tc.per, tc.err_pct);
        prod_threads.push(std::thread::spawn(move || {
            let mut rec = Vec::with_capacity(per);
            st.wait();
            for k in 0..per {
                let id = p as u64 * 1_000_000 + k as u64;
                let res = if r.below(100) < err_pct { if r.chance(1, 2) { Res::Validation } else { *r.pick(&IO_KINDS) } } else { Res::Ok };
                let inv = g.tick();
                h.append(IdEntry { id, res });
                let ret = g.tick();
                rec.push((id, res, inv, ret));
                match r.below(8) {
                    0 => std::thread::yield_now(),
                    1 => std::thread::sleep(Duration::from_micros(r.below(40))),
                    _ => {}
                }
            }
            rec
        }));
    }
    let mut flusher_threads = vec![];
    for fi in 0..n_flushers {
        let h = built.handle.clone();
        let g = gate.clone();
        let st = start.clone();
        let mut r = rng.fork(999 + fi as u64);
        let n = tc.flushes;
        flusher_threads.push(std::thread::spawn(move || {
            let mut rec = vec![];
            st.wait();
            for _ in 0..n {
                std::thread::sleep(Duration::from_micros(r.below(150)));
                let inv = g.tick();
                let fut = Box::pin(h.flush());
                let ok = block_on_timeout(fut, fut_timeout);
                let done = g.tick();
                rec.push((inv, done, ok));
            }
            rec
        }));
    }
    let main_handle = built.handle;
    let mut join = Some(built.join);
    start.wait();
    let mut begin_tick = u64::MAX;
    let mut return_tick = u64::MAX;
    let mut dropper: Option<JoinDropper> = None;
    if tc.mid {
        std::thread::sleep(Duration::from_micros(rng.below(400)));
        begin_tick = gate.tick();
        dropper = Some(JoinDropper::start(join.take().unwrap(), Duration::from_secs(30)));
    }
    let mut appended: Vec<(u64, Res, u64, u64)> = vec![];
    let mut per_prod: Vec<Vec<u64>> = vec![];
    for t in prod_threads {
        let rec = t.join().unwrap_or_default();
        per_prod.push(rec.iter().map(|r| r.0).collect());
        appended.extend(rec);
    }
    let mut flush_rec: Vec<(u64, u64, bool)> = vec![];
    for t in flusher_threads {
        flush_rec.extend(t.join().unwrap_or_default());
    }
    if let Some((inv, fut)) = backlog_flush.take() {
        let ok = block_on_timeout(fut, fut_timeout);
        let done = gate.tick();
        flush_rec.insert(0, (inv, done, ok));
    }
    if !backlog_rec.is_empty() {
        per_prod.push(backlog_rec.iter().map(|r| r.0).collect());
        appended.extend(backlog_rec);
    }
    let n_prod = per_prod.len();
    let total = appended.len();
    let mut fail = |out: &mut TraceOutcome, key: &str, what: String| {
        if out.oracle.is_none() {
            out.oracle = Some((key.to_string(), what));
        }
    };
    if !tc.mid {
        // every wake-up must get through: all entries are written or counted as overflow without any
        // further stimulus (with a 50 s interval nothing but `unpark` can wake the writer)
        let t0 = Instant::now();
        loop {
            let d = gate.lock().calls.iter().filter(|c| matches!(c, Call::Next(..))).count();
            let ov = built.counters.overflows.load(Ordering::SeqCst) as usize;
            if d + ov >= total {
                break;
            }
            if t0.elapsed() > fut_timeout {
                fail(&mut out, "queue:trace-stuck", format!("{} of {total} appended entries are neither written nor counted as overflow {} s after the last append (lost wake-up?)", total - d - ov, fut_timeout.as_secs()));
                break;
            }
            std::thread::sleep(Duration::from_micros(200));
        }
    }
    drop(main_handle);
    if dropper.is_none() {
        dropper = Some(JoinDropper::start(join.take().unwrap(), Duration::from_secs(30)));
    }
    let mut d = dropper.unwrap();
    if !d.finish(Duration::from_secs(40)) {
        fail(&mut out, "queue:c05-join-hangs", "drop(join_handle) did not return within 40 s".into());
        gate.open();
    } else if tc.mid {
        return_tick = gate.tick();
    }
    let (calls, stamps, closed, after_close) = {
        let g = gate.lock();
        (g.calls.clone(), g.stamps.clone(), g.closed, g.calls_after_close)
    };
    let ov = built.counters.overflows.load(Ordering::SeqCst);
    out.overflow = ov;
    // ---- oracles
    let by_id: std::collections::HashMap<u64, (Res, u64, u64)> = appended.iter().map(|a| (a.0, (a.1, a.2, a.3))).collect();
    let mut next_stamp: std::collections::HashMap<u64, u64> = Default::default();
    let mut last_k: Vec<Option<u64>> = vec![None; n_prod];
    for (i, c) in calls.iter().enumerate() {
        match c {
            Call::Next(id, res) => {
                match by_id.get(id) {
                    Some((r, _, _)) if r == res => {}
                    _ => fail(&mut out, "queue:c01-foreign-entry", format!("the stream received entry {id} which nobody appended like that")),
                }
                if next_stamp.insert(*id, stamps[i]).is_some() {
                    fail(&mut out, "queue:c01-duplicate", format!("entry {} was handed to the stream twice", ent(*id)));
                }
                let (p, k) = ((*id / 1_000_000) as usize, *id % 1_000_000);
                if p < last_k.len() {
                    if let Some(l) = last_k[p] {
                        if k < l {
                            fail(&mut out, "queue:c01-order", format!("producer {p}: entry {k} reached the stream after entry {l}"));
                        }
                    }
                    last_k[p] = Some(k);
                }
            }
            Call::Report => {
                if !(i > 0 && matches!(calls[i - 1], Call::Next(_, Res::Validation))) {
                    fail(&mut out, "queue:c01-report", "an in-band error report was written, but not directly after a validation failure".into());
                }
            }
            Call::Unknown => fail(&mut out, "queue:c01-foreign-entry", "the stream received an entry nobody appended".into()),
            Call::Flush => {}
        }
    }
    out.delivered = next_stamp.len();
    let lost: Vec<u64> = appended.iter().filter(|a| !next_stamp.contains_key(&a.0)).map(|a| a.0).collect();
    if !tc.mid && out.oracle.is_none() {
        if lost.len() as u64 != ov {
            fail(&mut out, if ov == 0 { "queue:c01-lost" } else { "queue:c09-counter" },
                format!("{} appended entries never reached the stream, but metrique_queue_overflows = {ov}", lost.len()));
        }
        if tc.cap >= total && ov > 0 {
            fail(&mut out, "queue:c09-lost-without-cause", format!("overflow counted ({ov}) although the capacity {} was never exceeded ({total} entries)", tc.cap));
        }
    }
    if tc.mid && out.oracle.is_none() {
        // appended (returned) before the drop began and not written: only overflow may explain it
        let lost_before = appended.iter().filter(|a| a.3 < begin_tick && !next_stamp.contains_key(&a.0)).count() as u64;
        if lost_before > ov {
            fail(&mut out, "queue:c05-lost-before-shutdown", format!("{lost_before} entries whose append returned before drop(join_handle) began were never written, overflow counter {ov}"));
        }
        if let Some(a) = appended.iter().find(|a| a.2 > return_tick && next_stamp.contains_key(&a.0)) {
            fail(&mut out, "queue:c05-written-after-exit", format!("entry {} was appended after drop(join_handle) returned but was written", ent(a.0)));
        }
    }
    if return_tick != u64::MAX || !tc.mid {
        if !closed {
            fail(&mut out, "queue:c05-join-before-close", "drop(join_handle) returned but the stream was not dropped".into());
        } else if calls.last() != Some(&Call::Flush) {
            fail(&mut out, "queue:c05-no-final-flush", "the stream was dropped without a final flush after the last entry".into());
        }
        if after_close > 0 {
            fail(&mut out, "queue:c05-call-after-close", "the stream was called after it had been dropped".into());
        }
    }
    // flush barrier
    for (fi, (inv, done, ok)) in flush_rec.iter().enumerate() {
        if !ok {
            fail(&mut out, "queue:c04-flush-never-completes", format!("flush future {fi} did not complete within {} s", fut_timeout.as_secs()));
            continue;
        }
        out.flushes_done += 1;
        if *inv > begin_tick {
            continue; // requested after the shutdown had begun: the barrier is promised for a live queue only
        }
        // (a request made before drop(join_handle) began is judged also when it completes during or at
        // the end of the shutdown: the default 30 s shutdown_timeout never fires here)
        let before: Vec<u64> = appended.iter().filter(|a| a.3 < *inv).map(|a| a.0).collect();
        let mut last = 0u64;
        for id in &before {
            match next_stamp.get(id) {
                Some(s) if s < done => last = last.max(*s + 1),
                Some(_) => fail(&mut out, "queue:c04-flush-barrier", format!("flush future {fi} completed before entry {}, appended before the request, was handed to the stream", ent(*id))),
                None => {} // lost to overflow (accounted above)
            }
        }
        let flushed = calls.iter().zip(stamps.iter()).any(|(c, s)| *c == Call::Flush && *s >= last && s < done);
        if !flushed {
            fail(&mut out, "queue:c04-flush-barrier", format!("flush future {fi} completed but the stream was not flushed after the last entry appended before the request"));
        }
        // the Lean predicate on the same data
        let calls_before: Vec<String> = calls.iter().zip(stamps.iter()).filter(|(_, s)| *s < done).filter_map(|(c, _)| match c {
            Call::Next(id, _) => Some(format!("n.{}", ent(*id))),
            Call::Flush => Some("f".to_string()),
            Call::Report => Some("r".to_string()),
            Call::Unknown => None,
        }).collect();
        let lst = |v: Vec<String>| if v.is_empty() { "-".to_string() } else { v.join(" ") };
        out.spec.push((
            format!("barrier of flush {fi}"),
            format!("barrier | {} | {} | {}", lst(before.iter().map(|i| ent(*i)).collect()), lst(lost.iter().map(|i| ent(*i)).collect()), lst(calls_before)),
        ));
    }
    // the Lean order predicate
    let pushes: Vec<String> = per_prod.iter().flatten().map(|i| ent(*i)).collect();
    let deliv: Vec<String> = calls.iter().filter_map(|c| if let Call::Next(id, _) = c { Some(ent(*id)) } else { None }).collect();
    let overflowed = ov > 0 || tc.mid;
    let lst = |v: Vec<String>| if v.is_empty() { "-".to_string() } else { v.join(" ") };
    if out.oracle.is_some() {
        TRACE_FAILURES.fetch_add(1, Ordering::SeqCst);
    }
    out.spec.push((
        "order".into(),
        format!("order {} {} {} | {} | {}", n_prod, overflowed as u8, (!overflowed) as u8, lst(pushes), lst(deliv)),
    ));
    out
}


// ------------------------------------------------------------------------------------------------
// C09: where does the overflow count go? Every public way of attaching a recorder, overflows before and
// after the process-global recorder is installed, inside and outside `with_local_recorder` scopes.
// Oracle: every discard is counted by the recorder that is current WHEN it happens (for the routes that
// use the current recorder), by the builder's own recorder (local route), by nobody (no recorder).
// Must run before anything else installs a global metrics recorder in this process (nothing else does).

fn wait_until(mut f: impl FnMut() -> bool, timeout: Duration) -> bool {
    let t0 = Instant::now();
    while !f() {
        if t0.elapsed() > timeout {
            return f();
        }
        std::thread::sleep(Duration::from_micros(200));
    }
    true
}

fn recorder_stage(args: &Args, rep: &mut Report, seed: u64) {
    struct Q {
        kind: Kind,
        route: Route,
        cap: usize,
        handle: Option<Handle>,
        join: Option<metrique_writer::sink::BackgroundQueueJoinHandle>,
        gate: std::sync::Arc<GateShared>,
        local: CountRecorder,
        local_expected: u64,
        appended: u64,
        built_after_install: bool,
    }
    let mut rng = Rng::new(seed ^ 0xc09c09);
    let global = CountRecorder::default();
    let mut global_expected = 0u64;
    let mut installed = false;
    let mut scopes: Vec<(CountRecorder, u64)> = (0..3).map(|_| (CountRecorder::default(), 0u64)).collect();
    let mut qs: Vec<Q> = vec![];
    let mut steps: Vec<String> = vec![];
    let mut failure: Option<String> = None;

    let mut build_q = |qs: &mut Vec<Q>, steps: &mut Vec<String>, rng: &mut Rng, kind: Kind, route: Route, after: bool| -> bool {
        let cap = rng.range(1, 3) as usize;
        let local = CountRecorder::default();
        let (handle, join, gate) = build_route(kind, cap, route, local.clone());
        // prime: the writer takes one entry and is held inside `next`; then the ring is filled
        handle.append(IdEntry { id: 0, res: Res::Ok });
        let ok = wait_until(|| gate.lock().entered == 1, Duration::from_secs(20));
        for i in 0..cap {
            handle.append(IdEntry { id: 1 + i as u64, res: Res::Ok });
        }
        steps.push(format!("build q{} {} {} cap={}", qs.len(), kind.name(), route.name(), cap));
        qs.push(Q { kind, route, cap, handle: Some(handle), join: Some(join), gate, local, local_expected: 0, appended: 1 + cap as u64, built_after_install: after });
        ok
    };

    let routes = [Route::Global, Route::Local, Route::LocalThenNone, Route::NoneThenGlobal, Route::Global];
    for (i, route) in routes.iter().enumerate() {
        let kind = if (i + rng.below(2) as usize) % 2 == 0 { Kind::Typed } else { Kind::Boxed };
        if !build_q(&mut qs, &mut steps, &mut rng, kind, *route, false) {
            failure = Some("the writer did not take the first entry within 20 s".into());
        }
    }
    let n1 = rng.range(8, 16);
    let n2 = rng.range(10, 20);
    let total_steps = n1 + n2;
    for step in 0..total_steps {
        if failure.is_some() {
            break;
        }
        if step == n1 {
            // the process-global recorder is installed now (after queues were built and have overflowed:
            // the order the documentation recommends)
            match metrics_024::set_global_recorder(global.clone()) {
                Ok(()) => {
                    installed = true;
                    steps.push("install global recorder".into());
                }
                Err(_) => {
                    rep.notes.push("recorder stage: a global metrics recorder was already installed in this process; the 'after install' half is skipped".into());
                    break;
                }
            }
            for route in [Route::Global, Route::NoneThenGlobal] {
                let kind = if rng.chance(1, 2) { Kind::Typed } else { Kind::Boxed };
                build_q(&mut qs, &mut steps, &mut rng, kind, route, true);
            }
        }
        let qi = rng.below(qs.len() as u64) as usize;
        let k = rng.range(1, 3);
        let scope = if rng.chance(1, 2) { Some(rng.below(scopes.len() as u64) as usize) } else { None };
        let q = &mut qs[qi];
        let h = q.handle.as_ref().unwrap();
        let base = q.appended;
        let do_appends = || {
            for j in 0..k {
                h.append(IdEntry { id: base + j, res: Res::Ok });
            }
        };
        match scope {
            Some(si) => metrics_024::with_local_recorder(&scopes[si].0, do_appends),
            None => do_appends(),
        }
        q.appended += k;
        // who must have counted these k discards?
        match q.route {
            Route::Local => q.local_expected += k,
            Route::LocalThenNone => {}
            Route::Global | Route::NoneThenGlobal => match scope {
                Some(si) => scopes[si].1 += k,
                None => {
                    if installed {
                        global_expected += k
                    }
                }
            },
        }
        steps.push(format!("q{qi} discards {k} {}", scope.map(|s| format!("inside with_local_recorder(L{s})")).unwrap_or_else(|| "outside any scope".into())));
        // check every recorder after every step
        let mut bad = vec![];
        let g = global.0.overflows.load(Ordering::SeqCst);
        if g != global_expected {
            bad.push(format!("the global recorder has metrique_queue_overflows = {g}, expected {global_expected}"));
        }
        for (si, (r, e)) in scopes.iter().enumerate() {
            let v = r.0.overflows.load(Ordering::SeqCst);
            if v != *e {
                bad.push(format!("scope recorder L{si} has {v}, expected {e}"));
            }
        }
        for (i, q) in qs.iter().enumerate() {
            let v = q.local.0.overflows.load(Ordering::SeqCst);
            if v != q.local_expected {
                bad.push(format!("the recorder given to q{i}'s builder has {v}, expected {}", q.local_expected));
            }
        }
        if !bad.is_empty() {
            failure = Some(format!("after step '{}': {}", steps.last().unwrap(), bad.join("; ")));
        }
    }
    // model: the number of discards of each queue
    let lines: Vec<String> = qs.iter().map(|q| format!("script 0 new:{} {}", q.cap, vec!["append:0:o"; q.appended as usize].join(" "))).collect();
    if let Some(replies) = predict(args, &lines) {
        for (q, r) in qs.iter().zip(replies.iter()) {
            let model_ov = r.rsplit(';').next().and_then(|o| o.split(' ').find_map(|f| f.strip_prefix("ov="))).and_then(|v| v.parse::<u64>().ok());
            let reference = q.appended - 1 - q.cap as u64;
            if model_ov != Some(reference) {
                rep.disagreement("queue/recorders-discards", &format!("script 0 new:{} append×{}", q.cap, q.appended), &reference.to_string(), &format!("{model_ov:?}"));
            }
        }
    } else {
        rep.driver_available = false;
    }
    let case = format!("recorders seed={seed} :: {}", steps.join(" | "));
    let n_after = qs.iter().filter(|q| q.built_after_install).count();
    rep.case(&case, installed && n_after > 0);
    rep.bump("recorder stage: queues");
    rep.bump_by("recorder stage: discard steps", total_steps);
    for q in &qs {
        rep.bump(&format!("recorder route:{}:{}", q.route.name(), q.kind.name()));
    }
    if let Some(what) = failure {
        rep.oracle_failure("queue:c09-recorder-routing", &case, "-", &what);
    }
    // cleanup
    for q in qs.iter_mut() {
        q.gate.open();
        q.handle = None;
    }
    for q in qs.iter_mut() {
        if let Some(j) = q.join.take() {
            let mut d = JoinDropper::start(j, Duration::from_secs(30));
            d.finish(Duration::from_secs(30));
        }
    }
}

// ------------------------------------------------------------------------------------------------
// C01: the in-band error report is written only while NO tracing subscriber is installed — decided at
// every report. The check in the code runs on the writer thread, so the subscriber must be the
// process-global default, which can be installed once and never removed: this stage runs LAST.

fn subscriber_stage(args: &Args, rep: &mut Report) {
    let reports = |g: &std::sync::Arc<GateShared>| g.lock().calls.iter().filter(|c| **c == Call::Report).count();
    let nexts = |g: &std::sync::Arc<GateShared>| g.lock().calls.iter().filter(|c| matches!(c, Call::Next(..))).count();
    let mut what: Option<String> = None;
    // phase A: validation failures with no subscriber (a report may be written, at most one per second)
    let a = build(Kind::Typed, 64, QUIET_INTERVAL, false);
    let n_before = 3u64;
    for i in 0..n_before {
        a.handle.append(IdEntry { id: i, res: Res::Validation });
    }
    if !wait_until(|| nexts(&a.gate) == n_before as usize, Duration::from_secs(20)) {
        what = Some("phase A: the entries did not reach the stream within 20 s".into());
    }
    let reports_before = reports(&a.gate);
    // install the process-global subscriber
    let errors = std::sync::Arc::new(std::sync::atomic::AtomicU64::new(0));
    let installed = tracing::subscriber::set_global_default(ErrorEventCounter(errors.clone())).is_ok();
    if !installed {
        rep.notes.push("subscriber stage: a global tracing subscriber was already installed; stage skipped".into());
        return;
    }
    // phase B: more validation failures, on the old queue and on new typed / boxed ones, until the
    // subscriber has seen the writer's error event (the rate limiter lets one through per second)
    let b1 = build(Kind::Boxed, 64, QUIET_INTERVAL, false);
    let b2 = build(Kind::Typed, 64, SHORT_INTERVAL, false);
    let queues = [&a, &b1, &b2];
    let mut sent = [n_before, 0u64, 0u64];
    let t0 = Instant::now();
    let mut n_after = 0u64;
    while what.is_none() {
        for (qi, q) in queues.iter().enumerate() {
            q.handle.append(IdEntry { id: sent[qi], res: Res::Validation });
            sent[qi] += 1;
            n_after += 1;
            let want = sent[qi] as usize;
            if !wait_until(|| nexts(&q.gate) == want, Duration::from_secs(20)) {
                what = Some("phase B: an entry did not reach the stream within 20 s".into());
            }
        }
        let after: usize = reports(&a.gate) - reports_before + reports(&b1.gate) + reports(&b2.gate);
        if after > 0 {
            what = Some(format!(
                "{after} in-band error report(s) were written to the stream although a tracing subscriber is installed (the subscriber saw {} error events)",
                errors.load(Ordering::SeqCst)
            ));
        }
        // two error events = the limiter has opened at least twice since the subscriber exists
        let seen = errors.load(Ordering::SeqCst);
        if seen >= 2 || (seen >= 1 && t0.elapsed() > Duration::from_secs(4)) || t0.elapsed() > Duration::from_secs(30) {
            break;
        }
        std::thread::sleep(Duration::from_millis(150));
    }
    if what.is_none() && errors.load(Ordering::SeqCst) == 0 {
        what = Some(format!("a tracing subscriber is installed but saw no error event for {n_after} validation failures in {:.1} s", t0.elapsed().as_secs_f64()));
    }
    let reports_after: usize = reports(&a.gate) - reports_before + reports(&b1.gate) + reports(&b2.gate);
    let case = format!("subscribed {n_before} {n_after}");
    rep.case(&case, true);
    rep.bump_by("subscriber stage: validation failures after the subscriber was installed", n_after);
    rep.bump_by("subscriber stage: error events seen by the subscriber", errors.load(Ordering::SeqCst));
    rep.bump_by("subscriber stage: reports written before the subscriber was installed", reports_before as u64);
    if let Some(w) = what {
        rep.oracle_failure("queue:c01-report-with-subscriber", &case, &format!("reports_before={reports_before} reports_after={reports_after}"), &w);
    }
    // the model: same numbers of failures before / after `setSubscriber true`, the limiter always open
    match predict(args, &[case.clone()]) {
        Some(r) => {
            let get = |k: &str| r[0].split(' ').find_map(|f| f.strip_prefix(k)).and_then(|v| v.parse::<usize>().ok());
            let (mb, ma) = (get("reports_before="), get("reports_after="));
            // the real limiter admits at most what the always-open one admits; after the installation: equal
            if ma != Some(reports_after) || mb.map(|m| reports_before > m).unwrap_or(true) {
                rep.disagreement("queue/subscriber", &case, &format!("reports_before={reports_before} reports_after={reports_after}"), &r[0]);
            }
        }
        None => rep.driver_available = false,
    }
    // cleanup (plain blocking drops: the streams accept everything)
    for q in [a, b1, b2] {
        drop(q.handle);
        drop(q.join);
    }
}


// ------------------------------------------------------------------------------------------------
// C01: "rate-limited". One validation failure, a quiet period, then a burst of validation failures within a
// few milliseconds: the number of in-band reports written during the burst is bounded by the limiter model
// (`Limiter.windowBound`, theorem `c01_limiter_bound`: at most ⌊d⌋ + 2 in a window of d seconds).
// Runs while nothing else in the process produces validation failures, and before the subscriber stage.

fn limiter_stage(args: &Args, rep: &mut Report) {
    let reports = |g: &std::sync::Arc<GateShared>| g.lock().calls.iter().filter(|c| **c == Call::Report).count();
    let nexts = |g: &std::sync::Arc<GateShared>| g.lock().calls.iter().filter(|c| matches!(c, Call::Next(..))).count();
    let a = build(Kind::Typed, 64, QUIET_INTERVAL, false);
    let b = build(Kind::Boxed, 64, QUIET_INTERVAL, false);
    a.handle.append(IdEntry { id: 0, res: Res::Validation });
    if !wait_until(|| nexts(&a.gate) == 1, Duration::from_secs(20)) {
        rep.oracle_failure("queue:c01-lost", "limiter-stage", "-", "an entry did not reach the stream within 20 s");
        return;
    }
    // the quiet period (a lower bound on elapsed time, nothing is waited for)
    std::thread::sleep(Duration::from_millis(4200));
    let before = reports(&a.gate) + reports(&b.gate);
    let burst = 8u64;
    let t0 = Instant::now();
    for i in 0..burst {
        if i % 2 == 0 {
            a.handle.append(IdEntry { id: 1 + i, res: Res::Validation });
        } else {
            b.handle.append(IdEntry { id: 1 + i, res: Res::Validation });
        }
    }
    let ok = wait_until(|| nexts(&a.gate) + nexts(&b.gate) == 1 + burst as usize, Duration::from_secs(20));
    let d_ms = t0.elapsed().as_millis() as u64 + 1;
    let n = reports(&a.gate) + reports(&b.gate) - before;
    let case = format!("limiter burst={burst} window_ms={d_ms}");
    rep.case(&case, true);
    rep.bump_by("limiter stage: reports written during the burst", n as u64);
    if !ok {
        rep.oracle_failure("queue:c01-lost", &case, "-", "the burst did not reach the stream within 20 s");
    }
    match predict(args, &[format!("limiter {d_ms}")]) {
        Some(r) => {
            let bound = r[0].strip_prefix("bound=").and_then(|v| v.parse::<usize>().ok());
            match bound {
                Some(bound) if n > bound => rep.oracle_failure(
                    "queue:c01-report-rate",
                    &case,
                    &format!("reports={n}"),
                    &format!("{n} in-band error reports were written within {d_ms} ms after a quiet period; a limiter of one per second admits at most {bound} in such a window"),
                ),
                Some(_) => {}
                None => rep.disagreement("queue/limiter", &case, "-", &r[0]),
            }
        }
        None => rep.driver_available = false,
    }
    for q in [a, b] {
        drop(q.handle);
        drop(q.join);
    }
}

// ------------------------------------------------------------------------------------------------
// C09: "appending neither blocks nor fails" — also when the (rate-limited) overflow log event is being
// handled: (b) one producer is held inside the tracing subscriber's `event` for the overflow error while a
// second producer makes overflowing appends; (a) the subscriber's `event` itself appends to the same full
// queue (re-entrancy). Every append must return within a bounded time. The subscribers are thread-scoped
// (`with_default` on the producer threads only): the rest of the process keeps having no subscriber.

struct OverflowEventSub {
    seen: std::sync::Arc<std::sync::atomic::AtomicBool>,
    /// (b): block inside `event` until released
    hold: Option<std::sync::Arc<(std::sync::Mutex<bool>, std::sync::Condvar)>>,
    /// (a): append to the same queue from inside `event`
    reenter: Option<std::sync::Mutex<Option<Handle>>>,
    busy: std::sync::atomic::AtomicBool,
}

impl tracing::Subscriber for OverflowEventSub {
    fn enabled(&self, _: &tracing::Metadata<'_>) -> bool {
        true
    }
    fn new_span(&self, _: &tracing::span::Attributes<'_>) -> tracing::span::Id {
        tracing::span::Id::from_u64(1)
    }
    fn record(&self, _: &tracing::span::Id, _: &tracing::span::Record<'_>) {}
    fn record_follows_from(&self, _: &tracing::span::Id, _: &tracing::span::Id) {}
    fn event(&self, e: &tracing::Event<'_>) {
        let m = e.metadata();
        if *m.level() != tracing::Level::ERROR || !m.file().map(|f| f.ends_with("background.rs")).unwrap_or(false) {
            return;
        }
        if self.busy.swap(true, Ordering::SeqCst) {
            return; // nested event of our own re-entrant append
        }
        self.seen.store(true, Ordering::SeqCst);
        if let Some(h) = &self.hold {
            let (m, cv) = &**h;
            let mut released = m.lock().unwrap_or_else(|e| e.into_inner());
            let t0 = Instant::now();
            while !*released && t0.elapsed() < Duration::from_secs(60) {
                released = cv.wait_timeout(released, Duration::from_millis(100)).unwrap_or_else(|e| e.into_inner()).0;
            }
        }
        if let Some(r) = &self.reenter {
            if let Some(h) = r.lock().unwrap_or_else(|e| e.into_inner()).as_ref() {
                h.append(IdEntry { id: 999_999, res: Res::Ok });
            }
        }
        self.busy.store(false, Ordering::SeqCst);
    }
    fn enter(&self, _: &tracing::span::Id) {}
    fn exit(&self, _: &tracing::span::Id) {}
}

fn overflow_event_stage(rep: &mut Report) {
    use std::sync::atomic::AtomicBool;
    use std::sync::{Arc, Condvar, Mutex};
    let bound = Duration::from_secs(10);
    let built = build(Kind::Typed, 2, QUIET_INTERVAL, true);
    built.handle.append(IdEntry { id: 0, res: Res::Ok });
    if !wait_until(|| built.gate.lock().entered == 1, Duration::from_secs(20)) {
        rep.notes.push("overflow-event stage: the writer did not take the first entry; stage skipped".into());
        return;
    }
    built.handle.append(IdEntry { id: 1, res: Res::Ok });
    built.handle.append(IdEntry { id: 2, res: Res::Ok }); // the ring (capacity 2) is full: every append displaces one
    let mut failure: Option<String> = None;
    // producer thread: overflowing appends every 100 ms until its subscriber has seen the overflow event
    let spawn_producer = |sub: OverflowEventSub, h: Handle, seen: Arc<AtomicBool>, done: Arc<AtomicBool>| {
        std::thread::spawn(move || {
            tracing::subscriber::with_default(sub, || {
                let t0 = Instant::now();
                let mut i = 10u64;
                while !seen.load(Ordering::SeqCst) && t0.elapsed() < Duration::from_secs(4) {
                    h.append(IdEntry { id: i, res: Res::Ok });
                    i += 1;
                    if !seen.load(Ordering::SeqCst) {
                        std::thread::sleep(Duration::from_millis(100));
                    }
                }
            });
            done.store(true, Ordering::SeqCst);
        })
    };
    // ---- (b) a producer is held inside the overflow event; a second producer appends
    let hold = Arc::new((Mutex::new(false), Condvar::new()));
    let (seen_b, done_b) = (Arc::new(AtomicBool::new(false)), Arc::new(AtomicBool::new(false)));
    let sub_b = OverflowEventSub { seen: seen_b.clone(), hold: Some(hold.clone()), reenter: None, busy: AtomicBool::new(false) };
    let tb = spawn_producer(sub_b, built.handle.clone(), seen_b.clone(), done_b.clone());
    let held = wait_until(|| seen_b.load(Ordering::SeqCst) || done_b.load(Ordering::SeqCst), Duration::from_secs(10)) && seen_b.load(Ordering::SeqCst);
    if held {
        let done_c = Arc::new(AtomicBool::new(false));
        let (h, d) = (built.handle.clone(), done_c.clone());
        let tc = std::thread::spawn(move || {
            for i in 0..3u64 {
                h.append(IdEntry { id: 100 + i, res: Res::Ok });
            }
            d.store(true, Ordering::SeqCst);
        });
        if !wait_until(|| done_c.load(Ordering::SeqCst), bound) {
            failure = Some(format!(
                "overflowing appends of a second producer did not return within {} s while another producer was inside the rate-limited overflow log event",
                bound.as_secs()
            ));
        }
        *hold.0.lock().unwrap_or_else(|e| e.into_inner()) = true;
        hold.1.notify_all();
        if wait_until(|| done_c.load(Ordering::SeqCst), bound) {
            let _ = tc.join();
        }
        rep.bump("overflow-event stage: second producer appended while the first was held in the event");
    } else {
        rep.notes.push("overflow-event stage: the overflow log event was not seen by the thread-scoped subscriber within 4 s (b)".into());
        *hold.0.lock().unwrap_or_else(|e| e.into_inner()) = true;
        hold.1.notify_all();
    }
    if wait_until(|| done_b.load(Ordering::SeqCst), bound) {
        let _ = tb.join();
    } else if failure.is_none() {
        failure = Some("the producer held inside the overflow log event did not return after it was released".into());
    }
    // ---- (a) the subscriber appends to the same full queue from inside the event
    let (seen_a, done_a) = (Arc::new(AtomicBool::new(false)), Arc::new(AtomicBool::new(false)));
    let sub_a = OverflowEventSub { seen: seen_a.clone(), hold: None, reenter: Some(Mutex::new(Some(built.handle.clone()))), busy: AtomicBool::new(false) };
    let ta = spawn_producer(sub_a, built.handle.clone(), seen_a.clone(), done_a.clone());
    if wait_until(|| done_a.load(Ordering::SeqCst), Duration::from_secs(4) + bound) {
        let _ = ta.join();
        if seen_a.load(Ordering::SeqCst) {
            rep.bump("overflow-event stage: re-entrant append from the event returned");
        } else {
            rep.notes.push("overflow-event stage: the overflow log event was not seen within 4 s (a)".into());
        }
    } else if failure.is_none() {
        failure = Some(format!(
            "an append made from inside the tracing subscriber's handling of the overflow log event (re-entrancy) did not return within {} s",
            bound.as_secs()
        ));
    }
    let case = "overflow-event (b) held-in-event + second producer, (a) re-entrant append";
    rep.case(case, held);
    if let Some(w) = failure {
        rep.oracle_failure("queue:c09-append-blocks", case, "-", &w);
    }
    built.gate.open();
    drop(built.handle);
    let mut d = JoinDropper::start(built.join, Duration::from_secs(30));
    d.finish(Duration::from_secs(30));
}


// ------------------------------------------------------------------------------------------------
// C05: the shutdown contract for queues built with extreme but legal builder values. Rust oracle from the
// statement: `drop(join_handle)` returns (without panicking) only after every entry appended before it has
// been handed to the stream, in order, the stream has been flushed and dropped; the forget path likewise once
// the last handle is gone. (Fewer than 32 entries, so that not even a 1 ns shutdown_timeout may cut the drain.)

#[derive(Clone, Debug)]
struct ExtremeCase {
    kind: Kind,
    cap: usize,
    interval_ns: u64,
    timeout: Timeout,
    recorder: bool,
    named: bool,
    slow_us: u64,
    forget: bool,
    n: usize,
}

impl ExtremeCase {
    fn encode(&self) -> String {
        format!(
            "extreme {} {} {} {} {} {} {} {} {}",
            self.kind.name(), self.cap, self.interval_ns, self.timeout.name(), self.recorder as u8, self.named as u8, self.slow_us, self.forget as u8, self.n
        )
    }
    fn decode(l: &str) -> Option<ExtremeCase> {
        let w: Vec<&str> = l.split_whitespace().collect();
        if w.len() != 10 || w[0] != "extreme" {
            return None;
        }
        Some(ExtremeCase {
            kind: if w[1] == "typed" { Kind::Typed } else { Kind::Boxed },
            cap: w[2].parse().ok()?,
            interval_ns: w[3].parse().ok()?,
            timeout: Timeout::parse(w[4])?,
            recorder: w[5] == "1",
            named: w[6] == "1",
            slow_us: w[7].parse().ok()?,
            forget: w[8] == "1",
            n: w[9].parse().ok()?,
        })
    }
}

fn run_extreme(c: &ExtremeCase) -> Option<String> {
    let cfg = ExtremeCfg { kind: c.kind, cap: c.cap, interval: Duration::from_nanos(c.interval_ns), timeout: c.timeout, recorder: c.recorder, named: c.named, slow_us: c.slow_us };
    let built = catch(|| build_extreme(&cfg));
    let (handle, join, gate) = match built {
        Ok(b) => b,
        Err(p) => return Some(format!("building the queue panicked: {p}")),
    };
    if c.n > 32 {
        // backlog mode (short interval): the writer is held inside its periodic stream flush, i.e. after its
        // last main-loop drain pass; the whole backlog is still queued when the shutdown begins, so the
        // final drain of `shut_down` has to write more than 32 entries (its clock check must not cut it)
        gate.set_fclosed(true);
        if !wait_until(|| gate.lock().fblocked == 1, Duration::from_secs(20)) {
            gate.open();
            return Some("the writer did not reach its periodic stream flush within 20 s".into());
        }
        for i in 0..c.n {
            handle.append(IdEntry { id: i as u64, res: Res::Ok });
        }
        let mut what = None;
        if c.forget {
            join.forget();
            drop(handle);
            gate.open();
            if !wait_until(|| gate.lock().closed, Duration::from_secs(30)) {
                what = Some("join handle forgotten and the last queue handle dropped, but the stream was not dropped within 30 s".to_string());
            }
        } else {
            let mut d = JoinDropper::start(join, Duration::from_secs(30));
            gate.open();
            if !d.finish(Duration::from_secs(30)) {
                what = Some("drop(join_handle) did not return within 30 s although the stream accepts everything".to_string());
            } else if d.panicked.load(Ordering::SeqCst) {
                what = Some("drop(join_handle) panicked".to_string());
            }
            drop(handle);
        }
        let g = gate.lock();
        let written: Vec<u64> = g.calls.iter().filter_map(|c| if let Call::Next(id, _) = c { Some(*id) } else { None }).collect();
        let want: Vec<u64> = (0..c.n as u64).collect();
        if what.is_none() {
            if !g.closed {
                what = Some("the shutdown completed but the stream was not dropped".into());
            } else if written != want {
                what = Some(format!(
                    "only {} of the {} entries appended before the shutdown began were written (shutdown_timeout {}): the rest was dropped silently",
                    written.len(), c.n, c.timeout.name()
                ));
            } else if g.calls.last() != Some(&Call::Flush) {
                what = Some("the stream was dropped without a final flush after the last entry".into());
            }
        }
        return what;
    }
    // the writer takes the first entry and is held inside `next`; the others wait in the ring (no overflow)
    handle.append(IdEntry { id: 0, res: Res::Ok });
    if !wait_until(|| gate.lock().entered == 1, Duration::from_secs(20)) {
        gate.open();
        return Some("the writer did not take the first entry within 20 s".into());
    }
    for i in 1..c.n {
        handle.append(IdEntry { id: i as u64, res: Res::Ok });
    }
    let mut what = None;
    if c.forget {
        join.forget();
        drop(handle);
        gate.open();
        if !wait_until(|| gate.lock().closed, Duration::from_secs(30)) {
            what = Some("join handle forgotten and the last queue handle dropped, but the stream was not dropped within 30 s".to_string());
        }
    } else {
        let mut d = JoinDropper::start(join, Duration::from_secs(30));
        if d.has_returned() && !gate.lock().closed {
            what = Some("drop(join_handle) returned although the writer is still held inside next()".to_string());
        }
        gate.open();
        if !d.finish(Duration::from_secs(30)) {
            what = Some("drop(join_handle) did not return within 30 s although the stream accepts everything".to_string());
        } else if d.panicked.load(Ordering::SeqCst) {
            what = Some("drop(join_handle) panicked".to_string());
        }
        drop(handle);
    }
    let g = gate.lock();
    let written: Vec<u64> = g.calls.iter().filter_map(|c| if let Call::Next(id, _) = c { Some(*id) } else { None }).collect();
    let want: Vec<u64> = (0..c.n as u64).collect();
    if what.is_none() {
        if !g.closed {
            what = Some("drop(join_handle) returned but the stream was not dropped".into());
        } else if written != want {
            what = Some(format!("{} of the {} entries appended before the shutdown were written (in order: {})", written.len(), c.n, written == want[..written.len().min(want.len())]));
        } else if g.calls.last() != Some(&Call::Flush) {
            what = Some("the stream was dropped without a final flush after the last entry".into());
        } else if g.calls_after_close > 0 {
            what = Some("the stream was called after it had been dropped".into());
        }
    } else if written != want {
        what = Some(format!("{}; {} of {} entries written, stream dropped: {}", what.unwrap(), written.len(), c.n, g.closed));
    }
    what
}

fn extremes_stage(args: &Args, rep: &mut Report, rng: &mut Rng) {
    let mut cases = vec![];
    if let Some(l) = args.replay_case() {
        cases.extend(ExtremeCase::decode(&l));
    } else {
        for kind in [Kind::Typed, Kind::Boxed] {
            for cap in [1usize, 2, 65_536] {
                for interval_ns in [1_000u64, 59_999_999_999] {
                    for timeout in Timeout::all() {
                        for (recorder, named) in [(false, false), (true, true), (true, false), (false, true)] {
                            let n = if cap == 1 { 2 } else { rng.range(2, (cap as u64 + 1).min(20)) as usize };
                            let slow_us = *rng.pick(&[0u64, 0, 20]);
                            cases.push(ExtremeCase { kind, cap, interval_ns, timeout, recorder, named, slow_us, forget: false, n });
                            // the forget path is only noticed by the outer loop: short interval only
                            if interval_ns == 1_000 && rng.chance(1, 2) {
                                cases.push(ExtremeCase { kind, cap, interval_ns, timeout, recorder, named, slow_us, forget: true, n });
                            }
                        }
                    }
                }
            }
        }
    }
    if args.replay_case().is_none() {
        // backlogs of more than 32 entries still queued when the shutdown begins (timeouts that must never cut
        // the final drain; 1 ns legitimately may)
        for kind in [Kind::Typed, Kind::Boxed] {
            for timeout in [Timeout::Max, Timeout::HalfMax, Timeout::Default30s] {
                for n in [33usize, 64, 200] {
                    for forget in [false, true] {
                        cases.push(ExtremeCase { kind, cap: 65_536, interval_ns: 1_000, timeout, recorder: n == 64, named: n == 200, slow_us: 0, forget, n });
                    }
                }
            }
        }
    }
    let mut reported = 0;
    for c in &cases {
        let enc = c.encode();
        rep.case(&enc, true);
        rep.bump(&format!("extreme shutdown_timeout:{}", c.timeout.name()));
        if let Some(what) = run_extreme(c) {
            reported += 1;
            if reported <= 3 {
                rep.oracle_failure(&format!("queue:c05-extreme-{}", c.timeout.name()), &enc, "-", &what);
            }
        }
    }
    rep.bump_by("extreme builder values: queues", cases.len() as u64);
}

// ------------------------------------------------------------------------------------------------
// C04: many outstanding flush requests. The writer is held (inside `next`, or inside `flush`), one entry is
// unwritten, k flush requests are made from several threads: while the gate is shut NONE of the futures may
// be ready — whatever k is —; after it opens all complete, with the entry written and flushed before.

fn many_flushes(kind: Kind, k: usize, held_in_flush: bool) -> Option<String> {
    let built = build(kind, 4, QUIET_INTERVAL, true);
    let gate = built.gate.clone();
    if held_in_flush {
        // an entry is written, a first request makes the writer flush, the flush gate holds it there;
        // then the unwritten entry is appended
        gate.set_fclosed(true);
        gate.release(1);
        built.handle.append(IdEntry { id: 0, res: Res::Ok });
        let mut f0 = Box::pin(built.handle.flush());
        if !wait_until(|| gate.lock().fblocked == 1, Duration::from_secs(20)) {
            gate.open();
            return Some("the writer did not reach the stream flush of the first request within 20 s".into());
        }
        built.handle.append(IdEntry { id: 1, res: Res::Ok });
        if poll_once(&mut f0) {
            gate.open();
            return Some("the first flush future is ready while the writer is still inside the stream flush".into());
        }
        std::mem::forget(f0);
    } else {
        built.handle.append(IdEntry { id: 1, res: Res::Ok });
        if !wait_until(|| gate.lock().entered == 1, Duration::from_secs(20)) {
            gate.open();
            return Some("the writer did not take the entry within 20 s".into());
        }
    }
    // k requests from 4 threads
    let threads = 4usize;
    let mut joins = vec![];
    for t in 0..threads {
        let h = built.handle.clone();
        let n = k / threads + if t < k % threads { 1 } else { 0 };
        joins.push(std::thread::spawn(move || (0..n).map(|_| Box::pin(h.flush())).collect::<Vec<_>>()));
    }
    let mut futs: Vec<Pin<Box<FlushWait>>> = vec![];
    for j in joins {
        futs.extend(j.join().unwrap_or_default());
    }
    let mut what = None;
    // (a completed future must not be polled again)
    let all = futs.len();
    futs.retain_mut(|f| !poll_once(f));
    let early = all - futs.len();
    if early > 0 {
        what = Some(format!(
            "{early} of {k} flush futures are ready while the writer is held and entry 1, appended before every request, has not been handed to the stream"
        ));
    }
    gate.open();
    let mut pending: Vec<Pin<Box<FlushWait>>> = futs;
    let t0 = Instant::now();
    loop {
        pending.retain_mut(|f| !poll_once(f));
        if pending.is_empty() || t0.elapsed() > Duration::from_secs(30) {
            break;
        }
        std::thread::sleep(Duration::from_micros(500));
    }
    if what.is_none() {
        if !pending.is_empty() {
            what = Some(format!("{} of {k} flush futures did not complete within 30 s after the gate opened", pending.len()));
        } else {
            let g = gate.lock();
            match g.calls.iter().position(|c| matches!(c, Call::Next(1, _))) {
                None => what = Some("all flush futures completed but entry 1 was never handed to the stream".into()),
                Some(p) => {
                    if !g.calls[p + 1..].iter().any(|c| *c == Call::Flush) {
                        what = Some("all flush futures completed but the stream was not flushed after entry 1".into());
                    }
                }
            }
        }
    }
    drop(built.handle);
    let mut d = JoinDropper::start(built.join, Duration::from_secs(30));
    d.finish(Duration::from_secs(30));
    what
}

fn many_flushes_stage(args: &Args, rep: &mut Report) {
    let ks: &[usize] = if args.thorough() { &[2, 100, 1025, 3000, 10_000] } else { &[2, 100, 1025, 3000] };
    let mut reported = false;
    for &k in ks {
        for kind in [Kind::Typed, Kind::Boxed] {
            for held_in_flush in [false, true] {
                let case = format!("manyflush {} {k} {}", kind.name(), held_in_flush as u8);
                rep.case(&case, k > 1);
                rep.bump_by("outstanding flush requests", k as u64);
                if let Some(what) = many_flushes(kind, k, held_in_flush) {
                    if !reported {
                        reported = true;
                        rep.oracle_failure("queue:c04-flush-barrier", &case, "-", &what);
                    }
                }
            }
        }
    }
    // the model: the number of outstanding requests does not matter
    let k = 100;
    let line = format!("script 0 new:4 append:0:o {} gate:1000", vec!["flush"; k].join(" "));
    match predict(args, &[line.clone()]) {
        Some(r) => {
            let obs = split_obs(&r[0]);
            let before_ok = obs.iter().take(k + 2).all(|o| o.contains(" done=- "));
            let after_ok = obs.last().map(|o| !o.contains(" done=- ") && o.split(' ').find_map(|f| f.strip_prefix("done=")).map(|d| d.split(',').count() == k).unwrap_or(false)).unwrap_or(false);
            if !before_ok || !after_ok {
                rep.disagreement("queue/many-flushes", &line[..60.min(line.len())], "none ready while held, all ready after", obs.last().map(|s| s.as_str()).unwrap_or(""));
            }
        }
        None => rep.driver_available = false,
    }
}


// ------------------------------------------------------------------------------------------------
// C09: the configured capacity holds whatever the size of the entry type. A 64 KiB inline entry type,
// capacities around 64 MiB / size, a stalled writer: `capacity` appends all survive, k more discard exactly the
// k oldest, the counter says k. Judged by the model (same script, same capacity) and by the statement.

fn big_entry_stage(args: &Args, rep: &mut Report) {
    let caps: &[usize] = if args.thorough() { &[1023, 1024, 1025, 1200] } else { &[1023, 1025, 1200] };
    let k = 3usize;
    for &cap in caps {
        let case = format!("script 0 new:{cap} {} gate:100000 dropjoin drop:0", vec!["append:0:o"; 1 + cap + k].join(" "));
        let shown = format!("bigentry size={} script 0 new:{cap} append×{} gate:1000 dropjoin", std::mem::size_of::<BigEntry>(), 1 + cap + k);
        rep.case(&shown, true);
        let b = build_big(cap);
        b.queue.append(BigEntry::new(0));
        if !wait_until(|| b.gate.lock().entered == 1, Duration::from_secs(20)) {
            rep.oracle_failure("queue:c01-lost", &shown, "-", "the writer did not take the first entry within 20 s");
            b.gate.open();
            continue;
        }
        for i in 1..=(cap + k) as u64 {
            b.queue.append(BigEntry::new(i));
        }
        let ov = b.counters.overflows.load(Ordering::SeqCst);
        b.gate.open();
        let mut d = JoinDropper::start(b.join, Duration::from_secs(30));
        let joined = d.finish(Duration::from_secs(60));
        drop(b.queue);
        let written: Vec<u64> = b.gate.lock().calls.iter().filter_map(|c| if let Call::Next(id, _) = c { Some(*id) } else { None }).collect();
        // statement: an entry is lost only if at least `capacity` newer entries were appended while it was queued
        let mut want: Vec<u64> = vec![0];
        want.extend((k as u64 + 1)..=(cap + k) as u64);
        let what = if !joined {
            Some("drop(join_handle) did not return within 60 s".to_string())
        } else if ov != k as u64 {
            Some(format!("metrique_queue_overflows = {ov} after {} appends to a queue of capacity {cap} with a stalled writer, expected {k}", 1 + cap + k))
        } else if written != want {
            let lost: Vec<u64> = (0..=(cap + k) as u64).filter(|i| !written.contains(i)).collect();
            Some(format!(
                "{} entries were lost (first {:?}, last {:?}) although only the {k} oldest queued entries had {cap} newer entries behind them",
                lost.len(), lost.first(), lost.last()
            ))
        } else {
            None
        };
        if let Some(w) = what {
            rep.oracle_failure("queue:c09-capacity-not-honoured", &shown, &format!("ov={ov} written={}", written.len()), &w);
        }
        // the model: same script with the configured capacity
        match predict(args, &[case]) {
            Some(r) => {
                let last = r[0].rsplit(';').next().unwrap_or("").to_string();
                let impl_next = written.iter().map(|i| i.to_string()).collect::<Vec<_>>().join(",");
                let model_next = last.split(' ').find_map(|f| f.strip_prefix("next=")).unwrap_or("");
                let model_ov = last.split(' ').find_map(|f| f.strip_prefix("ov=")).unwrap_or("");
                if model_next != impl_next || model_ov != ov.to_string() {
                    rep.disagreement("queue/big-entry", &shown, &format!("written={} ov={ov}", written.len()), &format!("written={} ov={model_ov}", model_next.split(',').count()));
                }
            }
            None => rep.driver_available = false,
        }
        rep.bump(&format!("big entry type: capacity {cap}"));
    }
}

// ------------------------------------------------------------------------------------------------

fn split_obs(reply: &str) -> Vec<String> {
    reply.split(';').map(|s| s.to_string()).collect()
}

fn predict(args: &Args, lines: &[String]) -> Option<Vec<String>> {
    run_driver(&args.driver, "queue", lines)
}

struct GuidedResult {
    case: Case,
    pred: Vec<String>,
    typed: GuidedOutcome,
    boxed: GuidedOutcome,
}

fn run_guided_batch(cases: &[Case], preds: &[String], threads: usize, timeout: Duration, stop_after_bad: usize) -> Vec<GuidedResult> {
    use std::sync::atomic::AtomicUsize;
    let next = AtomicUsize::new(0);
    let bad = AtomicUsize::new(0);
    let oracle_found = AtomicUsize::new(0);
    let results: std::sync::Mutex<Vec<(usize, GuidedResult)>> = std::sync::Mutex::new(vec![]);
    std::thread::scope(|s| {
        for _ in 0..threads {
            s.spawn(|| {
                loop {
                    let i = next.fetch_add(1, Ordering::SeqCst);
                    let nbad = bad.load(Ordering::SeqCst);
                    // once something is wrong: keep looking for an oracle failure (a concrete failing input),
                    // but with short waits, and not for long
                    if i >= cases.len() || nbad >= stop_after_bad * 10 || (nbad >= stop_after_bad && oracle_found.load(Ordering::SeqCst) > 0) {
                        break;
                    }
                    let pred = split_obs(&preds[i]);
                    let to = if nbad >= 8 {
                        Duration::from_millis(300)
                    } else if nbad >= 2 {
                        timeout.min(Duration::from_secs(1))
                    } else {
                        timeout
                    };
                    let typed = run_guided(&cases[i], Kind::Typed, &pred, to);
                    let boxed = run_guided(&cases[i], Kind::Boxed, &pred, to);
                    if typed.oracle.is_some() || boxed.oracle.is_some() {
                        oracle_found.fetch_add(1, Ordering::SeqCst);
                    }
                    if typed.oracle.is_some() || boxed.oracle.is_some() || typed.timed_out_at.is_some() || boxed.timed_out_at.is_some() {
                        bad.fetch_add(1, Ordering::SeqCst);
                    }
                    results.lock().unwrap().push((i, GuidedResult { case: cases[i].clone(), pred, typed, boxed }));
                }
            });
        }
    });
    let mut v = results.into_inner().unwrap();
    v.sort_by_key(|(i, _)| *i);
    v.into_iter().map(|(_, r)| r).collect()
}

/// shrink a failing guided case (re-running the real queue, guided by fresh model predictions)
fn shrink_guided(args: &Args, case: &Case, kind: Kind, fails: impl Fn(&GuidedOutcome, &[String]) -> bool) -> Case {
    let t0 = Instant::now();
    let mut tried = 0;
    let ops = shrink_list(&case.ops[1..], |cand| {
        if tried >= 40 || t0.elapsed() > Duration::from_secs(30) {
            return false;
        }
        let mut ops = vec![case.ops[0].clone()];
        ops.extend_from_slice(cand);
        let c = Case { short: case.short, tiny: case.tiny, fail_others: case.fail_others, ops };
        if !c.valid() {
            return false;
        }
        let c = c.finished();
        let Some(p) = predict(args, &[c.encode()]) else { return false };
        if p[0] == "bad-op" || p[0] == "clock-dependent" {
            return false;
        }
        tried += 1;
        let pred = split_obs(&p[0]);
        let o = run_guided(&c, kind, &pred, Duration::from_millis(1500));
        fails(&o, &pred)
    });
    let mut all = vec![case.ops[0].clone()];
    all.extend(ops);
    Case { short: case.short, tiny: case.tiny, fail_others: case.fail_others, ops: all }.finished()
}

fn first_diff(obs: &[String], pred: &[String]) -> Option<usize> {
    (0..obs.len()).find(|&k| pred.get(k) != Some(&obs[k]))
}

fn main() {
    if std::env::var("VERIF_PANICS").is_err() {
        quiet_panics();
    }
    let args = Args::parse();
    let mut rep = Report::new(
        &args,
        "queue",
        "guided case = op script on a real typed and a real boxed BackgroundQueue over a gate stream; non-trivial = \
         the script makes the property's mechanism act (C09: at least one entry displaced; C01: >= 3 entries delivered \
         with at least one error result or a second handle; C05: dropjoin/forget with entries still queued or handles \
         cloned/dropped; C04: a flush requested while entries were queued); hww case = op sequence on the real \
         WakerTracker, non-trivial = at least one waker completed; trace case = run with real threads, non-trivial = \
         at least two producers with >= 10 entries in total, or a backlog behind a shut stream; distinct by case text",
    );
    let mut rng = Rng::new(args.seed);
    let prop = args.property.clone();
    let p = profile(&prop);
    let replay_line = args.replay_case();
    let only_stage = replay_line
        .as_ref()
        .map(|l| l.starts_with("recorders") || l.starts_with("subscribed") || l.starts_with("extreme") || l.starts_with("manyflush") || l.starts_with("limiter") || l.starts_with("overflow-event") || l.starts_with("bigentry"))
        .unwrap_or(false);
    // C09: the recorder-routing stage comes first (it installs the process-global metrics recorder)
    if prop == "C09" && (replay_line.is_none() || replay_line.as_ref().unwrap().starts_with("recorders")) {
        let seed = replay_line
            .as_ref()
            .and_then(|l| l.split("seed=").nth(1))
            .and_then(|r| r.split(' ').next())
            .and_then(|v| v.parse().ok())
            .unwrap_or(args.seed);
        recorder_stage(&args, &mut rep, seed);
    }
    if only_stage {
        let l = replay_line.as_ref().unwrap();
        if l.starts_with("subscribed") {
            subscriber_stage(&args, &mut rep);
        } else if l.starts_with("extreme") {
            extremes_stage(&args, &mut rep, &mut rng);
        } else if l.starts_with("manyflush") {
            many_flushes_stage(&args, &mut rep);
        } else if l.starts_with("limiter") {
            limiter_stage(&args, &mut rep);
        } else if l.starts_with("overflow-event") {
            overflow_event_stage(&mut rep);
        } else if l.starts_with("bigentry") {
            big_entry_stage(&args, &mut rep);
        }
        rep.write(&args);
        return;
    }

    let mut cases: Vec<Case> = vec![];
    let mut hww: Vec<String> = vec![];
    let mut traces: Vec<TraceCase> = vec![];
    if let Some(line) = args.replay_case() {
        let line = line.split(" ## ").next().unwrap_or("").to_string();
        if line.starts_with("hww") {
            hww.push(line);
        } else if line.starts_with("trace") {
            traces.extend(TraceCase::decode(&line));
        } else {
            cases.extend(Case::decode(&line).map(|c| c.finished()));
        }
    } else {
        for l in args.corpus_cases() {
            if l.starts_with("hww") {
                hww.push(l);
            } else if l.starts_with("trace") {
                traces.extend(TraceCase::decode(&l));
            } else if let Some(c) = Case::decode(&l) {
                cases.push(c.finished());
            } else {
                rep.notes.push(format!("corpus line not understood: {l}"));
            }
        }
        let n = match (prop.as_str(), args.thorough()) {
            ("C04", false) => 150,
            ("C04", true) => 20000,
            (_, false) => 300,
            (_, true) => 50000,
        };
        for _ in 0..n {
            cases.push(gen_case(&mut rng, &p));
        }
        if prop == "C04" {
            hww = hww_cases(&mut rng, args.thorough());
        }
        let n_tr = if args.thorough() { 10000 } else { 100 };
        let mut trng = rng.fork(77);
        for _ in 0..n_tr {
            traces.push(gen_trace(&mut trng, &prop));
        }
    }

    // ---- model predictions for all cases at once
    let lines: Vec<String> = cases.iter().map(|c| c.encode()).collect();
    let preds = if lines.is_empty() { Some(vec![]) } else { predict(&args, &lines) };
    let Some(preds) = preds else {
        rep.driver_available = false;
        rep.notes.push("model-guided runs need the Lean driver: nothing was run".into());
        rep.write(&args);
        return;
    };

    // scripts whose outcome depends on the wall clock (the model says where) are not run
    let mut kept_cases = vec![];
    let mut kept_preds = vec![];
    for (c, pr) in cases.into_iter().zip(preds.into_iter()) {
        if pr == "clock-dependent" {
            rep.bump("skipped:clock-dependent script");
        } else if pr == "bad-op" {
            rep.notes.push(format!("model rejected the script: {}", c.encode()));
            rep.disagreement("queue/script-wellformedness", &c.encode(), "accepted by the harness", "bad-op");
        } else {
            kept_cases.push(c);
            kept_preds.push(pr);
        }
    }
    let (cases, preds) = (kept_cases, kept_preds);
    let threads = if args.thorough() { 12 } else { 3 };
    let t_phase = Instant::now();
    let results = run_guided_batch(&cases, &preds, threads, Duration::from_secs(20), 3);
    rep.notes.push(format!("guided batch: {} of {} scripts run in {:.1} s", results.len(), cases.len(), t_phase.elapsed().as_secs_f64()));
    let t_phase = Instant::now();
    let mut max_append_us = 0u128;
    let mut reported_keys: BTreeSet<String> = BTreeSet::new();
    for gr in &results {
        let enc = gr.case.encode();
        // distribution + non-triviality from the model-independent facts of the run
        let displaced = gr.pred.last().map(|o| !o.contains(" ov=0 ")).unwrap_or(false);
        let n_app = gr.case.ops.iter().filter(|o| matches!(o, Op::Append(..))).count();
        let errs = gr.case.ops.iter().filter(|o| matches!(o, Op::Append(_, r) if *r != Res::Ok)).count();
        let clones = gr.case.ops.iter().filter(|o| matches!(o, Op::Clone(_))).count();
        let has_join_mid = gr.case.ops.iter().position(|o| matches!(o, Op::DropJoin | Op::DropJoinU | Op::DropJoinT | Op::Forget)).map(|i| {
            // entries still queued when the join handle goes: `ent` below the number appended so far
            let appended = gr.case.ops[..i].iter().filter(|o| matches!(o, Op::Append(..))).count();
            let delivered = gr.pred.get(i.saturating_sub(1)).and_then(|o| o.split(' ').next()).map(|n| if n == "next=-" { 0 } else { n.matches(',').count() + 1 }).unwrap_or(0);
            appended > delivered
        });
        let flush_while_queued = gr.case.ops.iter().enumerate().any(|(i, o)| {
            *o == Op::Flush && {
                let appended = gr.case.ops[..i].iter().filter(|o| matches!(o, Op::Append(..))).count();
                let delivered = gr.pred.get(i).and_then(|o| o.split(' ').next()).map(|n| if n == "next=-" { 0 } else { n.matches(',').count() + 1 }).unwrap_or(0);
                appended > delivered
            }
        });
        let nontrivial = match prop.as_str() {
            "C09" => displaced,
            "C01" => n_app >= 3 && (errs > 0 || clones > 0),
            "C05" => has_join_mid == Some(true) || clones > 0,
            _ => flush_while_queued,
        };
        rep.case(&enc, nontrivial);
        rep.bump(if gr.case.short { "mode:short-interval" } else { "mode:quiet-interval" });
        if let Some(Op::New(c)) = gr.case.ops.first() {
            rep.bump(&format!("cap:{c}"));
        }
        for o in &gr.case.ops {
            rep.bump(&format!("op:{}", o.kind()));
        }
        rep.bump(&format!("len:{}", (gr.case.ops.len() / 10) * 10));
        if displaced {
            rep.bump("hit:overflow");
        }
        if has_join_mid == Some(true) {
            rep.bump("hit:shutdown-with-entries-queued");
        }
        if flush_while_queued {
            rep.bump("hit:flush-while-queued");
        }
        if gr.case.ops.iter().any(|o| *o == Op::Forget) {
            rep.bump("hit:forget");
        }
        if gr.case.tiny {
            rep.bump("mode:tiny shutdown_timeout");
        }
        if gr.pred.iter().any(|o| o.contains("hblk=1")) {
            rep.bump("hit:writer held inside a recorder callback");
        }
        if gr.case.ops.iter().any(|o| *o == Op::Sleep) {
            rep.bump("hit:deadline passed while the writer was held");
        }
        if gr.case.ops.iter().any(|o| matches!(o, Op::DropJoinU | Op::DropJoinT | Op::DropU(_))) {
            rep.bump("hit:drop while unwinding");
        }
        if gr.pred.iter().any(|o| o.contains("fblk=1")) {
            rep.bump("hit:writer held inside flush");
        }
        if gr.pred.iter().any(|o| o.contains("fblk=1") && !o.contains("done=- ")) || {
            // a flush request pending while the writer is inside shutdown
            let j = gr.case.ops.iter().position(|o| matches!(o, Op::DropJoin | Op::DropJoinU | Op::DropJoinT));
            let f = gr.case.ops.iter().position(|o| *o == Op::Flush);
            matches!((j, f), (Some(j), Some(f)) if f < j && gr.pred.get(j).map(|o| o.contains("done=- ")).unwrap_or(false))
        } {
            rep.bump("hit:flush pending at shutdown");
        }
        if errs > 0 {
            rep.bump("hit:error-results");
        }
        max_append_us = max_append_us.max(gr.typed.max_append_us).max(gr.boxed.max_append_us);
        if rep.evaluations % 97 == 1 {
            rep.sample(json!({"case": enc, "impl_typed_last": gr.typed.obs.last(), "model_last": gr.pred.last()}));
        }
        for (kind, o) in [(Kind::Typed, &gr.typed), (Kind::Boxed, &gr.boxed)] {
            if let Some((key, what)) = &o.oracle {
                // one shrunk witness per defect site is enough (./check reports the first per key)
                if reported_keys.insert(key.clone()) {
                    let key = key.clone();
                    let small = shrink_guided(&args, &gr.case, kind, |oo, _| oo.oracle.as_ref().map(|(k, _)| *k == key).unwrap_or(false));
                    // describe the failure of the shrunk case, not of the original one
                    let sp = predict(&args, &[small.encode()]).map(|p| split_obs(&p[0])).unwrap_or_default();
                    let so = run_guided(&small, kind, &sp, Duration::from_secs(3));
                    let (what2, last) = match &so.oracle {
                        Some((k, w)) if *k == key => (w.clone(), so.obs.last().cloned().unwrap_or_default()),
                        _ => (what.clone(), o.obs.last().cloned().unwrap_or_default()),
                    };
                    let shown = if so.oracle.as_ref().map(|(k, _)| *k == key).unwrap_or(false) { small.encode() } else { enc.clone() };
                    rep.oracle_failure(&key, &shown, &format!("{}: {}", kind.name(), last), &what2);
                } else {
                    rep.bump(&format!("further oracle failures:{key}"));
                }
            }
            if let Some(k) = first_diff(&o.obs, &gr.pred).or(o.timed_out_at) {
                let comp = format!("queue/guided-{}", kind.name());
                if !reported_keys.insert(comp.clone()) {
                    rep.bump(&format!("further disagreements:{comp}"));
                    continue;
                }
                let small = shrink_guided(&args, &gr.case, kind, |oo, pp| first_diff(&oo.obs, pp).is_some() || oo.timed_out_at.is_some());
                let sp = predict(&args, &[small.encode()]).map(|p| split_obs(&p[0])).unwrap_or_default();
                let so = run_guided(&small, kind, &sp, Duration::from_secs(3));
                let (ci, cm, ck) = match first_diff(&so.obs, &sp) {
                    Some(j) => (so.obs[j].clone(), sp.get(j).cloned().unwrap_or_default(), j),
                    None => (o.obs.get(k).cloned().unwrap_or_default(), gr.pred.get(k).cloned().unwrap_or_default(), k),
                };
                let shown = if first_diff(&so.obs, &sp).is_some() { small.encode() } else { enc.clone() };
                rep.disagreement(&comp, &format!("{shown} ## after op #{ck}"), &ci, &cm);
            }
        }
    }
    rep.bump_by("max append latency us (observational)", max_append_us as u64);
    if max_append_us > 2_000_000 {
        rep.oracle_failure("queue:c09-append-blocks", "-", &format!("{max_append_us} us"), "an append took more than 2 s: appends must never block");
    }

    rep.notes.push(format!("guided reporting/shrinking: {:.1} s", t_phase.elapsed().as_secs_f64()));
    let t_phase = Instant::now();
    // ---- T-trace: real threads, perturbation at the hook points
    if !traces.is_empty() {
        install_perturbation(args.seed);
        let next = std::sync::atomic::AtomicUsize::new(0);
        let outs: std::sync::Mutex<Vec<(usize, TraceOutcome)>> = std::sync::Mutex::new(vec![]);
        let tthreads = if args.thorough() { 6 } else { 2 };
        std::thread::scope(|sc| {
            for _ in 0..tthreads {
                sc.spawn(|| {
                    loop {
                        let i = next.fetch_add(1, Ordering::SeqCst);
                        if i >= traces.len() || TRACE_FAILURES.load(Ordering::SeqCst) >= 3 {
                            break;
                        }
                        let o = run_trace(&traces[i]);
                        outs.lock().unwrap().push((i, o));
                    }
                });
            }
        });
        metrique_writer_core::verif::set_callback(None);
        let mut outs = outs.into_inner().unwrap();
        outs.sort_by_key(|(i, _)| *i);
        let mut spec_lines: Vec<String> = vec![];
        let mut spec_owner: Vec<(usize, String)> = vec![];
        let mut failures = 0;
        for (i, o) in &outs {
            let enc = traces[*i].encode();
            rep.case(&enc, (traces[*i].producers >= 2 && traces[*i].producers * traces[*i].per >= 10) || traces[*i].backlog > 0);
            if traces[*i].backlog > 0 {
                rep.bump("trace with backlog behind a shut stream");
            }
            rep.bump("trace runs");
            rep.bump(&format!("trace interval_us:{}", traces[*i].interval_us));
            rep.bump_by("trace entries delivered", o.delivered as u64);
            rep.bump_by("trace entries displaced", o.overflow);
            rep.bump_by("trace flush futures completed", o.flushes_done as u64);
            if traces[*i].mid {
                rep.bump("trace shutdown while producers run");
            }
            if let Some((key, what)) = &o.oracle {
                failures += 1;
                if failures <= 5 {
                    rep.oracle_failure(key, &enc, &format!("delivered={} overflow={}", o.delivered, o.overflow), what);
                }
            }
            for (label, line) in &o.spec {
                spec_lines.push(line.clone());
                spec_owner.push((*i, label.clone()));
            }
        }
        match predict(&args, &spec_lines) {
            Some(replies) => {
                let mut rejected = 0;
                for ((i, label), r) in spec_owner.iter().zip(replies.iter()) {
                    if r == "accept" {
                        rep.traces_validated += 1;
                    } else {
                        rejected += 1;
                        if rejected <= 3 {
                            rep.oracle_failure(
                                if label == "order" { "queue:trace-spec-order" } else { "queue:trace-spec-barrier" },
                                &traces[*i].encode(),
                                r,
                                &format!("the recorded history is rejected by the Lean specification predicate ({label})"),
                            );
                        }
                    }
                }
                rep.bump_by("trace spec predicates evaluated in Lean", spec_lines.len() as u64);
            }
            None => rep.driver_available = false,
        }
    }

    rep.notes.push(format!("traces: {:.1} s", t_phase.elapsed().as_secs_f64()));
    let t_phase = Instant::now();
    // ---- waker state machine
    if !hww.is_empty() {
        let impl_out: Vec<String> = hww.iter().map(|l| catch(|| run_hww_impl(l)).ok().flatten().unwrap_or_else(|| "panic".into())).collect();
        let mut steps = 0u64;
        for (l, o) in hww.iter().zip(impl_out.iter()) {
            rep.case(l, o.contains(",1,"));
            steps += l.split_whitespace().count() as u64 - 2;
            if let Some(what) = hww_oracle(l, o) {
                // shrink the op list
                let head: Vec<&str> = l.split_whitespace().take(2).collect();
                let ops: Vec<String> = l.split_whitespace().skip(2).map(|s| s.to_string()).collect();
                let small = shrink_list(&ops, |cand| {
                    let line = format!("{} {} {}", head[0], head[1], cand.join(" "));
                    run_hww_impl(&line).map(|o| hww_oracle(&line, &o).is_some()).unwrap_or(false)
                });
                let line = format!("{} {} {}", head[0], head[1], small.join(" "));
                let io = run_hww_impl(&line).unwrap_or_default();
                let what = hww_oracle(&line, &io).unwrap_or(what);
                if reported_keys.insert("queue:c04-waker-tracker".into()) {
                    rep.oracle_failure("queue:c04-waker-tracker", &line, &io, &what);
                }
            }
        }
        rep.bump_by("hww sequences", hww.len() as u64);
        rep.bump_by("hww steps", steps);
        match predict(&args, &hww) {
            Some(model) => {
                let mut n = 0;
                for ((l, o), m) in hww.iter().zip(impl_out.iter()).zip(model.iter()) {
                    if o != m && n < 3 {
                        n += 1;
                        let head: Vec<&str> = l.split_whitespace().take(2).collect();
                        let ops: Vec<String> = l.split_whitespace().skip(2).map(|s| s.to_string()).collect();
                        let small = shrink_list(&ops, |cand| {
                            let line = format!("{} {} {}", head[0], head[1], cand.join(" "));
                            match (run_hww_impl(&line), predict(&args, &[line.clone()])) {
                                (Some(o), Some(m)) => o != m[0],
                                _ => false,
                            }
                        });
                        let line = format!("{} {} {}", head[0], head[1], small.join(" "));
                        let mo = predict(&args, &[line.clone()]).map(|m| m[0].clone()).unwrap_or_default();
                        rep.disagreement("queue/hww", &line, &run_hww_impl(&line).unwrap_or_default(), &mo);
                    }
                }
            }
            None => rep.driver_available = false,
        }
    }
    rep.notes.push(format!("hww: {:.1} s", t_phase.elapsed().as_secs_f64()));
    let t_phase = Instant::now();
    // ---- targeted search when model and code disagree but no oracle has failed yet (oracle only)
    if rep.oracle_failures.is_empty() && !rep.disagreements.is_empty() && args.replay.is_none() {
        let mut srng = rng.fork(4242);
        let mut found: Option<(String, String, String, String)> = None;
        let mut n = 0u64;
        if rep.disagreements.iter().any(|d| d.component == "queue/hww") {
            // the waker state machine differs: look for a flush completing early / never, with backlogs
            // that make the writer hit its deadline inside a drain
            install_perturbation(args.seed ^ 0x5ea4c4);
            let budget = if args.thorough() { 3000 } else { 1000 };
            for _ in 0..budget {
                let tc = if srng.chance(1, 2) { backlog_trace(&mut srng) } else { saturation_trace(&mut srng) };
                let o = run_trace(&tc);
                n += 1;
                if let Some((key, what)) = o.oracle {
                    found = Some((key, tc.encode(), format!("delivered={} overflow={}", o.delivered, o.overflow), what));
                    break;
                }
            }
            metrique_writer_core::verif::set_callback(None);
        }
        if found.is_none() && rep.disagreements.iter().any(|d| d.component.starts_with("queue/guided")) {
            // neighbours of the disagreeing scripts: same ops with other capacities, plus fresh scripts
            let mut cands: Vec<Case> = vec![];
            for d in rep.disagreements.iter() {
                if let Some(c) = Case::decode(d.case.split(" ## ").next().unwrap_or("")) {
                    for cap in [1usize, 2, 3, 5] {
                        let mut c2 = c.clone();
                        c2.ops[0] = Op::New(cap);
                        cands.push(c2.clone());
                        let mut c3 = c2.clone();
                        c3.short = !c3.short && !c3.ops.iter().any(|o| *o == Op::Forget);
                        if c3.valid() {
                            cands.push(c3);
                        }
                    }
                }
            }
            let fresh = if args.thorough() { 1500 } else { 300 };
            for _ in 0..fresh {
                cands.push(gen_case(&mut srng, &p));
            }
            let lines: Vec<String> = cands.iter().map(|c| c.encode()).collect();
            if let Some(preds) = predict(&args, &lines) {
                let mut bad = 0;
                for (c, pr) in cands.iter().zip(preds.iter()) {
                    if pr == "bad-op" {
                        continue;
                    }
                    let pred = split_obs(pr);
                    for kind in [Kind::Typed, Kind::Boxed] {
                        let o = run_guided(c, kind, &pred, Duration::from_millis(if bad < 3 { 1000 } else { 300 }));
                        n += 1;
                        if o.timed_out_at.is_some() {
                            bad += 1;
                        }
                        if let Some((key, what)) = o.oracle {
                            found = Some((key, c.encode(), format!("{}: {}", kind.name(), o.obs.last().cloned().unwrap_or_default()), what));
                            break;
                        }
                    }
                    if found.is_some() || bad > 40 || t_phase.elapsed() > Duration::from_secs(120) {
                        break;
                    }
                }
            }
        }
        rep.search_cases = n;
        rep.notes.push(format!("search: {} cases in {:.1} s", n, t_phase.elapsed().as_secs_f64()));
        if let Some((key, case, imp, what)) = found {
            rep.search_found = true;
            rep.oracle_failure(&key, &case, &imp, &what);
        }
    }
    if prop == "C09" && args.replay.is_none() {
        big_entry_stage(&args, &mut rep);
        overflow_event_stage(&mut rep);
    }
    if prop == "C05" && args.replay.is_none() {
        let mut erng = rng.fork(0xe57);
        extremes_stage(&args, &mut rep, &mut erng);
    }
    if prop == "C04" && args.replay.is_none() {
        many_flushes_stage(&args, &mut rep);
    }
    // C01: the limiter stage (needs a quiet process), then the subscriber stage, which comes last (it installs
    // the process-global tracing subscriber)
    if prop == "C01" && args.replay.is_none() {
        limiter_stage(&args, &mut rep);
        subscriber_stage(&args, &mut rep);
    }
    rep.write(&args);
}
