//! Engine `timers` (C18): `Stopwatch` / `TimerGuard` / `OwnedTimerGuard`, `Timer`, `Timestamp`,
//! `TimestampOnClose`, the epoch-unit formatters and `get_time_source`, all over a
//! `ManuallyAdvancedTimeSource`.
//!
//! Case lines (the same text is the request to the Lean driver, `swt`/`swp`/`timerd` mapped to `sw`/`timer`):
//!   `sw  <op>…`  ops `a<ns>` advance | `sb` start borrowed, `pb` stop, `db` drop, `xb` discard, `wb` overwrite
//!                | `so<k>` start owned into slot k, `po<k> do<k> xo<k> wo<k>` | `c` clear
//!                | `ub` / `uo<k>`: the guard is dropped by a panic unwinding out of a `catch_unwind` scope that
//!                owns it (same thread); `vo<k>`: the owned guard is moved to a spawned thread that panics
//!                while owning it — a guard dropped by unwinding is a dropped guard (its span counts)
//!   `swt <op>…`  same, every owned guard is finished on a freshly spawned thread
//!   `swp <op>…`  same, every maximal run of consecutive stop/drop/discard operations on owned guards is
//!                executed at once on parallel threads released by a barrier (no observation inside a run;
//!                the reports afterwards cannot depend on the order: theorem `c18_finish_order_irrelevant`)
//!   `timer <op>…` / `timerd <op>…`  ops `a<ns>` | `s` (stop); `timerd` creates the timer with
//!                `Timer::start_now()` under a thread-local time source instead of the explicit one
//!   `ts <w0> <op>…`  ops `w<int ns since epoch>` set wall clock | `n` new Timestamp | `o` new
//!                TimestampOnClose | `c` close the oldest pending TimestampOnClose
//!   `resolve <e> <t> <r>`  which of explicit / thread-local / tokio-runtime time source is present
//!   `env <op>…`  the time-source environment over time, four distinct fake sources s0..s3 (frozen monotonic
//!                clocks, wall clocks in 1970, far from now): `i<g>:<s>` `let g = set_time_source(s)` |
//!                `d<g>` drop(g) | `b<s>` enter `with_time_source(s, ..)` | `e` leave it | `r<s>`
//!                `set_time_source_for_current_runtime(s)` | `q` drop its guard | `w<s>` / `a<s>` move source
//!                s's wall / monotonic clock | `c<kind>[:<s>]` construct through one public constructor:
//!                `sn` Stopwatch::new, `sd` ::default, `sx:s` ::new_from_timesource, `tn` Timer::start_now,
//!                `td` ::default, `tx:s` ::start_now_with_timesource, `pn` Timestamp::now, `pd` ::default,
//!                `px:s` ::new_from_time_source, `pt:s` ::new(s.system_time()), `od` TimestampOnClose::default.
//!                Every object is probed at construction and again at the end: which source's clock moves
//!                its readings (start/advance/stop/close), and whether the readings are exactly that clock's.
//!
//! Observables: after every prefix of the sequence the value of `(&stopwatch).close()` (when no
//! `TimerGuard` borrows it), the value returned by every `stop()`, and the by-value close at the end.
//!
//! Oracle (written from the property statement, independent of the Lean model): the harness keeps its
//! own clock and the start time of every guard; the stopwatch must report the total of the spans of
//! the guards that were stopped/dropped/overwritten-with since the last clear/overwrite, `None` if
//! there is none; `stop()` returns the guard's span. Timer: creation → first stop (or → close).
//! Timestamps: the wall clock at creation (at close for `TimestampOnClose`), clamped at the epoch,
//! micros exactly, seconds/millis within 1e-14 relative.

use metrique::CloseValue;
use metrique::timers::{
    EpochMicros, EpochMillis, EpochSeconds, OwnedTimerGuard, Stopwatch, Timer, TimerGuard, Timestamp,
    TimestampOnClose, TimestampValue,
};
use metrique_timesource::fakes::ManuallyAdvancedTimeSource;
use metrique_timesource::tokio::{RuntimeTimeSourceGuard, set_time_source_for_current_runtime};
use metrique_timesource::{ThreadLocalTimeSourceGuard, TimeSource, get_time_source, set_time_source, with_time_source};
use metrique_writer_core::value::{MetricFlags, ValueFormatter};
use metrique_writer_core::{Observation, Unit, ValidationError, Value, ValueWriter};
use std::collections::BTreeMap;
use std::time::{Duration, SystemTime, UNIX_EPOCH};
use verif_harness::*;

const MAX_SLOTS: usize = 8;

// ------------------------------------------------------------------------------------------------
// cases

#[derive(Clone, Copy, Debug, PartialEq, Eq)]
enum Op {
    Adv(u64),
    Sb,
    Pb,
    Db,
    Xb,
    Wb,
    So(u8),
    Po(u8),
    Do(u8),
    Xo(u8),
    Wo(u8),
    C,
    /// the borrowed guard is dropped by a panic unwinding out of a `catch_unwind` closure that owns it
    Ub,
    /// the owned guard is dropped by a panic unwinding out of a `catch_unwind` closure (same thread)
    Uo(u8),
    /// the owned guard is moved to a spawned thread that panics while owning it
    Vo(u8),
}

impl Op {
    fn enc(&self) -> String {
        match self {
            Op::Adv(d) => format!("a{d}"),
            Op::Sb => "sb".into(),
            Op::Pb => "pb".into(),
            Op::Db => "db".into(),
            Op::Xb => "xb".into(),
            Op::Wb => "wb".into(),
            Op::So(k) => format!("so{k}"),
            Op::Po(k) => format!("po{k}"),
            Op::Do(k) => format!("do{k}"),
            Op::Xo(k) => format!("xo{k}"),
            Op::Wo(k) => format!("wo{k}"),
            Op::C => "c".into(),
            Op::Ub => "ub".into(),
            Op::Uo(k) => format!("uo{k}"),
            Op::Vo(k) => format!("vo{k}"),
        }
    }
    fn dec(s: &str) -> Option<Op> {
        Some(match s {
            "sb" => Op::Sb,
            "pb" => Op::Pb,
            "db" => Op::Db,
            "xb" => Op::Xb,
            "wb" => Op::Wb,
            "c" => Op::C,
            "ub" => Op::Ub,
            _ => {
                if let Some(r) = s.strip_prefix('a') {
                    Op::Adv(r.parse().ok()?)
                } else {
                    let (h, r) = s.split_at_checked(2)?;
                    let k: u8 = r.parse().ok()?;
                    if k as usize >= MAX_SLOTS {
                        return None;
                    }
                    match h {
                        "so" => Op::So(k),
                        "po" => Op::Po(k),
                        "do" => Op::Do(k),
                        "xo" => Op::Xo(k),
                        "wo" => Op::Wo(k),
                        "uo" => Op::Uo(k),
                        "vo" => Op::Vo(k),
                        _ => return None,
                    }
                }
            }
        })
    }
}

#[derive(Clone, Copy, Debug, PartialEq, Eq)]
enum TOp {
    Adv(u64),
    Stop,
}

#[derive(Clone, Copy, Debug, PartialEq, Eq)]
enum SOp {
    Wall(i128),
    New,
    OnClose,
    Close,
}

/// how owned guards are finished: in program order on the harness thread; each on a freshly spawned
/// thread (joined before the next operation); or, for maximal runs of consecutive stop/drop/discard
/// operations on owned guards, all at once on parallel threads released by a barrier
#[derive(Clone, Copy, Debug, PartialEq, Eq)]
enum Mode {
    Seq,
    Threaded,
    Parallel,
}

#[derive(Clone, Debug, PartialEq)]
enum Case {
    Sw { mode: Mode, ops: Vec<Op> },
    Timer { default_ts: bool, ops: Vec<TOp> },
    Ts { w0: i128, ops: Vec<SOp> },
    Resolve { e: bool, t: bool, r: bool },
    Env { ops: Vec<EOp> },
}

impl Case {
    fn encode(&self) -> String {
        match self {
            Case::Sw { mode, ops } => {
                let mut s = String::from(match mode {
                    Mode::Seq => "sw",
                    Mode::Threaded => "swt",
                    Mode::Parallel => "swp",
                });
                for o in ops {
                    s.push(' ');
                    s.push_str(&o.enc());
                }
                s
            }
            Case::Timer { default_ts, ops } => {
                let mut s = String::from(if *default_ts { "timerd" } else { "timer" });
                for o in ops {
                    s.push(' ');
                    match o {
                        TOp::Adv(d) => s.push_str(&format!("a{d}")),
                        TOp::Stop => s.push('s'),
                    }
                }
                s
            }
            Case::Ts { w0, ops } => {
                let mut s = format!("ts {w0}");
                for o in ops {
                    s.push(' ');
                    match o {
                        SOp::Wall(w) => s.push_str(&format!("w{w}")),
                        SOp::New => s.push('n'),
                        SOp::OnClose => s.push('o'),
                        SOp::Close => s.push('c'),
                    }
                }
                s
            }
            Case::Resolve { e, t, r } => format!("resolve {} {} {}", *e as u8, *t as u8, *r as u8),
            Case::Env { ops } => {
                let mut s = String::from("env");
                for o in ops {
                    s.push(' ');
                    s.push_str(&o.enc());
                }
                s
            }
        }
    }
    /// the request line for the Lean driver
    fn request(&self) -> String {
        let s = self.encode();
        if let Some(r) = s.strip_prefix("swt").or(s.strip_prefix("swp")) {
            format!("sw{r}")
        } else if let Some(r) = s.strip_prefix("timerd") {
            format!("timer{r}")
        } else {
            s
        }
    }
    fn decode(line: &str) -> Option<Case> {
        let mut it = line.split_whitespace();
        let head = it.next()?;
        let rest: Vec<&str> = it.collect();
        match head {
            "sw" | "swt" | "swp" => Some(Case::Sw {
                mode: match head {
                    "swt" => Mode::Threaded,
                    "swp" => Mode::Parallel,
                    _ => Mode::Seq,
                },
                ops: rest.iter().map(|s| Op::dec(s)).collect::<Option<_>>()?,
            }),
            "timer" | "timerd" => Some(Case::Timer {
                default_ts: head == "timerd",
                ops: rest
                    .iter()
                    .map(|s| if *s == "s" { Some(TOp::Stop) } else { s.strip_prefix('a')?.parse().ok().map(TOp::Adv) })
                    .collect::<Option<_>>()?,
            }),
            "ts" => {
                let w0 = rest.first()?.parse().ok()?;
                let ops = rest[1..]
                    .iter()
                    .map(|s| match *s {
                        "n" => Some(SOp::New),
                        "o" => Some(SOp::OnClose),
                        "c" => Some(SOp::Close),
                        _ => s.strip_prefix('w')?.parse().ok().map(SOp::Wall),
                    })
                    .collect::<Option<_>>()?;
                Some(Case::Ts { w0, ops })
            }
            "env" => Some(Case::Env { ops: rest.iter().map(|s| EOp::dec(s)).collect::<Option<_>>()? }),
            "resolve" => {
                if rest.len() != 3 || rest.iter().any(|s| *s != "0" && *s != "1") {
                    return None;
                }
                Some(Case::Resolve { e: rest[0] == "1", t: rest[1] == "1", r: rest[2] == "1" })
            }
            _ => None,
        }
    }
}

// ------------------------------------------------------------------------------------------------
// implementation runners. `None` = the sequence is not expressible in Rust.

fn dur(ns: u64) -> Duration {
    Duration::from_nanos(ns)
}

fn opt_str(d: Option<Duration>) -> String {
    match d {
        None => "n".into(),
        Some(d) => d.as_nanos().to_string(),
    }
}

/// `swp`: (start, length) of every maximal run of at least two consecutive stop/drop/discard operations
/// on distinct live owned guards
fn parallel_groups(ops: &[Op]) -> Vec<(usize, usize)> {
    let mut live = [false; MAX_SLOTS];
    let mut groups = vec![];
    let mut i = 0;
    while i < ops.len() {
        match ops[i] {
            Op::So(k) => {
                live[k as usize] = true;
                i += 1;
            }
            Op::Wo(k) => {
                live[k as usize] = false;
                i += 1;
            }
            Op::Po(k) | Op::Do(k) | Op::Xo(k) | Op::Uo(k) | Op::Vo(k) if live[k as usize] => {
                let start = i;
                while i < ops.len() {
                    match ops[i] {
                        Op::Po(k) | Op::Do(k) | Op::Xo(k) | Op::Uo(k) | Op::Vo(k) if live[k as usize] => {
                            live[k as usize] = false;
                            i += 1;
                        }
                        _ => break,
                    }
                }
                if i - start >= 2 {
                    groups.push((start, i - start));
                }
            }
            _ => i += 1,
        }
    }
    groups
}

/// the model's reply with the observations the parallel run cannot make blanked out
fn blank_parallel(ops: &[Op], reply: &str) -> String {
    let mut toks: Vec<String> = reply.split(' ').map(|s| s.to_string()).collect();
    if toks.len() != ops.len() + 2 {
        return reply.to_string();
    }
    for (start, len) in parallel_groups(ops) {
        for t in &mut toks[start + 1..start + len] {
            if let Some((r, _)) = t.split_once('/') {
                *t = format!("{r}/*");
            }
        }
    }
    toks.join(" ")
}

struct SwCtx<'x> {
    ops: &'x [Op],
    i: usize,
    fake: ManuallyAdvancedTimeSource,
    owned: Vec<Option<OwnedTimerGuard>>,
    threaded: bool,
    /// `swp`: start index → length of every parallel group
    groups: BTreeMap<usize, usize>,
}

enum OwnedRes {
    Done(String),
    Inexpressible,
}

impl SwCtx<'_> {
    /// operations that do not touch the stopwatch itself: advancing the clock, finishing owned guards.
    /// Returns the `ret` part of the token, or `None` if `op` is not of that kind.
    fn free_op(&mut self, op: Op, toks: &mut Vec<String>) -> Option<OwnedRes> {
        if let Some(len) = self.groups.get(&(self.i - 1)).copied() {
            // `swp`: the whole run of stop/drop/discard operations at once, one thread per guard
            let start = self.i - 1;
            let barrier = std::sync::Arc::new(std::sync::Barrier::new(len));
            let mut handles = vec![];
            for idx in start..start + len {
                let op = self.ops[idx];
                let (Op::Po(k) | Op::Do(k) | Op::Xo(k) | Op::Uo(k) | Op::Vo(k)) = op else { return Some(OwnedRes::Inexpressible) };
                let Some(g) = self.owned.get_mut(k as usize).and_then(|s| s.take()) else { return Some(OwnedRes::Inexpressible) };
                let b = barrier.clone();
                handles.push(std::thread::spawn(move || {
                    b.wait();
                    match op {
                        Op::Po(_) => g.stop().as_nanos().to_string(),
                        Op::Do(_) => {
                            drop(g);
                            "-".to_string()
                        }
                        Op::Uo(_) => {
                            unwind_with(g);
                            "-".to_string()
                        }
                        Op::Vo(_) => {
                            let _owned_while_panicking = g;
                            panic!("{CONTAINED}");
                        }
                        _ => {
                            g.discard();
                            "-".to_string()
                        }
                    }
                }));
            }
            let mut rets: Vec<String> = vec![];
            for (h, idx) in handles.into_iter().zip(start..) {
                match h.join() {
                    Ok(r) => rets.push(r),
                    // the thread of a `vo` operation is meant to die of its own panic
                    Err(e) if matches!(self.ops[idx], Op::Vo(_)) && is_contained(&e) => rets.push("-".into()),
                    Err(e) => std::panic::resume_unwind(e),
                }
            }
            self.i = start + len;
            let last = rets.pop().unwrap();
            for r in rets {
                // no observation between the members of a group
                toks.push(format!("{r}/*"));
            }
            return Some(OwnedRes::Done(last));
        }
        let threaded = self.threaded;
        fn fin<R: Send + 'static>(threaded: bool, g: OwnedTimerGuard, f: impl FnOnce(OwnedTimerGuard) -> R + Send + 'static) -> R {
            if threaded {
                match std::thread::spawn(move || f(g)).join() {
                    Ok(r) => r,
                    Err(e) => std::panic::resume_unwind(e),
                }
            } else {
                f(g)
            }
        }
        let mut take = |k: u8| self.owned.get_mut(k as usize).and_then(|s| s.take());
        Some(match op {
            Op::Adv(d) => {
                self.fake.update_instant(dur(d));
                OwnedRes::Done("-".into())
            }
            Op::Po(k) => match take(k) {
                Some(g) => OwnedRes::Done(fin(threaded, g, |g| g.stop()).as_nanos().to_string()),
                None => OwnedRes::Inexpressible,
            },
            Op::Do(k) => match take(k) {
                Some(g) => {
                    fin(threaded, g, drop);
                    OwnedRes::Done("-".into())
                }
                None => OwnedRes::Inexpressible,
            },
            Op::Xo(k) => match take(k) {
                Some(g) => {
                    fin(threaded, g, |g| g.discard());
                    OwnedRes::Done("-".into())
                }
                None => OwnedRes::Inexpressible,
            },
            Op::Wo(k) => match take(k) {
                Some(g) => {
                    fin(threaded, g, |g| g.overwrite());
                    OwnedRes::Done("-".into())
                }
                None => OwnedRes::Inexpressible,
            },
            Op::Uo(k) => match take(k) {
                Some(g) => {
                    fin(threaded, g, unwind_with);
                    OwnedRes::Done("-".into())
                }
                None => OwnedRes::Inexpressible,
            },
            Op::Vo(k) => match take(k) {
                Some(g) => {
                    let r = std::thread::spawn(move || {
                        let _owned_while_panicking = g;
                        panic!("{CONTAINED}");
                    })
                    .join();
                    match r {
                        Err(e) if is_contained(&e) => OwnedRes::Done("-".into()),
                        Err(e) => std::panic::resume_unwind(e),
                        Ok(()) => OwnedRes::Done("thread-did-not-panic".into()),
                    }
                }
                None => OwnedRes::Inexpressible,
            },
            _ => return None,
        })
    }
}

const CONTAINED: &str = "contained panic (harness)";

fn is_contained(e: &Box<dyn std::any::Any + Send>) -> bool {
    e.downcast_ref::<String>().map(|s| s == CONTAINED).unwrap_or(false) || e.downcast_ref::<&str>().map(|s| *s == CONTAINED).unwrap_or(false)
}

/// Drops `guard` by unwinding: a panic raised inside a `catch_unwind` scope that owns the guard (for a
/// `TimerGuard` the scope thereby borrows the stopwatch). Any other panic (one raised by the guard's
/// `Drop` itself) is propagated as an observable.
fn unwind_with<G>(guard: G) {
    let r = std::panic::catch_unwind(std::panic::AssertUnwindSafe(move || {
        let _dropped_by_unwinding = guard;
        panic!("{CONTAINED}");
    }));
    match r {
        Err(e) if is_contained(&e) => {}
        Err(e) => std::panic::resume_unwind(e),
        Ok(()) => unreachable!(),
    }
}

enum GuardEnd {
    /// the guard was finished by an operation; `ret` part of that operation's token
    Finished(String),
    /// the sequence ended with the guard alive (it was dropped)
    SequenceEnded,
    Inexpressible,
}

/// Everything that happens while a `TimerGuard` mutably borrows the stopwatch. The borrow checker
/// enforces expressibility: this function has no access to the stopwatch.
fn with_borrowed_guard(guard: TimerGuard<'_>, cx: &mut SwCtx<'_>, toks: &mut Vec<String>) -> GuardEnd {
    loop {
        if cx.i >= cx.ops.len() {
            drop(guard);
            return GuardEnd::SequenceEnded;
        }
        let op = cx.ops[cx.i];
        cx.i += 1;
        match op {
            Op::Pb => return GuardEnd::Finished(guard.stop().as_nanos().to_string()),
            Op::Db => {
                drop(guard);
                return GuardEnd::Finished("-".into());
            }
            Op::Xb => {
                guard.discard();
                return GuardEnd::Finished("-".into());
            }
            Op::Wb => {
                guard.overwrite();
                return GuardEnd::Finished("-".into());
            }
            Op::Ub => {
                unwind_with(guard);
                return GuardEnd::Finished("-".into());
            }
            // need `&mut stopwatch`, which the guard holds
            Op::Sb | Op::So(_) | Op::C => return GuardEnd::Inexpressible,
            _ => match cx.free_op(op, toks) {
                Some(OwnedRes::Done(ret)) => toks.push(format!("{ret}/-")),
                _ => return GuardEnd::Inexpressible,
            },
        }
    }
}

fn run_sw(ops: &[Op], mode: Mode) -> Option<String> {
    let fake = ManuallyAdvancedTimeSource::at_time(UNIX_EPOCH);
    // the three constructors: explicit source, `new()` / `default()` under a thread-local override
    let ts = TimeSource::custom(fake.clone());
    let mut sw = match mode {
        Mode::Seq => Stopwatch::new_from_timesource(ts),
        Mode::Threaded => {
            let _g = set_time_source(ts);
            Stopwatch::new()
        }
        Mode::Parallel => {
            let _g = set_time_source(ts);
            Stopwatch::default()
        }
    };
    let mut cx = SwCtx { ops, i: 0, fake, owned: (0..MAX_SLOTS).map(|_| None).collect(), threaded: mode == Mode::Threaded, groups: if mode == Mode::Parallel { parallel_groups(ops).into_iter().collect() } else { BTreeMap::new() } };
    let mut toks = vec![format!("-/{}", opt_str((&sw).close()))];
    while cx.i < ops.len() {
        let op = ops[cx.i];
        cx.i += 1;
        match op {
            Op::Sb => {
                let guard = sw.start();
                toks.push("-/-".into());
                match with_borrowed_guard(guard, &mut cx, &mut toks) {
                    GuardEnd::Finished(ret) => toks.push(format!("{ret}/{}", opt_str((&sw).close()))),
                    GuardEnd::SequenceEnded => {}
                    GuardEnd::Inexpressible => return None,
                }
            }
            Op::Pb | Op::Db | Op::Xb | Op::Wb | Op::Ub => return None,
            Op::So(k) => {
                let slot = cx.owned.get_mut(k as usize)?;
                if slot.is_some() {
                    return None;
                }
                *slot = Some(sw.start_owned());
                toks.push(format!("-/{}", opt_str((&sw).close())));
            }
            Op::C => {
                sw.clear();
                toks.push(format!("-/{}", opt_str((&sw).close())));
            }
            _ => match cx.free_op(op, &mut toks) {
                Some(OwnedRes::Done(ret)) => toks.push(format!("{ret}/{}", opt_str((&sw).close()))),
                _ => return None,
            },
        }
    }
    // by-value close, live owned guards still around
    toks.push(format!("end/{}", opt_str(sw.close())));
    Some(toks.join(" "))
}

fn run_timer(ops: &[TOp], default_ts: bool) -> Option<String> {
    let fake = ManuallyAdvancedTimeSource::at_time(UNIX_EPOCH);
    let ts = TimeSource::custom(fake.clone());
    let mut timer = if default_ts {
        let _g = set_time_source(ts);
        Timer::start_now()
    } else {
        Timer::start_now_with_timesource(ts)
    };
    let mut toks = vec![format!("-/{}", (&timer).close().as_nanos())];
    for op in ops {
        let ret = match op {
            TOp::Adv(d) => {
                fake.update_instant(dur(*d));
                "-".to_string()
            }
            TOp::Stop => timer.stop().as_nanos().to_string(),
        };
        toks.push(format!("{ret}/{}", (&timer).close().as_nanos()));
    }
    // the by-value close must agree with the last by-reference close
    let last = (&timer).close();
    if timer.close() != last {
        return Some(format!("{} by-value-close-differs", toks.join(" ")));
    }
    Some(toks.join(" "))
}

/// records what a formatter writes
struct Cap<'a>(&'a mut String);
impl ValueWriter for Cap<'_> {
    fn string(self, value: &str) {
        *self.0 = format!("s:{value}");
    }
    fn metric<'a>(
        self,
        _distribution: impl IntoIterator<Item = Observation>,
        _unit: Unit,
        _dimensions: impl IntoIterator<Item = (&'a str, &'a str)>,
        _flags: MetricFlags<'_>,
    ) {
        *self.0 = "metric".into();
    }
    fn error(self, _error: ValidationError) {
        *self.0 = "error".into();
    }
}

#[derive(Clone, Debug)]
struct TsVal {
    ns: u128,
    micros: String,
    seconds: String,
    millis: String,
    default_write: String,
    system_time: SystemTime,
}

fn ts_val(v: TimestampValue) -> TsVal {
    let mut micros = String::new();
    <EpochMicros as ValueFormatter<TimestampValue>>::format_value(Cap(&mut micros), &v);
    let mut seconds = String::new();
    <EpochSeconds as ValueFormatter<TimestampValue>>::format_value(Cap(&mut seconds), &v);
    let mut millis = String::new();
    <EpochMillis as ValueFormatter<TimestampValue>>::format_value(Cap(&mut millis), &v);
    let mut default_write = String::new();
    v.write(Cap(&mut default_write));
    TsVal { ns: v.duration_since_epoch().as_nanos(), micros, seconds, millis, default_write, system_time: v.into() }
}

fn f64_token(s: &str) -> String {
    match s.strip_prefix("s:").and_then(|x| x.parse::<f64>().ok()) {
        Some(x) => f64_bits(x),
        None => format!("?{s}"),
    }
}

impl TsVal {
    fn token(&self) -> String {
        format!(
            "{}:{}:{}:{}",
            self.ns,
            self.micros.strip_prefix("s:").unwrap_or("?"),
            f64_token(&self.seconds),
            f64_token(&self.millis)
        )
    }
}

fn wall_time(w: i128) -> SystemTime {
    let a = w.unsigned_abs();
    let d = Duration::new((a / 1_000_000_000) as u64, (a % 1_000_000_000) as u32);
    if w >= 0 { UNIX_EPOCH + d } else { UNIX_EPOCH - d }
}

struct TsRun {
    reply: String,
    /// (value, index of the operation that created it) for every Timestamp, every observation of it
    stamp_obs: Vec<(usize, TsVal)>,
    /// (value, index of the closing operation)
    closed: Vec<(usize, TsVal)>,
}

fn run_ts(w0: i128, ops: &[SOp]) -> Option<TsRun> {
    let fake = ManuallyAdvancedTimeSource::at_time(wall_time(w0));
    let ts = TimeSource::custom(fake.clone());
    let _g = set_time_source(ts.clone());
    let mut stamps: Vec<(usize, Timestamp)> = vec![];
    let mut pending: std::collections::VecDeque<TimestampOnClose> = Default::default();
    let mut toks = vec!["-/-".to_string()];
    let mut run = TsRun { reply: String::new(), stamp_obs: vec![], closed: vec![] };
    for (i, op) in ops.iter().enumerate() {
        let mut ret = "-".to_string();
        match op {
            SOp::Wall(w) => {
                fake.update_time(wall_time(*w));
                // the monotonic clock is independent of the wall clock; move it too
                fake.update_instant(dur(12345));
            }
            SOp::New => stamps.push((
                i,
                match stamps.len() % 3 {
                    0 => Timestamp::now(),
                    1 => Timestamp::new_from_time_source(ts.clone()),
                    _ => Timestamp::default(),
                },
            )),
            SOp::OnClose => pending.push_back(TimestampOnClose::default()),
            SOp::Close => {
                let v = ts_val(pending.pop_front()?.close());
                ret = v.token();
                run.closed.push((i, v));
            }
        }
        let vals: Vec<String> = stamps
            .iter()
            .map(|(ci, s)| {
                let v = ts_val(s.close());
                let t = v.token();
                run.stamp_obs.push((*ci, v));
                t
            })
            .collect();
        toks.push(format!("{ret}/{}", if vals.is_empty() { "-".to_string() } else { vals.join(",") }));
    }
    // by-value close of every Timestamp agrees with the by-reference one
    for (ci, s) in stamps {
        run.stamp_obs.push((ci, ts_val(s.close())));
    }
    run.reply = toks.join(" ");
    Some(run)
}

fn run_resolve(e: bool, t: bool, r: bool) -> String {
    let mk = |secs: u64| TimeSource::custom(ManuallyAdvancedTimeSource::at_time(UNIX_EPOCH + Duration::from_secs(secs)));
    let classify = |ts: TimeSource| -> &'static str {
        let now: SystemTime = ts.system_time().into();
        match now.duration_since(UNIX_EPOCH).map(|d| d.as_secs()).unwrap_or(0) {
            1 => "explicit",
            2 => "thread",
            3 => "runtime",
            s if s > 1_500_000_000 => "system",
            _ => "unknown",
        }
    };
    let inner = || {
        let _tg = if t { Some(set_time_source(mk(2))) } else { None };
        let a = classify(get_time_source(if e { Some(mk(1)) } else { None }));
        // the types under test resolve the same way when no explicit source is passed
        if !e {
            let v = Timestamp::now().close().duration_since_epoch().as_secs();
            let b = match v {
                2 => "thread",
                3 => "runtime",
                s if s > 1_500_000_000 => "system",
                _ => "unknown",
            };
            if a != b {
                return format!("{a} but Timestamp::now() used {b}");
            }
        }
        a.to_string()
    };
    let rt = tokio::runtime::Builder::new_current_thread().build().expect("runtime");
    let in_rt = rt.block_on(async {
        let _rg = if r { Some(metrique_timesource::tokio::set_time_source_for_current_runtime(mk(3))) } else { None };
        inner()
    });
    if !r {
        // without a runtime override the answer must not depend on being inside a runtime
        let outside = inner();
        if outside != in_rt {
            return format!("{in_rt} inside a runtime, {outside} outside");
        }
    }
    in_rt
}

// ------------------------------------------------------------------------------------------------
// the time-source environment (`env` cases)

const N_SRC: usize = 4;
const N_GUARDS: usize = 4;
/// wall clock of fake source j starts at (j+1)·10^15 ns after the epoch (January–February 1970)
const WALL_BAND: u128 = 1_000_000_000_000_000;

#[derive(Clone, Copy, Debug, PartialEq, Eq)]
enum Kind {
    Sn,
    Sd,
    Sx,
    Tn,
    Td,
    Tx,
    Pn,
    Pd,
    Px,
    Pt,
    Od,
}

const DEFAULT_KINDS: [Kind; 7] = [Kind::Sn, Kind::Sd, Kind::Tn, Kind::Td, Kind::Pn, Kind::Pd, Kind::Od];
const EXPLICIT_KINDS: [Kind; 4] = [Kind::Sx, Kind::Tx, Kind::Px, Kind::Pt];

impl Kind {
    fn code(&self) -> &'static str {
        match self {
            Kind::Sn => "sn",
            Kind::Sd => "sd",
            Kind::Sx => "sx",
            Kind::Tn => "tn",
            Kind::Td => "td",
            Kind::Tx => "tx",
            Kind::Pn => "pn",
            Kind::Pd => "pd",
            Kind::Px => "px",
            Kind::Pt => "pt",
            Kind::Od => "od",
        }
    }
    fn name(&self) -> &'static str {
        match self {
            Kind::Sn => "Stopwatch::new",
            Kind::Sd => "Stopwatch::default",
            Kind::Sx => "Stopwatch::new_from_timesource",
            Kind::Tn => "Timer::start_now",
            Kind::Td => "Timer::default",
            Kind::Tx => "Timer::start_now_with_timesource",
            Kind::Pn => "Timestamp::now",
            Kind::Pd => "Timestamp::default",
            Kind::Px => "Timestamp::new_from_time_source",
            Kind::Pt => "Timestamp::new(source.system_time())",
            Kind::Od => "TimestampOnClose::default",
        }
    }
    fn explicit(&self) -> bool {
        EXPLICIT_KINDS.contains(self)
    }
}

#[derive(Clone, Copy, Debug, PartialEq, Eq)]
enum EOp {
    Install(u8, u8),
    DropG(u8),
    Begin(u8),
    End,
    InstallRt(u8),
    DropRt,
    Wall(u8),
    Adv(u8),
    Construct(Kind, Option<u8>),
}

impl EOp {
    fn enc(&self) -> String {
        match self {
            EOp::Install(g, s) => format!("i{g}:{s}"),
            EOp::DropG(g) => format!("d{g}"),
            EOp::Begin(s) => format!("b{s}"),
            EOp::End => "e".into(),
            EOp::InstallRt(s) => format!("r{s}"),
            EOp::DropRt => "q".into(),
            EOp::Wall(s) => format!("w{s}"),
            EOp::Adv(s) => format!("a{s}"),
            EOp::Construct(k, None) => format!("c{}", k.code()),
            EOp::Construct(k, Some(s)) => format!("c{}:{s}", k.code()),
        }
    }
    fn dec(t: &str) -> Option<EOp> {
        let src = |x: &str| x.parse::<u8>().ok().filter(|s| (*s as usize) < N_SRC);
        let guard = |x: &str| x.parse::<u8>().ok().filter(|g| (*g as usize) < N_GUARDS);
        match t {
            "e" => return Some(EOp::End),
            "q" => return Some(EOp::DropRt),
            _ => {}
        }
        let (h, r) = t.split_at_checked(1)?;
        match h {
            "i" => {
                let (g, s) = r.split_once(':')?;
                Some(EOp::Install(guard(g)?, src(s)?))
            }
            "d" => Some(EOp::DropG(guard(r)?)),
            "b" => Some(EOp::Begin(src(r)?)),
            "r" => Some(EOp::InstallRt(src(r)?)),
            "w" => Some(EOp::Wall(src(r)?)),
            "a" => Some(EOp::Adv(src(r)?)),
            "c" => {
                let (k, s) = match r.split_once(':') {
                    Some((k, s)) => (k, Some(src(s)?)),
                    None => (r, None),
                };
                let kind = *DEFAULT_KINDS.iter().chain(EXPLICIT_KINDS.iter()).find(|x| x.code() == k)?;
                if kind.explicit() != s.is_some() {
                    return None;
                }
                Some(EOp::Construct(kind, s))
            }
            _ => None,
        }
    }
}

enum ObjImpl {
    Sw(Stopwatch),
    Timer(Timer),
    Stamp(Timestamp),
    OnClose(Option<TimestampOnClose>),
}

struct Obj {
    o: ObjImpl,
    /// harness bookkeeping at construction: total monotonic advance and wall clock of every source
    adv_at: Vec<u128>,
    wall_at: Vec<u128>,
    /// what the probes added to a stopwatch so far
    sw_total: u128,
    probes: usize,
}

struct EnvCx<'x> {
    ops: &'x [EOp],
    i: usize,
    fakes: Vec<ManuallyAdvancedTimeSource>,
    srcs: Vec<TimeSource>,
    wall: Vec<u128>,
    adv: Vec<u128>,
    guards: Vec<Option<ThreadLocalTimeSourceGuard>>,
    /// named guards in the order they were installed (for the clean-up after the case)
    install_order: Vec<u8>,
    rt_guard: Option<RuntimeTimeSourceGuard>,
    objs: Vec<Obj>,
    toks: Vec<String>,
}

impl EnvCx<'_> {
    fn advance(&mut self, j: usize, ns: u128) {
        self.fakes[j].update_instant(Duration::new((ns / 1_000_000_000) as u64, (ns % 1_000_000_000) as u32));
        self.adv[j] += ns;
    }
    fn set_wall(&mut self, j: usize, ns: u128) {
        self.fakes[j].update_time(wall_time(ns as i128));
        self.wall[j] = ns;
    }

    /// Which clock drives the object, found by using it: `s<j>` if moving exactly source j's clock
    /// moves its readings, `sys` if no fake source does; `~` appended when a reading is not exactly
    /// what the harness's own bookkeeping of that source's clock says.
    fn probe(&mut self, idx: usize) -> String {
        let mut obj = std::mem::replace(&mut self.objs[idx].o, ObjImpl::OnClose(None));
        let n = self.objs[idx].probes;
        self.objs[idx].probes += 1;
        let mut bound: Vec<usize> = vec![];
        let mut exact = true;
        let second = 1_000_000_000u128;
        match &mut obj {
            ObjImpl::Timer(t) => {
                let e0 = (&*t).close().as_nanos();
                let mut prev = e0;
                for j in 0..N_SRC {
                    self.advance(j, (j as u128 + 1) * second);
                    let e = (&*t).close().as_nanos();
                    if e == prev + (j as u128 + 1) * second {
                        bound.push(j);
                    }
                    prev = e;
                }
                if let [j] = bound[..] {
                    exact = e0 == self.adv[j] - (j as u128 + 1) * second - self.objs[idx].adv_at[j]
                        // sources probed before j have moved by now, j itself not yet at e0
                        ;
                }
            }
            ObjImpl::Sw(sw) => {
                for j in 0..N_SRC {
                    let span = (j as u128 + 1) * second + n as u128;
                    let got = if (n + j) % 2 == 0 {
                        let g = sw.start();
                        self.advance(j, span);
                        g.stop().as_nanos()
                    } else {
                        let g = sw.start_owned();
                        self.advance(j, span);
                        g.stop().as_nanos()
                    };
                    if got == span {
                        bound.push(j);
                        self.objs[idx].sw_total += span;
                    } else if got != 0 {
                        // a clock nobody moved has moved: not one of the frozen fakes
                        bound.push(usize::MAX);
                    }
                }
                bound.dedup();
                if let [j] = bound[..] {
                    if j != usize::MAX {
                        exact = (&*sw).close().map(|d| d.as_nanos()) == Some(self.objs[idx].sw_total);
                    }
                }
                if bound.contains(&usize::MAX) {
                    bound.clear();
                }
            }
            ObjImpl::Stamp(t) => {
                let v = ts_val((&*t).close());
                let band = (v.ns / WALL_BAND) as usize;
                if band >= 1 && band <= N_SRC {
                    bound.push(band - 1);
                    exact = check_ts_val(&v, self.objs[idx].wall_at[band - 1], "").is_none();
                }
            }
            ObjImpl::OnClose(o) => {
                if let Some(o) = o.take() {
                    // the wall clocks move between construction and close
                    for j in 0..N_SRC {
                        let w = self.wall[j] + 777 + j as u128;
                        self.set_wall(j, w);
                    }
                    let v = ts_val(o.close());
                    let band = (v.ns / WALL_BAND) as usize;
                    if band >= 1 && band <= N_SRC {
                        bound.push(band - 1);
                        exact = check_ts_val(&v, self.wall[band - 1], "").is_none();
                    }
                }
            }
        }
        self.objs[idx].o = obj;
        let b = match bound[..] {
            [j] => format!("s{j}"),
            [] => "sys".to_string(),
            _ => "ambiguous".to_string(),
        };
        if exact { b } else { format!("{b}~") }
    }

    fn construct(&mut self, kind: Kind, s: Option<u8>) -> ObjImpl {
        let ts = |cx: &EnvCx| cx.srcs[s.expect("explicit source") as usize].clone();
        match kind {
            Kind::Sn => ObjImpl::Sw(Stopwatch::new()),
            Kind::Sd => ObjImpl::Sw(Stopwatch::default()),
            Kind::Sx => ObjImpl::Sw(Stopwatch::new_from_timesource(ts(self))),
            Kind::Tn => ObjImpl::Timer(Timer::start_now()),
            Kind::Td => ObjImpl::Timer(Timer::default()),
            Kind::Tx => ObjImpl::Timer(Timer::start_now_with_timesource(ts(self))),
            Kind::Pn => ObjImpl::Stamp(Timestamp::now()),
            Kind::Pd => ObjImpl::Stamp(Timestamp::default()),
            Kind::Px => ObjImpl::Stamp(Timestamp::new_from_time_source(ts(self))),
            Kind::Pt => ObjImpl::Stamp(Timestamp::new(ts(self).system_time())),
            Kind::Od => ObjImpl::OnClose(Some(TimestampOnClose::default())),
        }
    }
}

/// runs operations until the sequence ends or the innermost `with_time_source` closure returns;
/// `Err(())` = not expressible
fn run_env_ops(cx: &mut EnvCx<'_>, depth: usize) -> Result<(), ()> {
    loop {
        if cx.i >= cx.ops.len() {
            return Ok(());
        }
        let op = cx.ops[cx.i];
        cx.i += 1;
        match op {
            EOp::Install(g, s) => {
                if cx.guards[g as usize].is_some() {
                    return Err(());
                }
                cx.guards[g as usize] = Some(set_time_source(cx.srcs[s as usize].clone()));
                cx.install_order.push(g);
                cx.toks.push("-".into());
            }
            EOp::DropG(g) => {
                let guard = cx.guards[g as usize].take().ok_or(())?;
                drop(guard);
                cx.install_order.retain(|x| *x != g);
                cx.toks.push("-".into());
            }
            EOp::Begin(s) => {
                cx.toks.push("-".into());
                let ts = cx.srcs[s as usize].clone();
                with_time_source(ts, || run_env_ops(cx, depth + 1))?;
            }
            EOp::End => {
                if depth == 0 {
                    return Err(());
                }
                cx.toks.push("-".into());
                return Ok(());
            }
            EOp::InstallRt(s) => {
                let ts = cx.srcs[s as usize].clone();
                match catch(|| set_time_source_for_current_runtime(ts)) {
                    Ok(g) => {
                        if cx.rt_guard.is_some() {
                            // a second guard while the first is alive: cannot happen (the call panics)
                            cx.toks.push("second-runtime-guard".into());
                        } else {
                            cx.toks.push("-".into());
                        }
                        cx.rt_guard = Some(g);
                    }
                    Err(_) => cx.toks.push("panic".into()),
                }
            }
            EOp::DropRt => {
                let g = cx.rt_guard.take().ok_or(())?;
                drop(g);
                cx.toks.push("-".into());
            }
            EOp::Wall(s) => {
                let w = cx.wall[s as usize] + 1_000_000_007;
                cx.set_wall(s as usize, w);
                cx.toks.push("-".into());
            }
            EOp::Adv(s) => {
                cx.advance(s as usize, 7_000_000_011 * (s as u128 + 1));
                cx.toks.push("-".into());
            }
            EOp::Construct(kind, s) => {
                let o = cx.construct(kind, s);
                cx.objs.push(Obj { o, adv_at: cx.adv.clone(), wall_at: cx.wall.clone(), sw_total: 0, probes: 0 });
                let idx = cx.objs.len() - 1;
                // a TimestampOnClose can be closed only once: observed at the end
                let tok = if kind == Kind::Od { "-".to_string() } else { cx.probe(idx) };
                cx.toks.push(tok);
            }
        }
    }
}

/// One `env` case on the current thread, inside a tokio runtime of its own (runtime-wide override).
fn run_env_case(ops: &[EOp]) -> Option<String> {
    let rt = tokio::runtime::Builder::new_current_thread().build().expect("runtime");
    rt.block_on(async {
        let fakes: Vec<ManuallyAdvancedTimeSource> =
            (0..N_SRC).map(|j| ManuallyAdvancedTimeSource::at_time(wall_time(((j as u128 + 1) * WALL_BAND) as i128))).collect();
        let mut cx = EnvCx {
            ops,
            i: 0,
            srcs: fakes.iter().map(|f| TimeSource::custom(f.clone())).collect(),
            fakes,
            wall: (0..N_SRC).map(|j| (j as u128 + 1) * WALL_BAND).collect(),
            adv: vec![0; N_SRC],
            guards: (0..N_GUARDS).map(|_| None).collect(),
            install_order: vec![],
            rt_guard: None,
            objs: vec![],
            toks: vec![],
        };
        let res = catch(|| run_env_ops(&mut cx, 0));
        let out = match res {
            Ok(Ok(())) => {
                // every object again, after all the installs and drops (OnClose: now)
                let n = cx.objs.len();
                let ends: Vec<String> = (0..n).map(|i| cx.probe(i)).collect();
                cx.toks.push(format!("end:{}", if ends.is_empty() { "-".to_string() } else { ends.join(",") }));
                Some(cx.toks.join(" "))
            }
            Ok(Err(())) => None,
            Err(p) => Some(format!("panic:{p}")),
        };
        // leave the thread as clean as the case allows: still-live guards go in reverse install order
        for g in std::mem::take(&mut cx.install_order).into_iter().rev() {
            drop(cx.guards[g as usize].take());
        }
        out
    })
}

/// `env` cases run on a helper thread owned by the calling shard thread: thread-local overrides must
/// start empty, and a case may leave one behind (guards dropped out of order; a broken guard). The
/// helper is reused while its thread-local slot is observably empty (`time_source()` outside any
/// runtime is the system source) and replaced by a fresh thread otherwise.
struct EnvWorker {
    tx: std::sync::mpsc::Sender<Vec<EOp>>,
    rx: std::sync::mpsc::Receiver<(Option<String>, bool)>,
}

fn spawn_env_worker() -> EnvWorker {
    let (tx, job_rx) = std::sync::mpsc::channel::<Vec<EOp>>();
    let (res_tx, rx) = std::sync::mpsc::channel();
    std::thread::spawn(move || {
        for ops in job_rx {
            let out = match catch(|| run_env_case(&ops)) {
                Ok(o) => o,
                Err(p) => Some(format!("panic:{p}")),
            };
            let clean = matches!(metrique_timesource::time_source(), TimeSource::System);
            if res_tx.send((out, clean)).is_err() || !clean {
                break;
            }
        }
    });
    EnvWorker { tx, rx }
}

thread_local! {
    static ENV_WORKER: std::cell::RefCell<Option<EnvWorker>> = const { std::cell::RefCell::new(None) };
}

fn run_env(ops: &[EOp]) -> Option<String> {
    ENV_WORKER.with(|w| {
        let mut w = w.borrow_mut();
        let worker = w.get_or_insert_with(spawn_env_worker);
        let answer = worker.tx.send(ops.to_vec()).ok().and_then(|_| worker.rx.recv().ok());
        match answer {
            Some((out, clean)) => {
                if !clean {
                    *w = None;
                }
                out
            }
            None => {
                *w = None;
                Some("panic:thread".into())
            }
        }
    })
}

/// LIFO discipline: every guard drop / scope end concerns the innermost active override
fn env_lifo(ops: &[EOp]) -> bool {
    let mut stack: Vec<Option<u8>> = vec![];
    for o in ops {
        match o {
            EOp::Install(g, _) => stack.push(Some(*g)),
            EOp::Begin(_) => stack.push(None),
            EOp::DropG(g) => {
                if stack.last() != Some(&Some(*g)) {
                    return false;
                }
                stack.pop();
            }
            EOp::End => {
                if stack.last() != Some(&None) {
                    return false;
                }
                stack.pop();
            }
            _ => {}
        }
    }
    true
}

/// Oracle, from the property statement ("the injected time source"): an object built with an
/// explicit source follows that source; one built through a default constructor follows the
/// innermost override still in effect at that moment (thread-local before runtime-wide), the
/// system clock only if there is none; it keeps following it whatever is installed or dropped later;
/// and every reading is exactly that source's clock. After an out-of-order guard drop the statement
/// does not say which override is "in effect": from then on only exactness is judged here (the
/// binding by the model).
fn oracle_env(ops: &[EOp], out: &str) -> Option<String> {
    if out.starts_with("panic:") {
        return Some(format!("the implementation panicked: {out}"));
    }
    let toks: Vec<&str> = out.split(' ').collect();
    if toks.len() != ops.len() + 1 {
        return Some(format!("{} observations for {} operations", toks.len(), ops.len()));
    }
    let mut stack: Vec<(Option<u8>, u8)> = vec![];
    let mut lifo = true;
    let mut rt: Option<u8> = None;
    let mut expected: Vec<Option<String>> = vec![];
    for (i, op) in ops.iter().enumerate() {
        let tok = toks[i];
        if tok.ends_with('~') {
            return Some(format!("operation {i} ({}): the object's readings are not exactly its source's clock ({tok})", op.enc()));
        }
        if tok == "ambiguous" || tok == "second-runtime-guard" {
            return Some(format!("operation {i} ({}): {tok}", op.enc()));
        }
        let mut want = "-".to_string();
        match *op {
            EOp::Install(g, s) => stack.push((Some(g), s)),
            EOp::Begin(s) => stack.push((None, s)),
            EOp::DropG(g) => {
                if stack.last().map(|x| x.0) == Some(Some(g)) {
                    stack.pop();
                } else {
                    lifo = false;
                }
            }
            EOp::End => {
                if stack.last().map(|x| x.0) == Some(None) {
                    stack.pop();
                } else {
                    lifo = false;
                }
            }
            EOp::InstallRt(s) => {
                if rt.is_some() {
                    want = "panic".into();
                } else {
                    rt = Some(s);
                }
            }
            EOp::DropRt => rt = None,
            EOp::Wall(_) | EOp::Adv(_) => {}
            EOp::Construct(kind, s) => {
                let b = match s {
                    Some(s) => format!("s{s}"),
                    None => match stack.last().map(|x| x.1).or(rt) {
                        Some(s) => format!("s{s}"),
                        None => "sys".to_string(),
                    },
                };
                let judged = lifo || s.is_some();
                expected.push(if judged { Some(b.clone()) } else { None });
                if kind == Kind::Od {
                    want = "-".into();
                } else if judged {
                    want = b;
                } else {
                    want = tok.to_string();
                }
            }
        }
        if tok != want {
            return Some(format!(
                "operation {i} ({}): observed {tok}, the injected time source in effect gives {want}",
                op.enc()
            ));
        }
    }
    let end = toks[ops.len()].strip_prefix("end:")?;
    let ends: Vec<&str> = if end == "-" { vec![] } else { end.split(',').collect() };
    if ends.len() != expected.len() {
        return Some("wrong number of objects at the end".into());
    }
    for (k, (got, want)) in ends.iter().zip(expected.iter()).enumerate() {
        if got.ends_with('~') || *got == "ambiguous" {
            return Some(format!("at the end, object {k}: its readings are not exactly its source's clock ({got})"));
        }
        if let Some(w) = want {
            if got != w {
                return Some(format!("at the end, object {k} follows {got}; it was built when the injected source was {w}"));
            }
        }
    }
    None
}

fn env_nontrivial(ops: &[EOp]) -> bool {
    // a default constructor used while an override is (or has been) installed
    let first = ops.iter().position(|o| matches!(o, EOp::Install(..) | EOp::Begin(_) | EOp::InstallRt(_)));
    first.map(|i| ops[i..].iter().any(|o| matches!(o, EOp::Construct(_, None)))).unwrap_or(false)
}

/// which operations are expressible next
#[derive(Clone, Default)]
struct EnvShape {
    guards: [bool; N_GUARDS],
    depth: usize,
    rt_guard: bool,
    rt_set: bool,
    /// active overrides, innermost last: Some(g) named guard, None scope
    stack: Vec<Option<u8>>,
}

impl EnvShape {
    fn ok(&self, op: &EOp) -> bool {
        match op {
            EOp::Install(g, _) => !self.guards[*g as usize],
            EOp::DropG(g) => self.guards[*g as usize],
            EOp::End => self.depth > 0,
            // installing over an existing runtime source panics (an observable), but with our own guard
            // alive a *successful* second install cannot be told from the first: only when none is live
            EOp::InstallRt(_) => true,
            EOp::DropRt => self.rt_guard,
            _ => true,
        }
    }
    fn apply(&mut self, op: &EOp) {
        match op {
            EOp::Install(g, _) => {
                self.guards[*g as usize] = true;
                self.stack.push(Some(*g));
            }
            EOp::DropG(g) => {
                self.guards[*g as usize] = false;
                if let Some(p) = self.stack.iter().rposition(|x| *x == Some(*g)) {
                    self.stack.remove(p);
                }
            }
            EOp::Begin(_) => {
                self.depth += 1;
                self.stack.push(None);
            }
            EOp::End => {
                self.depth -= 1;
                if let Some(p) = self.stack.iter().rposition(|x| x.is_none()) {
                    self.stack.remove(p);
                }
            }
            EOp::InstallRt(_) => {
                if !self.rt_set {
                    self.rt_set = true;
                    self.rt_guard = true;
                }
            }
            EOp::DropRt => {
                self.rt_guard = false;
                self.rt_set = false;
            }
            _ => {}
        }
    }
}

fn gen_env(rng: &mut Rng, len: usize) -> Vec<EOp> {
    let mut shape = EnvShape::default();
    let mut ops = vec![];
    let out_of_order = rng.chance(1, 6);
    let max_depth = rng.range(1, 3) as usize;
    while ops.len() < len {
        let src = rng.below(N_SRC as u64) as u8;
        let op = match rng.below(20) {
            0..=3 if shape.stack.len() < max_depth => {
                let free: Vec<u8> = (0..N_GUARDS as u8).filter(|g| !shape.guards[*g as usize]).collect();
                if free.is_empty() { continue } else { EOp::Install(*rng.pick(&free), src) }
            }
            4..=6 if shape.stack.len() < max_depth => EOp::Begin(src),
            7..=10 => {
                // end the innermost override (LIFO), or — rarely — another one
                let pick = if out_of_order && rng.chance(1, 2) && !shape.stack.is_empty() {
                    shape.stack[rng.below(shape.stack.len() as u64) as usize]
                } else {
                    match shape.stack.last() {
                        Some(x) => *x,
                        None => continue,
                    }
                };
                match pick {
                    Some(g) => EOp::DropG(g),
                    None => EOp::End,
                }
            }
            11 => EOp::InstallRt(src),
            12 => EOp::DropRt,
            13 => if rng.chance(1, 2) { EOp::Wall(src) } else { EOp::Adv(src) },
            14 | 15 => EOp::Construct(*rng.pick(&EXPLICIT_KINDS), Some(src)),
            _ => EOp::Construct(*rng.pick(&DEFAULT_KINDS), None),
        };
        if !shape.ok(&op) {
            continue;
        }
        // `e` ends the innermost *scope*; with a named guard installed inside it and still alive that
        // is an out-of-order drop: only in the out-of-order stream
        if op == EOp::End && shape.stack.last() != Some(&None) && !out_of_order {
            continue;
        }
        shape.apply(&op);
        ops.push(op);
    }
    ops
}

/// every expressible sequence of exactly `len` operations over a small alphabet: two named guards
/// (sources 0, 1), a `with_time_source` scope (source 2), the runtime-wide source (3), and a default
/// constructor (its kind cycles with the position)
fn enumerate_env(prefix: &mut Vec<EOp>, shape: &EnvShape, len: usize, f: &mut impl FnMut(&[EOp])) {
    if prefix.len() == len {
        f(prefix);
        return;
    }
    let kind = DEFAULT_KINDS[(prefix.len() * 3 + len) % DEFAULT_KINDS.len()];
    let alphabet = [
        EOp::Install(0, 0),
        EOp::Install(1, 1),
        EOp::DropG(0),
        EOp::DropG(1),
        EOp::Begin(2),
        EOp::End,
        EOp::InstallRt(3),
        EOp::DropRt,
        EOp::Construct(kind, None),
    ];
    for op in alphabet {
        if !shape.ok(&op) {
            continue;
        }
        let mut s = shape.clone();
        s.apply(&op);
        prefix.push(op);
        enumerate_env(prefix, &s, len, f);
        prefix.pop();
    }
}

/// implementation output in the driver's reply format; `None` = inexpressible; panics are observables
fn run_impl(c: &Case) -> Option<String> {
    let r = catch(|| match c {
        Case::Sw { mode, ops } => run_sw(ops, *mode),
        Case::Timer { default_ts, ops } => run_timer(ops, *default_ts),
        Case::Ts { w0, ops } => run_ts(*w0, ops).map(|r| r.reply),
        Case::Resolve { e, t, r } => Some(run_resolve(*e, *t, *r)),
        Case::Env { ops } => run_env(ops),
    });
    match r {
        Ok(x) => x,
        Err(p) => Some(format!("panic:{p}")),
    }
}

// ------------------------------------------------------------------------------------------------
// the property oracle (independent of the Lean model)

#[derive(Clone, Copy)]
enum Ev {
    Kept(u128),
    Discarded,
    Cleared,
    Overwrote(u128),
}

/// "the total of the completed guard spans that were not discarded since the last clear or
/// overwrite, absent if there is none"
fn expected_total(events: &[Ev]) -> Option<u128> {
    let from = events.iter().rposition(|e| matches!(e, Ev::Cleared | Ev::Overwrote(_))).unwrap_or(0);
    let mut sum: Option<u128> = None;
    for e in &events[from..] {
        match e {
            Ev::Kept(d) | Ev::Overwrote(d) => sum = Some(sum.unwrap_or(0) + d),
            Ev::Discarded | Ev::Cleared => {}
        }
    }
    sum
}

fn oracle_sw(ops: &[Op], out: &str) -> Option<String> {
    if out.starts_with("panic:") {
        return Some(format!("the implementation panicked: {out}"));
    }
    let toks: Vec<&str> = out.split(' ').collect();
    if toks.len() != ops.len() + 2 {
        return Some(format!("{} observations for {} operations", toks.len(), ops.len()));
    }
    let mut now: u128 = 0;
    let mut b_start: Option<u128> = None;
    let mut o_start: BTreeMap<u8, u128> = BTreeMap::new();
    let mut events: Vec<Ev> = vec![];
    let fmt = |t: Option<u128>| t.map(|d| d.to_string()).unwrap_or("n".into());
    if toks[0] != "-/n" {
        return Some(format!("a new stopwatch reports {}", toks[0]));
    }
    for (i, op) in ops.iter().enumerate() {
        let mut ret: Option<u128> = None;
        match *op {
            Op::Adv(d) => now += d as u128,
            Op::Sb => b_start = Some(now),
            Op::Pb => {
                let s = b_start.take()?;
                ret = Some(now - s);
                events.push(Ev::Kept(now - s));
            }
            // a guard dropped by unwinding is a dropped guard: its span is completed and kept
            Op::Db | Op::Ub => events.push(Ev::Kept(now - b_start.take()?)),
            Op::Xb => {
                b_start.take()?;
                events.push(Ev::Discarded);
            }
            Op::Wb => events.push(Ev::Overwrote(now - b_start.take()?)),
            Op::So(k) => {
                o_start.insert(k, now);
            }
            Op::Po(k) => {
                let s = o_start.remove(&k)?;
                ret = Some(now - s);
                events.push(Ev::Kept(now - s));
            }
            Op::Do(k) | Op::Uo(k) | Op::Vo(k) => events.push(Ev::Kept(now - o_start.remove(&k)?)),
            Op::Xo(k) => {
                o_start.remove(&k)?;
                events.push(Ev::Discarded);
            }
            Op::Wo(k) => events.push(Ev::Overwrote(now - o_start.remove(&k)?)),
            Op::C => events.push(Ev::Cleared),
        }
        let (r, c) = toks[i + 1].split_once('/')?;
        let want_ret = ret.map(|d| d.to_string()).unwrap_or("-".into());
        if r != want_ret {
            return Some(format!("operation {i} ({}): stop() returned {r}, the guard measured {want_ret}", op.enc()));
        }
        if c == "*" {
            continue;
        }
        if c != "-" {
            let want = fmt(expected_total(&events));
            if c != want {
                return Some(format!(
                    "after operation {i} ({}): the stopwatch reports {c}, the kept spans since the last clear/overwrite total {want}",
                    op.enc()
                ));
            }
        } else if b_start.is_none() {
            return Some(format!("operation {i}: no observation"));
        }
    }
    if let Some(s) = b_start.take() {
        events.push(Ev::Kept(now - s));
    }
    let want = format!("end/{}", fmt(expected_total(&events)));
    if *toks.last()? != want {
        return Some(format!("closing the stopwatch by value reports {}, expected {want}", toks.last()?));
    }
    None
}

fn oracle_timer(ops: &[TOp], out: &str) -> Option<String> {
    if out.starts_with("panic:") || out.ends_with("by-value-close-differs") {
        return Some(format!("timer: {out}"));
    }
    let toks: Vec<&str> = out.split(' ').collect();
    if toks.len() != ops.len() + 1 {
        return Some("timer: wrong number of observations".into());
    }
    let mut now: u128 = 0;
    let mut first_stop: Option<u128> = None;
    if toks[0] != "-/0" {
        return Some(format!("a new timer reports {}", toks[0]));
    }
    for (i, op) in ops.iter().enumerate() {
        let mut ret = "-".to_string();
        match op {
            TOp::Adv(d) => now += *d as u128,
            TOp::Stop => {
                if first_stop.is_none() {
                    first_stop = Some(now);
                }
                ret = first_stop.unwrap().to_string();
            }
        }
        let want = format!("{ret}/{}", first_stop.unwrap_or(now));
        if toks[i + 1] != want {
            return Some(format!("timer after operation {i}: stop()/close() gave {}, creation→first stop (or →close) is {want}", toks[i + 1]));
        }
    }
    None
}

fn close_rel(x: f64, exact: f64) -> bool {
    if exact == 0.0 { x == 0.0 } else { ((x - exact) / exact).abs() <= 1e-14 }
}

fn check_ts_val(v: &TsVal, want_ns: u128, what: &str) -> Option<String> {
    if v.ns != want_ns {
        return Some(format!("{what}: reports {} ns since the epoch, the wall clock said {want_ns}", v.ns));
    }
    if v.micros != format!("s:{}", want_ns / 1000) {
        return Some(format!("{what}: EpochMicros wrote {:?} for {want_ns} ns", v.micros));
    }
    let parse = |s: &str| s.strip_prefix("s:").and_then(|x| x.parse::<f64>().ok());
    match parse(&v.seconds) {
        Some(x) if close_rel(x, want_ns as f64 / 1e9) => {}
        _ => return Some(format!("{what}: EpochSeconds wrote {:?} for {want_ns} ns", v.seconds)),
    }
    match parse(&v.millis) {
        Some(x) if close_rel(x, want_ns as f64 / 1e6) => {}
        _ => return Some(format!("{what}: EpochMillis wrote {:?} for {want_ns} ns", v.millis)),
    }
    if v.default_write != v.millis {
        return Some(format!("{what}: the default Value::write wrote {:?}, EpochMillis {:?}", v.default_write, v.millis));
    }
    let d = Duration::new((want_ns / 1_000_000_000) as u64, (want_ns % 1_000_000_000) as u32);
    if v.system_time != UNIX_EPOCH + d {
        return Some(format!("{what}: converts to SystemTime {:?}", v.system_time));
    }
    None
}

fn oracle_ts(w0: i128, ops: &[SOp]) -> Option<String> {
    let run = match catch(|| run_ts(w0, ops)) {
        Ok(Some(r)) => r,
        Ok(None) => return None,
        Err(p) => return Some(format!("timestamps: the implementation panicked: {p}")),
    };
    // wall clock after every operation
    let mut wall = w0;
    let mut wall_at: Vec<i128> = vec![];
    for op in ops {
        if let SOp::Wall(w) = op {
            wall = *w;
        }
        wall_at.push(wall);
    }
    let clamp = |w: i128| if w < 0 { 0u128 } else { w as u128 };
    for (created, v) in &run.stamp_obs {
        if let Some(f) = check_ts_val(v, clamp(wall_at[*created]), &format!("Timestamp created by operation {created}")) {
            return Some(f);
        }
    }
    for (closed, v) in &run.closed {
        if let Some(f) = check_ts_val(v, clamp(wall_at[*closed]), &format!("TimestampOnClose closed by operation {closed}")) {
            return Some(f);
        }
    }
    None
}

fn oracle_resolve(e: bool, t: bool, r: bool, out: &str) -> Option<String> {
    // documented priority: explicit, thread-local, tokio runtime, system
    let want = if e {
        "explicit"
    } else if t {
        "thread"
    } else if r {
        "runtime"
    } else {
        "system"
    };
    if out != want { Some(format!("get_time_source chose {out}, documented order gives {want}")) } else { None }
}

/// `Some(description)` when the implementation's behaviour on `c` violates the property;
/// inexpressible cases never fail
fn oracle(c: &Case, out: &str) -> Option<String> {
    match c {
        Case::Sw { ops, .. } => oracle_sw(ops, out),
        Case::Timer { ops, .. } => oracle_timer(ops, out),
        Case::Ts { w0, ops } => {
            if out.starts_with("panic:") {
                return Some(format!("timestamps: {out}"));
            }
            oracle_ts(*w0, ops)
        }
        Case::Resolve { e, t, r } => oracle_resolve(*e, *t, *r, out),
        Case::Env { ops } => oracle_env(ops, out),
    }
}

fn fails(c: &Case) -> bool {
    match run_impl(c) {
        Some(out) => oracle(c, &out).is_some(),
        None => false,
    }
}

fn key_of(c: &Case) -> &'static str {
    match c {
        Case::Sw { .. } => "timers:stopwatch",
        Case::Timer { .. } => "timers:timer",
        Case::Ts { .. } => "timers:timestamp",
        Case::Resolve { .. } => "timers:get_time_source",
        Case::Env { .. } => "timers:time_source_overrides",
    }
}

fn shrink(c: &Case) -> Case {
    match c {
        Case::Sw { mode, ops } => {
            let mut ops = shrink_list(ops, |o| fails(&Case::Sw { mode: *mode, ops: o.to_vec() }));
            // smaller clock advances
            for i in 0..ops.len() {
                if let Op::Adv(d) = ops[i] {
                    for small in [1u64, 2, 3, 5, 7] {
                        if small < d {
                            let mut cand = ops.clone();
                            cand[i] = Op::Adv(small + i as u64 * 10);
                            if cand[i] != ops[i] && fails(&Case::Sw { mode: *mode, ops: cand.clone() }) {
                                ops = cand;
                                break;
                            }
                        }
                    }
                }
            }
            let unthreaded = Case::Sw { mode: Mode::Seq, ops: ops.clone() };
            if *mode != Mode::Seq && fails(&unthreaded) { unthreaded } else { Case::Sw { mode: *mode, ops } }
        }
        Case::Timer { default_ts, ops } => Case::Timer {
            default_ts: *default_ts,
            ops: shrink_list(ops, |o| fails(&Case::Timer { default_ts: *default_ts, ops: o.to_vec() })),
        },
        Case::Ts { w0, ops } => Case::Ts { w0: *w0, ops: shrink_list(ops, |o| fails(&Case::Ts { w0: *w0, ops: o.to_vec() })) },
        Case::Resolve { .. } => c.clone(),
        Case::Env { ops } => Case::Env { ops: shrink_list(ops, |o| fails(&Case::Env { ops: o.to_vec() })) },
    }
}

// ------------------------------------------------------------------------------------------------
// generators

/// validity tracker for stopwatch sequences (which operations are expressible next)
#[derive(Clone, Default)]
struct Shape {
    borrowed: bool,
    live: [bool; MAX_SLOTS],
    /// slots are introduced in order (slot k+1 only after slot k was used): removes renamings
    used: usize,
}

impl Shape {
    /// `unwind`: include the "dropped by a contained unwinding panic" variants (`ub`, `uo<k>`; the
    /// panicking-thread variant `vo<k>` is substituted for `uo<k>` by the random generators)
    fn options(&self, slots: usize, unwind: bool, out: &mut Vec<Op>) {
        out.clear();
        out.push(Op::Adv(0));
        if self.borrowed {
            out.extend([Op::Pb, Op::Db, Op::Xb, Op::Wb]);
            if unwind {
                out.push(Op::Ub);
            }
        } else {
            out.push(Op::Sb);
            out.push(Op::C);
            for k in 0..slots.min(self.used + 1) {
                if !self.live[k] {
                    out.push(Op::So(k as u8));
                }
            }
        }
        for k in 0..slots {
            if self.live[k] {
                let k = k as u8;
                out.extend([Op::Po(k), Op::Do(k), Op::Xo(k), Op::Wo(k)]);
                if unwind {
                    out.push(Op::Uo(k));
                }
            }
        }
    }
    fn apply(&mut self, op: Op) {
        match op {
            Op::Sb => self.borrowed = true,
            Op::Pb | Op::Db | Op::Xb | Op::Wb | Op::Ub => self.borrowed = false,
            Op::So(k) => {
                self.live[k as usize] = true;
                self.used = self.used.max(k as usize + 1);
            }
            Op::Po(k) | Op::Do(k) | Op::Xo(k) | Op::Wo(k) | Op::Uo(k) | Op::Vo(k) => self.live[k as usize] = false,
            Op::Adv(_) | Op::C => {}
        }
    }
}

/// every expressible sequence of exactly `len` operations extending `prefix` (observing after every
/// prefix covers the shorter ones); the advance at position i is by 8^i ns, so every subset (and
/// multiplicity up to 7) of advances has its own total
fn enumerate_sw(prefix: &mut Vec<Op>, shape: &Shape, len: usize, slots: usize, unwind: bool, f: &mut impl FnMut(&[Op])) {
    if prefix.len() == len {
        f(prefix);
        return;
    }
    let mut opts = vec![];
    shape.options(slots, unwind, &mut opts);
    for op in opts {
        let op = if let Op::Adv(_) = op { Op::Adv(8u64.pow(prefix.len() as u32)) } else { op };
        let mut s = shape.clone();
        s.apply(op);
        prefix.push(op);
        enumerate_sw(prefix, &s, len, slots, unwind, f);
        prefix.pop();
    }
}

fn gen_advance(rng: &mut Rng, nasty: bool) -> u64 {
    if nasty {
        match rng.below(8) {
            0 => 0,
            1 => 1,
            2 => 999_999_999,
            3 => 1_000_000_000,
            4 => 1u64 << 62,
            5 => (1u64 << 53) + 1,
            6 => u32::MAX as u64 + 1,
            _ => rng.below(1u64 << 60),
        }
    } else {
        match rng.below(10) {
            0 => 0,
            1..=5 => rng.range(1, 1000),
            6..=8 => rng.range(1, 5_000_000_000),
            _ => rng.range(1, 1u64 << 45),
        }
    }
}

fn gen_sw(rng: &mut Rng, len: usize, slots: usize, nasty: bool) -> Vec<Op> {
    let mut shape = Shape::default();
    let mut ops = vec![];
    let mut opts = vec![];
    // weights: bias towards advancing between guard operations and towards keeping guards alive
    let p_adv = rng.range(2, 5);
    while ops.len() < len {
        if rng.below(10) < p_adv {
            ops.push(Op::Adv(gen_advance(rng, nasty)));
            continue;
        }
        shape.options(slots, true, &mut opts);
        let cand: Vec<Op> = opts.iter().copied().filter(|o| !matches!(o, Op::Adv(_))).collect();
        // `clear` is rare, otherwise long sequences hardly accumulate
        let op = loop {
            let o = *rng.pick(&cand);
            if o == Op::C && !rng.chance(1, 4) {
                continue;
            }
            break o;
        };
        // a quarter of the owned unwinding drops happen on a thread that panics while owning the guard
        // (thread creation dominates the cost of the random streams)
        let op = match op {
            Op::Uo(k) if rng.chance(1, 4) => Op::Vo(k),
            o => o,
        };
        // random slot order for owned starts (no canonical-naming restriction in the random stream)
        let op = if let Op::So(_) = op {
            let free: Vec<u8> = (0..slots as u8).filter(|k| !shape.live[*k as usize]).collect();
            Op::So(*rng.pick(&free))
        } else {
            op
        };
        shape.apply(op);
        if let Op::So(k) = op {
            shape.used = shape.used.max(k as usize + 1).max(slots);
        }
        ops.push(op);
    }
    ops
}

/// rounds of: start 2–4 owned guards, maybe a borrowed one, finish all owned ones in one run
/// (the run is executed in parallel in mode `swp`), finish the borrowed one
fn gen_sw_bursts(rng: &mut Rng, rounds: usize, nasty: bool) -> Vec<Op> {
    let mut ops = vec![];
    for _ in 0..rounds {
        let mut slots: Vec<u8> = (0..5).collect();
        rng.shuffle(&mut slots);
        slots.truncate(rng.range(2, 4) as usize);
        for k in &slots {
            ops.push(Op::So(*k));
            if rng.chance(2, 3) {
                ops.push(Op::Adv(gen_advance(rng, nasty)));
            }
        }
        let borrowed = rng.chance(1, 3);
        if borrowed {
            ops.push(Op::Sb);
            ops.push(Op::Adv(gen_advance(rng, nasty)));
        }
        rng.shuffle(&mut slots);
        for k in &slots {
            ops.push(match rng.below(13) {
                0..=4 => Op::Po(*k),
                5..=6 => Op::Do(*k),
                7 => Op::Uo(*k),
                8 => Op::Vo(*k),
                9..=11 => Op::Xo(*k),
                _ => Op::Wo(*k),
            });
        }
        if borrowed {
            ops.push(*rng.pick(&[Op::Pb, Op::Db, Op::Xb, Op::Wb, Op::Ub]));
        }
        if rng.chance(1, 4) {
            ops.push(Op::C);
        }
        if rng.chance(1, 2) {
            ops.push(Op::Adv(gen_advance(rng, nasty)));
        }
    }
    ops
}

fn gen_timer(rng: &mut Rng, len: usize, nasty: bool) -> Vec<TOp> {
    (0..len).map(|_| if rng.chance(1, 3) { TOp::Stop } else { TOp::Adv(gen_advance(rng, nasty)) }).collect()
}

fn gen_wall(rng: &mut Rng) -> i128 {
    let max_secs: i128 = 1i128 << 62;
    match rng.below(14) {
        0 => 0,
        1 => -1,
        2 => 1,
        3 => 999,
        4 => 1000,
        5 => -(rng.below(1u64 << 62) as i128),
        6 => max_secs * 1_000_000_000 + 999_999_999,
        7 => ((1i128 << 53) + 1) * 1_000_000_000 + rng.below(1_000_000_000) as i128,
        8 => (rng.below(1u64 << 62) as i128) * 1_000_000_000 + rng.below(1_000_000_000) as i128,
        // around now, with sub-microsecond / sub-millisecond parts
        9 | 10 => 1_700_000_000_000_000_000 + rng.below(400_000_000_000_000_000) as i128,
        11 => (rng.range(1, 4_000_000_000) as i128) * 1_000_000_000 + *rng.pick(&[0i128, 1, 999, 1000, 999_999, 1_000_000, 999_999_999]),
        12 => rng.below(2_000_000) as i128,
        _ => rng.below(u64::MAX) as i128,
    }
}

fn gen_ts(rng: &mut Rng, len: usize) -> (i128, Vec<SOp>) {
    let w0 = gen_wall(rng);
    let mut pending = 0;
    let mut ops = vec![];
    while ops.len() < len {
        match rng.below(7) {
            0 | 1 => ops.push(SOp::Wall(gen_wall(rng))),
            2 | 3 => ops.push(SOp::New),
            4 => {
                ops.push(SOp::OnClose);
                pending += 1;
            }
            _ => {
                if pending > 0 {
                    ops.push(SOp::Close);
                    pending -= 1;
                }
            }
        }
    }
    (w0, ops)
}

fn nontrivial(c: &Case) -> bool {
    match c {
        Case::Sw { ops, .. } => {
            let ends = ops.iter().filter(|o| matches!(o, Op::Pb | Op::Db | Op::Xb | Op::Wb | Op::Ub | Op::Po(_) | Op::Do(_) | Op::Xo(_) | Op::Wo(_) | Op::Uo(_) | Op::Vo(_))).count();
            let special = ops.iter().any(|o| matches!(o, Op::So(_) | Op::Xb | Op::Wb | Op::C));
            let adv = ops.iter().any(|o| matches!(o, Op::Adv(d) if *d > 0));
            ends >= 2 && special && adv
        }
        Case::Timer { ops, .. } => ops.iter().position(|o| *o == TOp::Stop).map(|i| ops[i..].iter().any(|o| matches!(o, TOp::Adv(d) if *d > 0))).unwrap_or(false),
        Case::Ts { ops, .. } => {
            let first_new = ops.iter().position(|o| matches!(o, SOp::New | SOp::OnClose));
            first_new.map(|i| ops[i..].iter().any(|o| matches!(o, SOp::Wall(_)))).unwrap_or(false)
        }
        Case::Resolve { e, t, r } => (*e as u8 + *t as u8 + *r as u8) >= 2,
        Case::Env { ops } => env_nontrivial(ops),
    }
}

// ------------------------------------------------------------------------------------------------
// running batches (one shard = one thread with its own driver process)

enum Work {
    Batch(Vec<Case>),
    /// every expressible stopwatch sequence of exactly `len` operations extending `prefix`
    Exhaustive { prefix: Vec<Op>, len: usize, slots: usize, unwind: bool },
}

fn fnv(s: &str) -> u64 {
    let mut h: u64 = 0xcbf29ce484222325;
    for b in s.bytes() {
        h ^= b as u64;
        h = h.wrapping_mul(0x100000001b3);
    }
    h
}

#[derive(Default)]
struct Shard {
    evaluations: u64,
    /// hashes of the non-trivial cases that are not part of an exhaustive enumeration
    nontrivial: Vec<u64>,
    exhaustive_nontrivial: u64,
    exhaustive_sequences: u64,
    dist: BTreeMap<String, u64>,
    oracle_failures: Vec<(String, String, String, String)>,
    disagreements: Vec<(String, String, String, String)>,
    samples: Vec<(u64, Json)>,
    driver_missing: bool,
}

impl Shard {
    fn bump(&mut self, k: &str, n: u64) {
        *self.dist.entry(k.to_string()).or_insert(0) += n;
    }
}

fn op_kind(o: &Op) -> &'static str {
    match o {
        Op::Adv(0) => "sw op:advance 0",
        Op::Adv(_) => "sw op:advance",
        Op::Sb => "sw op:start",
        Op::Pb => "sw op:stop (borrowed)",
        Op::Db => "sw op:drop (borrowed)",
        Op::Ub => "sw op:drop by unwinding out of catch_unwind (borrowed)",
        Op::Uo(_) => "sw op:drop by unwinding out of catch_unwind (owned)",
        Op::Vo(_) => "sw op:drop by a panicking thread (owned)",
        Op::Xb => "sw op:discard (borrowed)",
        Op::Wb => "sw op:overwrite (borrowed)",
        Op::So(_) => "sw op:start_owned",
        Op::Po(_) => "sw op:stop (owned)",
        Op::Do(_) => "sw op:drop (owned)",
        Op::Xo(_) => "sw op:discard (owned)",
        Op::Wo(_) => "sw op:overwrite (owned)",
        Op::C => "sw op:clear",
    }
}

fn measure(c: &Case, out: &str, sh: &mut Shard) {
    match c {
        Case::Sw { mode, ops } => {
            sh.bump(
                match mode {
                    Mode::Seq => "component:stopwatch",
                    Mode::Threaded => "component:stopwatch (owned guards finished on other threads)",
                    Mode::Parallel => "component:stopwatch (owned guards finished on parallel threads at once)",
                },
                1,
            );
            if *mode == Mode::Parallel {
                for (_, n) in parallel_groups(ops) {
                    sh.bump(&format!("sw parallel group size:{}", n.min(4)), 1);
                }
            }
            sh.bump(&format!("sw length:{}", match ops.len() { 0..=4 => "0-4", 5..=8 => "5-8", 9..=20 => "9-20", 21..=60 => "21-60", _ => "61+" }), 1);
            for o in ops {
                sh.bump(op_kind(o), 1);
            }
            // branches: representation at the end, max concurrently live owned guards, kinds of reports
            let mut live = 0usize;
            let mut max_live = 0usize;
            let mut shared = false;
            let mut excl_guard_after_shared = false;
            let mut borrowed = false;
            let mut owned_while_borrowed = false;
            for o in ops {
                match o {
                    Op::So(_) => {
                        live += 1;
                        shared = true;
                    }
                    Op::Po(_) | Op::Do(_) | Op::Xo(_) | Op::Wo(_) | Op::Uo(_) | Op::Vo(_) => {
                        live -= 1;
                        if borrowed {
                            owned_while_borrowed = true;
                        }
                    }
                    Op::Sb => {
                        borrowed = true;
                        if shared {
                            excl_guard_after_shared = true;
                        }
                    }
                    Op::Pb | Op::Db | Op::Xb | Op::Wb | Op::Ub => borrowed = false,
                    _ => {}
                }
                max_live = max_live.max(live);
            }
            sh.bump(&format!("sw max live owned guards:{}", max_live.min(4)), 1);
            sh.bump(if shared { "sw representation at end:shared" } else { "sw representation at end:exclusive" }, 1);
            if excl_guard_after_shared {
                sh.bump("sw branch:borrowed guard on a shared stopwatch", 1);
            }
            if owned_while_borrowed {
                sh.bump("sw branch:owned guard finished while a borrowed guard is live", 1);
            }
            for t in out.split(' ') {
                if let Some((_, c)) = t.split_once('/') {
                    sh.bump(match c { "n" => "sw close:None", "-" => "sw close:not expressible (borrowed)", "0" => "sw close:Some(0)", _ => "sw close:Some(>0)" }, 1);
                }
            }
        }
        Case::Timer { default_ts, ops } => {
            sh.bump(if *default_ts { "component:timer (thread-local time source)" } else { "component:timer" }, 1);
            sh.bump(&format!("timer stops:{}", ops.iter().filter(|o| **o == TOp::Stop).count().min(3)), 1);
        }
        Case::Ts { ops, .. } => {
            sh.bump("component:timestamps", 1);
            for o in ops {
                sh.bump(match o { SOp::Wall(w) if *w < 0 => "ts op:wall before epoch", SOp::Wall(_) => "ts op:wall", SOp::New => "ts op:new Timestamp", SOp::OnClose => "ts op:new TimestampOnClose", SOp::Close => "ts op:close TimestampOnClose" }, 1);
            }
        }
        Case::Resolve { .. } => {
            sh.bump("component:get_time_source", 1);
            sh.bump(&format!("resolve:{out}"), 1);
        }
        Case::Env { ops } => {
            sh.bump("component:time-source overrides", 1);
            let mut depth = 0usize;
            let mut max_depth = 0usize;
            for o in ops {
                match o {
                    EOp::Install(..) | EOp::Begin(_) => depth += 1,
                    EOp::DropG(_) | EOp::End => depth = depth.saturating_sub(1),
                    _ => {}
                }
                max_depth = max_depth.max(depth);
                sh.bump(
                    &match o {
                        EOp::Install(..) => "env op:set_time_source".to_string(),
                        EOp::DropG(_) => "env op:drop guard".to_string(),
                        EOp::Begin(_) => "env op:with_time_source begin".to_string(),
                        EOp::End => "env op:with_time_source end".to_string(),
                        EOp::InstallRt(_) => "env op:set runtime source".to_string(),
                        EOp::DropRt => "env op:drop runtime guard".to_string(),
                        EOp::Wall(_) | EOp::Adv(_) => "env op:move a clock".to_string(),
                        EOp::Construct(k, _) => format!("env constructor:{}", k.name()),
                    },
                    1,
                );
            }
            sh.bump(&format!("env max nesting depth:{}", max_depth.min(4)), 1);
            sh.bump(if env_lifo(ops) { "env drop order:LIFO" } else { "env drop order:out of order (binding judged by the model only)" }, 1);
            for t in out.split(' ') {
                let t = t.strip_prefix("end:").unwrap_or(t);
                for b in t.split(',') {
                    if b.starts_with('s') {
                        sh.bump(if b == "sys" { "env binding:system clock" } else { "env binding:a fake source" }, 1);
                    }
                }
            }
        }
    }
}

fn run_batch(cases: &[Case], driver: &Option<String>, sh: &mut Shard, exhaustive: bool) {
    let mut requests = vec![];
    let mut outs = vec![];
    let mut idx = vec![];
    for (ci, c) in cases.iter().enumerate() {
        let Some(out) = run_impl(c) else {
            sh.bump("skipped:inexpressible", 1);
            continue;
        };
        sh.evaluations += 1;
        let enc = c.encode();
        let hash = fnv(&enc);
        if nontrivial(c) {
            if exhaustive {
                sh.exhaustive_nontrivial += 1;
            } else {
                sh.nontrivial.push(hash);
            }
        }
        measure(c, &out, sh);
        // samples: chosen by hash of the case text (independent of scheduling), smallest hashes win
        if hash % 4099 == 0 && sh.samples.len() < 64 {
            let mut o = out.clone();
            o.truncate(300);
            sh.samples.push((hash, json!({"case": enc, "impl": o})));
        }
        if let Some(what) = oracle(c, &out) {
            if sh.oracle_failures.len() < 20 {
                let m = shrink(c);
                let mo = run_impl(&m).unwrap_or_default();
                let mw = oracle(&m, &mo).unwrap_or(what);
                sh.oracle_failures.push((key_of(&m).to_string(), m.encode(), mo, mw));
            }
        }
        requests.push(c.request());
        outs.push(out);
        idx.push(ci);
    }
    let t0 = std::time::Instant::now();
    let rr = run_driver(driver, "timers", &requests);
    if std::env::var("VERIF_TIMING").is_ok() {
        eprintln!("driver: {} requests, {} bytes, {:?} ({})", requests.len(), requests.iter().map(|r| r.len()).sum::<usize>(), t0.elapsed(), requests.first().map(|s| &s[..s.len().min(30)]).unwrap_or(""));
    }
    match rr {
        Some(replies) => {
            sh.bump("model requests", requests.len() as u64);
            for ((out, reply), ci) in outs.iter().zip(replies.iter()).zip(idx.iter()) {
                let reply = &canon_reply(&cases[*ci], reply);
                if out != reply && sh.disagreements.len() < 20 {
                    sh.disagreements.push((key_of(&cases[*ci]).replace(':', "/"), cases[*ci].encode(), out.clone(), reply.clone()));
                }
            }
        }
        None => sh.driver_missing = true,
    }
}

fn canon_reply(c: &Case, reply: &str) -> String {
    match c {
        Case::Sw { mode: Mode::Parallel, ops } => blank_parallel(ops, reply),
        _ => reply.to_string(),
    }
}

/// minimal disagreeing form of a case (re-asks the driver)
fn shrink_disagreement(c: &Case, driver: &Option<String>) -> Case {
    let disagrees = |c: &Case| -> bool {
        let Some(out) = run_impl(c) else { return false };
        match run_driver(driver, "timers", &[c.request()]) {
            Some(r) => canon_reply(c, &r[0]) != out,
            None => false,
        }
    };
    match c {
        Case::Sw { mode, ops } => Case::Sw { mode: *mode, ops: shrink_list(ops, |o| disagrees(&Case::Sw { mode: *mode, ops: o.to_vec() })) },
        Case::Timer { default_ts, ops } => Case::Timer { default_ts: *default_ts, ops: shrink_list(ops, |o| disagrees(&Case::Timer { default_ts: *default_ts, ops: o.to_vec() })) },
        Case::Ts { w0, ops } => Case::Ts { w0: *w0, ops: shrink_list(ops, |o| disagrees(&Case::Ts { w0: *w0, ops: o.to_vec() })) },
        Case::Resolve { .. } => c.clone(),
        Case::Env { ops } => Case::Env { ops: shrink_list(ops, |o| disagrees(&Case::Env { ops: o.to_vec() })) },
    }
}

/// neighbours of a disagreeing case, oracle only
fn targeted_search(c: &Case, rng: &mut Rng, budget: u64, rep: &mut Report) {
    let mut found: Option<(Case, String, String)> = None;
    for _ in 0..budget {
        let cand = match c {
            Case::Sw { mode, ops } => {
                let mut o = ops.clone();
                let extra = gen_sw(rng, 6, 3, false);
                for _ in 0..rng.range(1, 3) {
                    match rng.below(4) {
                        0 if !o.is_empty() => {
                            let i = rng.below(o.len() as u64) as usize;
                            o.remove(i);
                        }
                        1 => {
                            let i = rng.below(o.len() as u64 + 1) as usize;
                            o.insert(i, *rng.pick(&extra));
                        }
                        2 if !o.is_empty() => {
                            let i = rng.below(o.len() as u64) as usize;
                            o[i] = *rng.pick(&extra);
                        }
                        _ => o.extend(extra.iter().take(rng.range(1, 6) as usize)),
                    }
                }
                Case::Sw { mode: *mode, ops: o }
            }
            Case::Timer { default_ts, ops } => {
                let mut o = ops.clone();
                o.extend(gen_timer(rng, 3, false));
                if !o.is_empty() {
                    let i = rng.below(o.len() as u64) as usize;
                    o.remove(i);
                }
                Case::Timer { default_ts: *default_ts, ops: o }
            }
            Case::Ts { .. } => {
                let (w0, ops) = gen_ts(rng, 6);
                Case::Ts { w0, ops }
            }
            Case::Resolve { .. } => Case::Resolve { e: rng.chance(1, 2), t: rng.chance(1, 2), r: rng.chance(1, 2) },
            Case::Env { .. } => {
                let len = rng.range(2, 12) as usize;
                Case::Env { ops: gen_env(rng, len) }
            }
        };
        rep.search_cases += 1;
        if fails(&cand) {
            let m = shrink(&cand);
            let out = run_impl(&m).unwrap_or_default();
            let what = oracle(&m, &out).unwrap_or_default();
            found = Some((m, out, what));
            break;
        }
    }
    if let Some((m, out, what)) = found {
        rep.search_found = true;
        rep.oracle_failure(key_of(&m), &m.encode(), &out, &what);
    }
}

fn main() {
    quiet_panics();
    let args = Args::parse();
    let mut rep = Report::new(
        &args,
        "timers",
        "case = one operation sequence on a stopwatch / timer / set of timestamps (observed after every prefix) or one \
         get_time_source configuration; non-trivial = stopwatch: at least two finished guards, at least one of \
         {owned guard, discard, overwrite, clear} and a non-zero clock advance; timer: a stop followed by a non-zero \
         advance; timestamps: the wall clock changes after a timestamp was created; resolve: at least two sources present; \
         distinct by case text",
    );
    let mut rng = Rng::new(args.seed);
    let thorough = args.thorough();
    let threads: usize = args.extra.get("threads").and_then(|s| s.parse().ok()).unwrap_or(if thorough { 14 } else { 4 });

    // ---- build the work list ---------------------------------------------------------------------
    let mut work: Vec<Work> = vec![];
    if let Some(line) = args.replay_case() {
        work.push(Work::Batch(Case::decode(&line).into_iter().collect()));
    } else {
        let corpus: Vec<Case> = args.corpus_cases().iter().filter_map(|l| Case::decode(l)).collect();
        rep.bump_by("corpus cases", corpus.len() as u64);
        work.push(Work::Batch(corpus));

        // (1) stopwatch, exhaustive: every expressible sequence of exactly L operations over
        //     {advance, start, stop, drop, discard, overwrite, clear} × {borrowed, owned slots 0..S-1};
        //     one work unit per expressible 3-operation prefix, expanded lazily by the worker
        //     (length, owned slots, with the "dropped by a contained unwinding panic" variants `ub`/`uo<k>`)
        //     the two longest plans run in the dev profile only (release: length 7, 3 slots): the release
        //     profile exists to catch optimisation-dependent behaviour, the thorough budget is shared
        let plans: &[(usize, usize, bool)] = if thorough {
            if cfg!(debug_assertions) { &[(9, 2, false), (8, 3, true)] } else { &[(7, 3, true)] }
        } else {
            &[(7, 2, true), (6, 3, true)]
        };
        for (len, slots, unwind) in plans {
            enumerate_sw(&mut vec![], &Shape::default(), 3, *slots, *unwind, &mut |prefix| {
                work.push(Work::Exhaustive { prefix: prefix.to_vec(), len: *len, slots: *slots, unwind: *unwind });
            });
        }
        // (2) stopwatch, random long sequences
        let n_rand = if thorough { 300_000 } else { 20_000 };
        let mut cur = vec![];
        for i in 0..n_rand {
            let len = match i % 4 {
                0 => 40,
                1 => rng.range(5, 30) as usize,
                2 => rng.range(30, 80) as usize,
                _ => {
                    if thorough {
                        rng.range(80, 200) as usize
                    } else {
                        40
                    }
                }
            };
            let slots = rng.range(1, 4) as usize;
            let nasty = i % 5 == 0;
            let mode = match i % 16 {
                7 => Mode::Threaded,
                3 | 11 => Mode::Parallel,
                _ => Mode::Seq,
            };
            let ops = if mode == Mode::Parallel || i % 16 == 5 {
                let rounds = rng.range(1, 6) as usize;
                gen_sw_bursts(&mut rng, rounds, nasty)
            } else {
                gen_sw(&mut rng, len, slots, nasty)
            };
            cur.push(Case::Sw { mode, ops });
            if cur.len() >= 2_000 {
                work.push(Work::Batch(std::mem::take(&mut cur)));
            }
        }
        work.push(Work::Batch(std::mem::take(&mut cur)));
        // (3) timer: exhaustive over {a, s} to length 10 (14), then random
        let tl = if thorough { 14 } else { 10 };
        for bits in 0u32..(1 << tl) {
            let ops: Vec<TOp> = (0..tl).map(|i| if bits >> i & 1 == 1 { TOp::Stop } else { TOp::Adv(3u64.pow(i as u32)) }).collect();
            cur.push(Case::Timer { default_ts: bits % 2 == 1, ops });
            if cur.len() >= 2_000 {
                work.push(Work::Batch(std::mem::take(&mut cur)));
            }
        }
        for i in 0..(if thorough { 60_000 } else { 3_000 }) {
            let len = rng.range(0, 30) as usize;
            cur.push(Case::Timer { default_ts: rng.chance(1, 2), ops: gen_timer(&mut rng, len, i % 3 == 0) });
            if cur.len() >= 2_000 {
                work.push(Work::Batch(std::mem::take(&mut cur)));
            }
        }
        work.push(Work::Batch(std::mem::take(&mut cur)));
        // (4) timestamps
        for _ in 0..(if thorough { 150_000 } else { 6_000 }) {
            let len = rng.range(1, 10) as usize;
            let (w0, ops) = gen_ts(&mut rng, len);
            cur.push(Case::Ts { w0, ops });
            if cur.len() >= 1_000 {
                work.push(Work::Batch(std::mem::take(&mut cur)));
            }
        }
        work.push(Work::Batch(std::mem::take(&mut cur)));
        // (5) get_time_source: all eight configurations
        for bits in 0..8 {
            cur.push(Case::Resolve { e: bits & 1 != 0, t: bits & 2 != 0, r: bits & 4 != 0 });
        }
        work.push(Work::Batch(std::mem::take(&mut cur)));
        // (6) time-source overrides over time: exhaustive short sequences, then random nested ones
        let el = if thorough { 7 } else { 6 };
        let mut n_env = 0u64;
        enumerate_env(&mut vec![], &EnvShape::default(), el, &mut |ops| {
            // only sequences that construct something
            if ops.iter().any(|o| matches!(o, EOp::Construct(..))) {
                n_env += 1;
                cur.push(Case::Env { ops: ops.to_vec() });
                if cur.len() >= 500 {
                    work.push(Work::Batch(std::mem::take(&mut cur)));
                }
            }
        });
        rep.bump_by(&format!("env exhaustive: expressible sequences of length {el} with a construction"), n_env);
        for _ in 0..(if thorough { 120_000 } else { 8_000 }) {
            let len = rng.range(3, 16) as usize;
            cur.push(Case::Env { ops: gen_env(&mut rng, len) });
            if cur.len() >= 500 {
                work.push(Work::Batch(std::mem::take(&mut cur)));
            }
        }
        work.push(Work::Batch(std::mem::take(&mut cur)));
        rep.exhaustive = true;
    }

    // ---- run the work units on `threads` threads (which thread runs which unit does not matter:
    //      every result is a sum, a set, or sorted below) -----------------------------------------
    let next = std::sync::atomic::AtomicUsize::new(0);
    let driver = args.driver.clone();
    let shards: Vec<Shard> = std::thread::scope(|s| {
        let hs: Vec<_> = (0..threads)
            .map(|_| {
                s.spawn(|| {
                    let mut sh = Shard::default();
                    loop {
                        let b = next.fetch_add(1, std::sync::atomic::Ordering::SeqCst);
                        if b >= work.len() {
                            break;
                        }
                        match &work[b] {
                            Work::Batch(cases) => {
                                if !cases.is_empty() {
                                    run_batch(cases, &driver, &mut sh, false);
                                }
                            }
                            Work::Exhaustive { prefix, len, slots, unwind } => {
                                let mut shape = Shape::default();
                                for op in prefix {
                                    shape.apply(*op);
                                }
                                let mut cur: Vec<Case> = vec![];
                                let mut n = 0u64;
                                let mut p = prefix.clone();
                                enumerate_sw(&mut p, &shape, *len, *slots, *unwind, &mut |ops| {
                                    n += 1;
                                    cur.push(Case::Sw { mode: Mode::Seq, ops: ops.to_vec() });
                                    if cur.len() >= 10_000 {
                                        run_batch(&cur, &driver, &mut sh, true);
                                        cur.clear();
                                    }
                                });
                                if !cur.is_empty() {
                                    run_batch(&cur, &driver, &mut sh, true);
                                }
                                sh.bump(&format!("sw exhaustive: expressible sequences of length {len} with {slots} owned slots{}", if *unwind { ", unwinding drops included" } else { "" }), n);
                                sh.exhaustive_sequences += n;
                            }
                        }
                    }
                    sh
                })
            })
            .collect();
        hs.into_iter().map(|h| h.join().expect("shard")).collect()
    });

    // ---- merge (deterministically: everything is sorted / summed) ------------------------------
    let mut failures = vec![];
    let mut disagreements = vec![];
    let mut samples = vec![];
    let mut exhaustive_nontrivial = 0u64;
    let mut exhaustive_sequences = 0u64;
    for sh in shards {
        rep.evaluations += sh.evaluations;
        exhaustive_nontrivial += sh.exhaustive_nontrivial;
        exhaustive_sequences += sh.exhaustive_sequences;
        rep.nontrivial.extend(sh.nontrivial);
        for (k, v) in sh.dist {
            rep.bump_by(&k, v);
        }
        failures.extend(sh.oracle_failures);
        disagreements.extend(sh.disagreements);
        samples.extend(sh.samples);
        if sh.driver_missing {
            rep.driver_available = false;
        }
    }
    if exhaustive_sequences > 0 {
        rep.notes.push(format!(
            "stopwatch sequences are generated expressible-only (Rust borrow rules: no stopwatch method while a TimerGuard is live); \
             {exhaustive_sequences} expressible maximal sequences enumerated exhaustively (every shorter sequence is a prefix, observed too); \
             the {exhaustive_nontrivial} non-trivial ones among them are distinct by construction and counted, not hashed"
        ));
    }
    failures.sort_by(|a, b| (a.1.len(), &a.1).cmp(&(b.1.len(), &b.1)));
    failures.dedup();
    disagreements.sort_by(|a, b| (a.1.len(), &a.1).cmp(&(b.1.len(), &b.1)));
    samples.sort_by_key(|s| s.0);
    for s in samples {
        rep.sample(s.1);
    }
    for (key, case, out, what) in &failures {
        rep.oracle_failure(key, case, out, what);
    }
    if let Some((comp, case, _, _)) = disagreements.first().cloned() {
        // minimal disagreeing case first
        if let Some(c) = Case::decode(&case) {
            let m = shrink_disagreement(&c, &args.driver);
            let out = run_impl(&m).unwrap_or_default();
            let reply = run_driver(&args.driver, "timers", &[m.request()]).map(|r| canon_reply(&m, &r[0])).unwrap_or_default();
            if out != reply {
                rep.disagreement(&comp, &m.encode(), &out, &reply);
            }
            if failures.is_empty() {
                let budget = if thorough { 2_000_000 } else { 400_000 };
                targeted_search(&m, &mut rng, budget, &mut rep);
            }
        }
    }
    for (comp, case, out, reply) in &disagreements {
        rep.disagreement(comp, case, out, reply);
    }
    // the exhaustive cases are distinct by construction: counted exactly instead of hashed
    let mut j = rep.to_json();
    j["distinct_nontrivial"] = json!(rep.nontrivial.len() as u64 + exhaustive_nontrivial);
    let text = serde_json::to_string_pretty(&j).unwrap();
    if args.out.is_empty() {
        println!("{text}");
    } else {
        std::fs::write(&args.out, text).expect("write report");
    }
}
