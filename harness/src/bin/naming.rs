//! Engine `naming` (C07): the real `#[metrics]` macro against the documented naming function and
//! the Lean expansion model, over generated *programs*.
//!
//! One run: generate well-formed definition trees (+ several instances each) → write
//! `gen_c07/src/bin/g<i>.rs` → `cargo build --offline` (the real macro, the real `metrique-core`
//! type-level machinery) → run → per instance the items a recording `EntryWriter` saw and
//! `sample_group()`.
//!  * property oracle (Rust, `verif_harness::c07::spec`, written from the documentation, independent
//!    of Lean): items and sample group must be the documented ones. Keys: `naming:item-count`,
//!    `naming:item-name`, `naming:item-value`, `naming:sample-group`, and
//!    `naming:sample-group-misses-flatten-prefix` for exactly the recorded known finding (pairs equal
//!    to the documented ones except that the flatten-prefix chain is missing from their names).
//!  * correspondence: the same instance goes to the Lean driver (`expandDef` / `sgDef` with the
//!    re-implemented Inflector and the limits regenerated from concat.rs); outputs must be equal.
//!  * sub-checks: Lean inflector vs the `Inflector` crate on ~20k texts; Lean `constStrValue` vs the
//!    real `const_str_value` on type-level concatenations around the limit.
//! On an unknown oracle failure or a disagreement the 1-field / 1-level reductions (and neighbours) of
//! the offending instances are generated and compiled once more; the smallest failing one is reported.
//!
//! Case line = request line of the driver: `D <instantiated definition>` (see lean/Driver/Naming.lean).

use std::collections::{BTreeMap, BTreeSet};
use std::path::{Path, PathBuf};
use std::process::Command;
use verif_harness::c07::*;
use verif_harness::*;

const KNOWN_KEY: &str = "naming:sample-group-misses-flatten-prefix";

// ------------------------------------------------------------------------------------------------
// unit names: attribute identifier (`unit = Count`) → what `Unit::name()` prints, from the real crate

macro_rules! unit_table {
    ($($u:ident),*) => {
        vec![$((stringify!($u), <metrique_writer_core::unit::$u as metrique_writer_core::unit::UnitTag>::UNIT.name())),*]
    };
}

fn unit_names() -> BTreeMap<&'static str, &'static str> {
    let t: Vec<(&'static str, &'static str)> = unit_table!(
        Count, Percent, Second, Millisecond, Microsecond, Byte, Kilobyte, Megabyte, Gigabyte, Terabyte, Bit, Kilobit,
        BytePerSecond, MegabytePerSecond, BitPerSecond, GigabitPerSecond, None
    );
    t.into_iter().collect()
}

#[derive(Clone, Debug, PartialEq, Eq)]
struct Emission {
    items: Vec<Item>,
    sg: Vec<(String, String)>,
}

fn utf8(h: &str) -> Option<String> {
    String::from_utf8(unhex(h)?).ok()
}

/// parses `I <items> ; G <pairs>` and canonicalises unit names
fn parse_emission(line: &str, units: &BTreeMap<&'static str, &'static str>) -> Option<Emission> {
    let rest = line.trim().strip_prefix('I')?;
    let (i, g) = rest.split_once(';')?;
    let g = g.trim().strip_prefix('G')?;
    let mut items = vec![];
    for t in i.split_whitespace() {
        let p: Vec<&str> = t.split(':').collect();
        if p.len() != 4 {
            return None;
        }
        let unit = utf8(p[3])?;
        let unit = units.get(unit.as_str()).map(|s| s.to_string()).unwrap_or(unit);
        items.push(Item { name: utf8(p[0])?, metric: p[1] == "m", value: utf8(p[2])?, unit });
        if p[1] != "m" && p[1] != "s" {
            return None;
        }
    }
    let mut sg = vec![];
    for t in g.split_whitespace() {
        let (k, v) = t.split_once('=')?;
        sg.push((utf8(k)?, utf8(v)?));
    }
    Some(Emission { items, sg })
}

fn canon_items(items: &[Item], units: &BTreeMap<&'static str, &'static str>) -> Vec<Item> {
    items
        .iter()
        .map(|i| Item { unit: units.get(i.unit.as_str()).map(|s| s.to_string()).unwrap_or(i.unit.clone()), ..i.clone() })
        .collect()
}

// ------------------------------------------------------------------------------------------------
// building and running the generated crate

struct Builder {
    gen_dir: PathBuf,
    repo: String,
    builds: u32,
    build_secs: f64,
}

impl Builder {
    fn new() -> Builder {
        let harness = Path::new(env!("CARGO_MANIFEST_DIR"));
        // the repository under verification is wherever harness/Cargo.toml points (scratch copies for mutations)
        let toml = std::fs::read_to_string(harness.join("Cargo.toml")).unwrap_or_default();
        let repo = toml
            .lines()
            .find_map(|l| {
                let l = l.trim();
                if l.starts_with("metrique =") {
                    let i = l.find("path = \"")? + 8;
                    let j = l[i..].find('"')? + i;
                    l[i..j].strip_suffix("/metrique").map(|s| s.to_string())
                } else {
                    None
                }
            })
            .unwrap_or_else(|| "/repo".to_string());
        Builder { gen_dir: harness.join("gen_c07"), repo, builds: 0, build_secs: 0.0 }
    }

    /// compiles `shards` binaries holding the instances, runs them, returns the recorded line per instance
    fn run(&mut self, cases: &[Def], shards: usize, jobs: usize) -> Result<Vec<Option<String>>, String> {
        let t0 = std::time::Instant::now();
        let toml = format!(
            "# written by harness/src/bin/naming.rs (path follows harness/Cargo.toml)\n[package]\nname = \"gen_c07\"\nversion = \"0.0.0\"\nedition = \"2024\"\npublish = false\nautobins = true\n\n[workspace]\n\n[dependencies]\nmetrique = {{ path = \"{}/metrique\", default-features = false }}\n\n[profile.dev]\nopt-level = 0\ndebug = 0\nincremental = false\n",
            self.repo
        );
        let toml_path = self.gen_dir.join("Cargo.toml");
        if std::fs::read_to_string(&toml_path).ok().as_deref() != Some(&toml) {
            std::fs::write(&toml_path, &toml).map_err(|e| format!("write Cargo.toml: {e}"))?;
        }
        let lock = self.gen_dir.join("Cargo.lock");
        if !lock.exists() {
            let _ = std::fs::copy(Path::new(env!("CARGO_MANIFEST_DIR")).join("Cargo.lock"), &lock);
        }
        let bin_dir = self.gen_dir.join("src").join("bin");
        let _ = std::fs::remove_dir_all(&bin_dir);
        std::fs::create_dir_all(&bin_dir).map_err(|e| format!("mkdir: {e}"))?;
        let shards = shards.max(1).min(cases.len().max(1));
        // instances of one type tree stay in one shard: assign by type signature
        let mut shard_of: BTreeMap<String, usize> = BTreeMap::new();
        let mut gens: Vec<Codegen> = (0..shards).map(|_| Codegen::new()).collect();
        for (id, d) in cases.iter().enumerate() {
            let sig = type_sig(d);
            let n = shard_of.len();
            let s = *shard_of.entry(sig).or_insert(n % shards);
            gens[s].add(id, d);
        }
        for (i, g) in gens.iter().enumerate() {
            std::fs::write(bin_dir.join(format!("g{i}.rs")), g.finish()).map_err(|e| format!("write: {e}"))?;
        }
        let out = Command::new("cargo")
            .args(["build", "--offline", "--bins", "-j", &jobs.to_string()])
            .current_dir(&self.gen_dir)
            .env_remove("RUSTFLAGS")
            .env_remove("CARGO_TARGET_DIR")
            .env_remove("CARGO_ENCODED_RUSTFLAGS")
            .env("CARGO_NET_OFFLINE", "true")
            .output()
            .map_err(|e| format!("cargo: {e}"))?;
        self.builds += 1;
        if !out.status.success() {
            let err = String::from_utf8_lossy(&out.stderr);
            let errs: Vec<&str> = err.lines().filter(|l| !l.contains("metrique_verif")).collect();
            let first = errs.iter().position(|l| l.starts_with("error")).unwrap_or(0);
            self.build_secs += t0.elapsed().as_secs_f64();
            return Err(errs[first..errs.len().min(first + 40)].join("\n"));
        }
        self.build_secs += t0.elapsed().as_secs_f64();
        let mut lines: Vec<Option<String>> = vec![None; cases.len()];
        for i in 0..shards {
            let exe = self.gen_dir.join("target").join("debug").join(format!("g{i}"));
            let o = Command::new(&exe).output().map_err(|e| format!("run g{i}: {e}"))?;
            if !o.status.success() {
                return Err(format!("g{i} exited with {:?}: {}", o.status.code(), String::from_utf8_lossy(&o.stderr)));
            }
            for l in String::from_utf8_lossy(&o.stdout).lines() {
                if let Some((id, rest)) = l.split_once('\t') {
                    if let Ok(id) = id.parse::<usize>() {
                        if id < lines.len() {
                            lines[id] = Some(rest.to_string());
                        }
                    }
                }
            }
        }
        Ok(lines)
    }
}

// ------------------------------------------------------------------------------------------------
// oracle

struct Verdict {
    key: String,
    what: String,
}

fn oracle(d: &Def, imp: &Emission, units: &BTreeMap<&'static str, &'static str>) -> Option<Verdict> {
    let s = spec(d);
    let want = canon_items(&s.items, units);
    if imp.items.len() != want.len() {
        return Some(Verdict {
            key: "naming:item-count".into(),
            what: format!("entry has {} items, the documented function gives {}", imp.items.len(), want.len()),
        });
    }
    for (a, b) in imp.items.iter().zip(want.iter()) {
        if a.name != b.name {
            return Some(Verdict {
                key: "naming:item-name".into(),
                what: format!("item named {:?}, documented name {:?}", a.name, b.name),
            });
        }
        if a != b {
            return Some(Verdict {
                key: "naming:item-value".into(),
                what: format!("item {:?} is {:?}/{}/{:?}, closed field is {:?}/{}/{:?}", a.name, a.value, a.metric, a.unit, b.value, b.metric, b.unit),
            });
        }
    }
    if imp.sg != s.sg {
        if imp.sg == s.sg_chainless {
            let (i, d) = imp.sg.iter().zip(s.sg.iter()).find(|(a, b)| a != b).unwrap();
            return Some(Verdict {
                key: KNOWN_KEY.into(),
                what: format!("sample-group pair is named {:?} but the written item (and the documented pair) is {:?}: the flatten prefix is missing", i.0, d.0),
            });
        }
        if imp.sg == s.sg_wrapper_dropped {
            return Some(Verdict {
                key: "naming:sample-group-dropped-by-wrapper".into(),
                what: format!(
                    "sample_group() = {:?} lacks the pairs of a child flattened through ForceFlag / WithDimensions (documented {:?})",
                    imp.sg, s.sg
                ),
            });
        }
        return Some(Verdict {
            key: "naming:sample-group".into(),
            what: format!("sample_group() = {:?}, documented {:?}", imp.sg, s.sg),
        });
    }
    None
}

fn show(e: &Emission) -> String {
    render(&e.items, &e.sg)
}

// ------------------------------------------------------------------------------------------------
// reductions

fn project(d: &Def) -> Def {
    Def::decode(&d.encode()).expect("encode/decode round trip")
}

fn with_fields(d: &Def, fields: Vec<Field>) -> Def {
    match d {
        Def::Struct { a, .. } => Def::Struct { a: a.clone(), fields },
        Def::Enum { a, tag, variants, sel } => {
            let v = &variants[*sel];
            let tuple = v.tuple && !fields.is_empty();
            Def::Enum {
                a: a.clone(),
                tag: tag.clone(),
                variants: vec![Variant { ident: v.ident.clone(), name: v.name.clone(), tuple, fields }],
                sel: 0,
            }
        }
    }
}

fn sel_fields(d: &Def) -> &Vec<Field> {
    match d {
        Def::Struct { fields, .. } => fields,
        Def::Enum { variants, sel, .. } => &variants[*sel].fields,
    }
}

/// every root-to-leaf single path of the (projected) instance: "1-field" reductions
fn paths(d: &Def) -> Vec<Def> {
    let mut out = vec![];
    if let Def::Enum { tag: Some(_), .. } = d {
        out.push(with_fields(d, vec![]));
    }
    for f in sel_fields(d) {
        match f {
            Field::Plain { .. } | Field::FlattenEntry { .. } => out.push(with_fields(d, vec![f.clone()])),
            Field::Flatten { pfx, optional, wrap, present, child } => {
                if *present {
                    for p in paths(child) {
                        out.push(with_fields(
                            d,
                            vec![Field::Flatten { pfx: pfx.clone(), optional: *optional, wrap: *wrap, present: true, child: Box::new(p) }],
                        ));
                    }
                }
            }
            Field::Ignore | Field::Timestamp => {}
        }
    }
    out
}

/// every present flattened child as a root of its own: "1-level" reductions
fn subtrees(d: &Def, out: &mut Vec<Def>) {
    for f in sel_fields(d) {
        if let Field::Flatten { present: true, child, .. } = f {
            out.push((**child).clone());
            subtrees(child, out);
        }
    }
}

fn unown(d: &mut Def) {
    fn fv(v: &mut FVal) {
        match v {
            FVal::Str { owned, .. } => *owned = false,
            FVal::Newtype { inner, .. } | FVal::Opt { inner, .. } => fv(inner),
            _ => {}
        }
    }
    fn fs(fields: &mut [Field]) {
        for f in fields {
            match f {
                Field::Plain { v, .. } => fv(v),
                Field::Flatten { child, .. } => unown(child),
                _ => {}
            }
        }
    }
    match d {
        Def::Struct { fields, .. } => fs(fields),
        Def::Enum { variants, .. } => variants.iter_mut().for_each(|v| fs(&mut v.fields)),
    }
}

fn reductions(d: &Def) -> Vec<Def> {
    let d = project(d);
    let mut out = paths(&d);
    let mut subs = vec![];
    subtrees(&d, &mut subs);
    for s in &subs {
        out.push(s.clone());
        out.extend(paths(s));
    }
    // neighbours of the single paths: every other root style, container prefix dropped
    let base: Vec<Def> = out.iter().take(24).cloned().collect();
    for b in base {
        for st in Style::ALL {
            let mut n = b.clone();
            match &mut n {
                Def::Struct { a, .. } | Def::Enum { a, .. } => {
                    if a.style == st {
                        continue;
                    }
                    a.style = st
                }
            }
            out.push(n);
        }
        let mut n = b.clone();
        match &mut n {
            Def::Struct { a, .. } | Def::Enum { a, .. } => {
                if a.pfx.is_none() {
                    continue;
                }
                a.pfx = None
            }
        }
        out.push(n);
    }
    let mut seen = BTreeSet::new();
    out.retain_mut(|d| {
        unown(d);
        seen.insert(d.encode())
    });
    out
}

// ------------------------------------------------------------------------------------------------
// hand-made minimal shapes, run on every check (each naming rule in isolation)

fn plain_u(ident: &str) -> Field {
    Field::Plain { ident: ident.into(), name: None, unit: None, sg: false, v: FVal::Num(NumTy::U64, 1) }
}

fn sg_str(ident: &str) -> Field {
    Field::Plain { ident: ident.into(), name: None, unit: None, sg: true, v: FVal::Str { s: "v".into(), owned: false } }
}

fn st(style: Style, pfx: Option<Pfx>, fields: Vec<Field>) -> Def {
    Def::Struct { a: Attrs { style, pfx }, fields }
}

fn fl(pfx: Option<Pfx>, child: Def) -> Field {
    Field::Flatten { pfx, optional: false, wrap: Wrap::Owned, present: true, child: Box::new(child) }
}

fn flw(pfx: Option<Pfx>, wrap: Wrap, optional: bool, child: Def) -> Field {
    Field::Flatten { pfx, optional, wrap, present: true, child: Box::new(child) }
}

fn seeds(thorough: bool) -> Vec<Def> {
    let mut out = vec![];
    let styles: &[Style] = if thorough { &Style::ALL } else { &[Style::Pascal, Style::Snake, Style::Kebab] };
    for &s in styles {
        // every container-level rule on one struct of four fields
        out.push(st(s, Some(Pfx::Infl("Api-v2_".into())), vec![
            plain_u("fooBar_baz2"),
            Field::Plain { ident: "x".into(), name: Some("N.Ducks".into()), unit: Some("Count".into()), sg: false, v: FVal::Num(NumTy::U64, 2) },
            Field::Ignore,
            Field::Plain { ident: "opt".into(), name: None, unit: None, sg: false, v: FVal::Opt { present: false, inner: Box::new(FVal::Num(NumTy::U64, 0)) } },
        ]));
        out.push(st(s, Some(Pfx::Exact("API.".into())), vec![plain_u("request_count")]));
        // flatten prefixes: inflectable with / without delimiter, exact; child inherits or overrides the style
        out.push(st(s, None, vec![
            fl(Some(Pfx::Infl("Down_stream-".into())), st(Style::Preserve, None, vec![plain_u("http_status"), Field::Plain { ident: "y".into(), name: Some("Raw".into()), unit: None, sg: false, v: FVal::Num(NumTy::U64, 3) }])),
            fl(Some(Pfx::Infl("noDelim".into())), st(Style::Kebab, Some(Pfx::Infl("in_".into())), vec![plain_u("aB")])),
            fl(Some(Pfx::Exact("é:".into())), st(Style::Snake, None, vec![plain_u("FooBar")])),
        ]));
        // entry enum tags
        out.push(Def::Enum {
            a: Attrs { style: s, pfx: Some(Pfx::Exact("API.".into())) },
            tag: Some(Tag { exact: false, name: "op_kind".into(), sg: true }),
            variants: vec![Variant { ident: "ReadData".into(), name: None, tuple: false, fields: vec![plain_u("n_bytes")] }],
            sel: 0,
        });
        out.push(Def::Enum {
            a: Attrs { style: s, pfx: Some(Pfx::Infl("e_".into())) },
            tag: Some(Tag { exact: true, name: "My.Op".into(), sg: false }),
            variants: vec![Variant { ident: "writeData".into(), name: Some("W".into()), tuple: false, fields: vec![] }],
            sel: 0,
        });
        // the known finding in its minimal forms: flatten prefix over a sample-group field / tag
        out.push(st(s, None, vec![fl(Some(Pfx::Infl("down_".into())), st(Style::Preserve, None, vec![sg_str("op")]))]));
    }
    // every way a flatten field can hold its child (every forwarding impl of metrique-core and every
    // CloseValue impl producing one), below a renaming root with a container prefix, one and two
    // flatten prefixes above; the child has a plain field and a sample-group field
    for &s in styles {
        let leaf = |sg: bool| {
            let mut f = vec![plain_u("fooBar")];
            if sg {
                f.push(sg_str("opKind"));
            }
            st(Style::Preserve, None, f)
        };
        let mut mid_fields = vec![];
        let mut top_fields = vec![plain_u("top_n")];
        for (i, w) in Wrap::ALL.iter().copied().enumerate() {
            let sg = true;
            let f = flw(Some(Pfx::Infl(format!("w{i}{}_", w.tok()))), w, i % 3 == 1, leaf(sg));
            if w.by_value_only() {
                top_fields.push(f);
            } else {
                mid_fields.push(f);
            }
        }
        top_fields.push(fl(Some(Pfx::Infl("Mid-".into())), st(Style::Preserve, Some(Pfx::Exact("M.".into())), mid_fields)));
        out.push(st(s, Some(Pfx::Infl("top_".into())), top_fields));
    }
    // a wrapper inside a wrapper, and a child with its own rename_all behind a wrapper
    out.push(st(Style::Snake, None, vec![flw(
        Some(Pfx::Infl("Outer".into())),
        Wrap::Arc,
        true,
        st(Style::Preserve, None, vec![flw(Some(Pfx::Exact("in:".into())), Wrap::Box, false, st(Style::Kebab, None, vec![plain_u("deepField"), sg_str("deepOp")]))]),
    )]));
    out.push(st(Style::Preserve, None, vec![fl(
        Some(Pfx::Exact("X:".into())),
        Def::Enum {
            a: Attrs { style: Style::Preserve, pfx: None },
            tag: Some(Tag { exact: false, name: "op".into(), sg: true }),
            variants: vec![Variant { ident: "A".into(), name: None, tuple: false, fields: vec![] }],
            sel: 0,
        },
    )]));
    // sample group without a flatten prefix (documented behaviour holds)
    out.push(st(Style::Pascal, Some(Pfx::Infl("p_".into())), vec![sg_str("op_kind"), fl(None, st(Style::Preserve, None, vec![sg_str("inner_op")]))]));
    // const-string limit: total name length 98 ..= 103 bytes through one and through two flatten levels
    for total in 98..=103usize {
        let p1 = "p".repeat(total - 3);
        out.push(st(Style::Preserve, None, vec![fl(Some(Pfx::Exact(p1)), st(Style::Preserve, None, vec![plain_u("abc")]))]));
    }
    for total in [100usize, 101] {
        let p1 = "a".repeat(60);
        let p2 = "b".repeat(total - 60 - 2);
        out.push(st(Style::Preserve, None, vec![fl(
            Some(Pfx::Exact(p1)),
            st(Style::Preserve, None, vec![fl(Some(Pfx::Exact(p2)), st(Style::Preserve, None, vec![plain_u("xy"), plain_u("xyz")]))]),
        )]));
    }
    // multi-byte text at the limit: 49 two-byte letters + "ab" = 100 bytes, + "abc" = 101 bytes
    out.push(st(Style::Preserve, None, vec![fl(Some(Pfx::Exact("é".repeat(49))), st(Style::Preserve, None, vec![plain_u("ab"), plain_u("abc")]))]));
    out
}

// ------------------------------------------------------------------------------------------------
// sub-check: Lean constStrValue vs the real const_str_value on type-level concatenations

mod cs {
    use metrique::concat::{Concatenated, ConstStr, EmptyConstStr, const_str_value};
    macro_rules! leaf {
        ($n:ident, $s:expr) => {
            pub struct $n;
            impl ConstStr for $n {
                const VAL: &'static str = $s;
            }
        };
    }
    leaf!(A40, "0123456789012345678901234567890123456789");
    leaf!(B40, "abcdefghijabcdefghijabcdefghijabcdefghij");
    leaf!(C19, "ABCDEFGHIJKLMNOPQRS");
    leaf!(C20, "ABCDEFGHIJKLMNOPQRST");
    leaf!(C21, "ABCDEFGHIJKLMNOPQRSTU");
    leaf!(U, "éé");
    leaf!(E, "");
    type P0 = EmptyConstStr;
    type Ch<P, X> = Concatenated<P, X>;
    /// (leaves of the left-nested chain, real value, borrowed?)
    pub fn table() -> Vec<(Vec<&'static str>, String, bool)> {
        fn row<S: metrique::concat::MaybeConstStr>(leaves: Vec<&'static str>) -> (Vec<&'static str>, String, bool) {
            let v = const_str_value::<S>();
            let borrowed = matches!(v, std::borrow::Cow::Borrowed(_));
            (leaves, v.into_owned(), borrowed)
        }
        vec![
            row::<Ch<P0, A40>>(vec![A40::VAL]),
            row::<Ch<Ch<Ch<P0, A40>, B40>, C19>>(vec![A40::VAL, B40::VAL, C19::VAL]),
            row::<Ch<Ch<Ch<P0, A40>, B40>, C20>>(vec![A40::VAL, B40::VAL, C20::VAL]),
            row::<Ch<Ch<Ch<P0, A40>, B40>, C21>>(vec![A40::VAL, B40::VAL, C21::VAL]),
            row::<Ch<Ch<Ch<Ch<P0, A40>, B40>, C21>, E>>(vec![A40::VAL, B40::VAL, C21::VAL, E::VAL]),
            row::<Ch<Ch<Ch<Ch<P0, A40>, B40>, C19>, E>>(vec![A40::VAL, B40::VAL, C19::VAL, E::VAL]),
            row::<Ch<Ch<Ch<Ch<P0, A40>, B40>, C19>, U>>(vec![A40::VAL, B40::VAL, C19::VAL, U::VAL]),
            row::<Ch<Ch<Ch<Ch<P0, U>, A40>, B40>, C19>>(vec![U::VAL, A40::VAL, B40::VAL, C19::VAL]),
            row::<Ch<Ch<Ch<Ch<Ch<P0, A40>, B40>, C21>, A40>, B40>>(vec![A40::VAL, B40::VAL, C21::VAL, A40::VAL, B40::VAL]),
            row::<Ch<Ch<P0, E>, E>>(vec![E::VAL, E::VAL]),
        ]
    }
}

// ------------------------------------------------------------------------------------------------

fn nontrivial(d: &Def) -> bool {
    // rule: at least one naming rule beyond "identity of a field identifier" is exercised
    fn attrs(a: &Attrs) -> bool {
        a.style != Style::Preserve || a.pfx.is_some()
    }
    fn fields(fs: &[Field]) -> bool {
        fs.iter().any(|f| match f {
            Field::Plain { name, sg, .. } => name.is_some() || *sg,
            Field::Flatten { present, child, pfx, .. } => *present && (pfx.is_some() || nontrivial(child)),
            _ => false,
        })
    }
    match d {
        Def::Struct { a, fields: fs } => attrs(a) || fields(fs),
        Def::Enum { a, tag, variants, sel } => attrs(a) || tag.is_some() || fields(&variants[*sel].fields),
    }
}

fn depth(d: &Def) -> usize {
    1 + sel_fields(d)
        .iter()
        .map(|f| match f {
            Field::Flatten { present: true, child, .. } => depth(child),
            _ => 0,
        })
        .max()
        .unwrap_or(0)
}

fn distribution(rep: &mut Report, d: &Def, imp: Option<&Emission>) {
    fn walk(rep: &mut Report, d: &Def, inherited: bool) {
        let (a, fs) = match d {
            Def::Struct { a, fields } => {
                rep.bump("node:struct");
                (a, fields)
            }
            Def::Enum { a, tag, variants, sel } => {
                rep.bump("node:enum");
                rep.bump(match tag {
                    None => "tag:none",
                    Some(Tag { exact: true, sg: true, .. }) => "tag:name_exact+sample_group",
                    Some(Tag { exact: true, .. }) => "tag:name_exact",
                    Some(Tag { sg: true, .. }) => "tag:name+sample_group",
                    Some(_) => "tag:name",
                });
                let v = &variants[*sel];
                rep.bump(if v.fields.is_empty() && !v.tuple { "variant:unit" } else if v.tuple { "variant:tuple" } else { "variant:struct" });
                if v.name.is_some() {
                    rep.bump("variant:name-override");
                }
                (a, &v.fields)
            }
        };
        rep.bump(&format!("rename_all:{:?}{}", a.style, if a.style == Style::Preserve && inherited { "(inherits)" } else { "" }));
        rep.bump(match &a.pfx {
            None => "container-prefix:none",
            Some(Pfx::Infl(_)) => "container-prefix:prefix",
            Some(Pfx::Exact(_)) => "container-prefix:exact_prefix",
        });
        for f in fs {
            match f {
                Field::Plain { name, unit, sg, v, .. } => {
                    rep.bump("field:plain");
                    if name.is_some() {
                        rep.bump("field:name-override");
                    }
                    if unit.is_some() {
                        rep.bump("field:unit");
                    }
                    if *sg {
                        rep.bump("field:sample_group");
                    }
                    let mut v = v;
                    loop {
                        match v {
                            FVal::Opt { present, inner } => {
                                rep.bump(if *present { "value:Option(Some)" } else { "value:Option(None)" });
                                v = inner;
                            }
                            FVal::Newtype { inner, .. } => {
                                rep.bump("value:value-struct");
                                v = inner;
                            }
                            FVal::Variant { .. } => {
                                rep.bump("value:value(string) enum");
                                break;
                            }
                            FVal::Str { .. } => {
                                rep.bump("value:string");
                                break;
                            }
                            FVal::Num(..) => {
                                rep.bump("value:number");
                                break;
                            }
                        }
                    }
                }
                Field::Ignore => rep.bump("field:ignore"),
                Field::Timestamp => rep.bump("field:timestamp"),
                Field::FlattenEntry { .. } => rep.bump("field:flatten_entry"),
                Field::Flatten { pfx, present, child, wrap, optional } => {
                    rep.bump(&format!("flatten-holds:{}{wrap:?}", if *optional { "Option<>+" } else { "" }));
                    rep.bump(match pfx {
                        None => "flatten:no-prefix",
                        Some(Pfx::Infl(_)) => "flatten:prefix",
                        Some(Pfx::Exact(_)) => "flatten:exact_prefix",
                    });
                    if *present {
                        walk(rep, child, inherited || a.style != Style::Preserve);
                    } else {
                        rep.bump("flatten:Option(None)");
                    }
                }
            }
        }
    }
    walk(rep, d, false);
    rep.bump(&format!("depth:{}", depth(d)));
    if let Some(e) = imp {
        let longest = e.items.iter().map(|i| i.name.len()).max().unwrap_or(0);
        rep.bump(match longest {
            0..=50 => "longest-name:<=50B",
            51..=99 => "longest-name:51-99B",
            100 => "longest-name:100B",
            101..=150 => "longest-name:101-150B (heap path)",
            _ => "longest-name:>150B (heap path)",
        });
        rep.bump_by("items", e.items.len() as u64);
        rep.bump_by("sample-group pairs", e.sg.len() as u64);
    }
}

struct Outcome {
    imp: Option<Emission>,
    raw: String,
    verdict: Option<Verdict>,
    model: Option<String>,
    model_agrees: bool,
}

fn evaluate(
    cases: &[Def],
    lines: &[Option<String>],
    driver: &Option<String>,
    units: &BTreeMap<&'static str, &'static str>,
    rep: &mut Report,
) -> Vec<Outcome> {
    let reqs: Vec<String> = cases.iter().map(|d| d.encode()).collect();
    let replies = run_driver(driver, "naming", &reqs);
    if replies.is_none() {
        rep.driver_available = false;
    }
    let mut out = vec![];
    for (i, d) in cases.iter().enumerate() {
        let raw = lines[i].clone().unwrap_or_else(|| "missing".into());
        let imp = parse_emission(&raw, units);
        let verdict = match &imp {
            Some(e) => oracle(d, e, units),
            None => Some(Verdict { key: "naming:no-output".into(), what: format!("instance produced no parsable record: {raw}") }),
        };
        let model = replies.as_ref().map(|r| r[i].clone());
        let model_agrees = match (&model, &imp) {
            (Some(m), Some(e)) => parse_emission(m, units).as_ref() == Some(e),
            (Some(_), None) => false,
            (None, _) => true,
        };
        out.push(Outcome { imp, raw, verdict, model, model_agrees });
    }
    out
}

fn main() {
    quiet_panics();
    let args = Args::parse();
    let mut rep = Report::new(
        &args,
        "naming",
        "case = one instance of a generated #[metrics] definition tree (compiled with the real macro); non-trivial = \
         some naming rule beyond the bare field identifier is exercised (rename_all, prefix/exact_prefix, name override, \
         tag, sample_group, or a flatten with one of these below); distinct by case text",
    );
    let units = unit_names();
    let mut rng = Rng::new(args.seed);
    let thorough = args.thorough();
    let replay = args.replay_case();
    let mut builder = Builder::new();
    if builder.repo != "/repo" {
        rep.notes.push(format!("repository under verification: {}", builder.repo));
    }

    // ---- sub-check 1: inflector -----------------------------------------------------------------
    if replay.is_none() {
        let mut g = Gen::new(rng.fork(1));
        let n = if thorough { 100_000 } else { 20_000 };
        let mut texts: Vec<String> = vec![];
        for i in 0..n {
            texts.push(match i % 5 {
                0 => g.ident(false),
                1 => g.ident(true),
                2 => g.infl_prefix(i % 2 == 0, i % 35 == 0),
                3 => g.tag_text(),
                _ => format!("{}{}", g.infl_prefix(true, false), g.ident(false)),
            });
        }
        texts.extend(["", "_", "-", "a", "A", "1", "a1", "A1b", "aB", "ABc", "aBC", "HTTPServer", "foo__bar", "foo-_bar-", "_x_", "x1y2Z3", "ID", "userID2"].iter().map(|s| s.to_string()));
        let reqs: Vec<String> = texts.iter().map(|t| format!("I {}", hex(t.as_bytes()))).collect();
        match run_driver(&args.driver, "naming", &reqs) {
            Some(replies) => {
                let mut bad = 0;
                for (t, r) in texts.iter().zip(replies.iter()) {
                    let want: Vec<String> = [Style::Pascal, Style::Snake, Style::Kebab]
                        .iter()
                        .map(|s| hex(s.apply(t).as_bytes()))
                        .chain([Style::Pascal, Style::Snake, Style::Kebab].iter().map(|s| hex(s.apply_prefix(t).as_bytes())))
                        .collect();
                    if &want.join(" ") != r {
                        bad += 1;
                        if bad <= 3 {
                            rep.disagreement("naming/inflector", &format!("I {}", hex(t.as_bytes())), &want.join(" "), r);
                        }
                    }
                }
                rep.bump_by("inflector texts compared with the Inflector crate", texts.len() as u64);
            }
            None => rep.driver_available = false,
        }
        // ---- sub-check 2: const_str_value ------------------------------------------------------
        let table = cs::table();
        let lim = std::fs::read_to_string(Path::new(env!("CARGO_MANIFEST_DIR")).join("../lean/Generated/Naming.lean")).unwrap_or_default();
        let grab = |name: &str| -> Option<u64> {
            let i = lim.find(&format!("def {name} : Nat := "))? + format!("def {name} : Nat := ").len();
            lim[i..].split_whitespace().next()?.parse().ok()
        };
        if let (Some(hl), Some(ml)) = (grab("haveValLimit"), grab("matchLimit")) {
            let reqs: Vec<String> = table
                .iter()
                .map(|(ls, _, _)| format!("C {} / {hl} {ml}", ls.iter().map(|l| hex(l.as_bytes())).collect::<Vec<_>>().join(" ")))
                .collect();
            if let Some(replies) = run_driver(&args.driver, "naming", &reqs) {
                for ((ls, v, borrowed), (req, r)) in table.iter().zip(reqs.iter().zip(replies.iter())) {
                    let want = format!("{} {}", if *borrowed { 1 } else { 0 }, hex(v.as_bytes()));
                    if &want != r {
                        rep.disagreement("naming/const_str_value", req, &want, r);
                    }
                    if v != &ls.concat() {
                        rep.oracle_failure("naming:const-str-value", req, v, "const_str_value is not the concatenation of its leaves");
                    }
                    rep.bump(if *borrowed { "const_str_value:borrowed (static path)" } else { "const_str_value:owned (heap path)" });
                }
            }
        } else {
            rep.notes.push("could not read the generated limits".into());
        }
    }

    // ---- cases ----------------------------------------------------------------------------------
    let mut cases: Vec<Def> = vec![];
    if let Some(line) = &replay {
        match Def::decode(line) {
            Some(d) => cases.push(d),
            None => rep.notes.push(format!("replay case does not parse: {line}")),
        }
    } else {
        for l in args.corpus_cases() {
            match Def::decode(&l) {
                Some(d) => cases.push(d),
                None => rep.notes.push(format!("corpus case does not parse: {l}")),
            }
        }
        rep.bump_by("corpus cases", cases.len() as u64);
        let s = seeds(thorough);
        rep.bump_by("hand-made minimal shapes", s.len() as u64);
        cases.extend(s);
        let budget: usize = args.extra.get("types").and_then(|t| t.parse().ok()).unwrap_or(if thorough { 8000 } else { 700 });
        let max_depth = if thorough { 5 } else { 3 };
        let mut used: usize = cases.iter().map(type_count).sum();
        let mut g = Gen::new(rng.fork(2));
        let mut inst_rng = rng.fork(3);
        let mut trees = 0;
        while used < budget {
            let t = g.tree(max_depth);
            let tc = type_count(&t);
            if tc > 40 {
                continue;
            }
            used += tc;
            trees += 1;
            let mut seen = BTreeSet::new();
            seen.insert(t.encode());
            let mut inst = t.clone();
            cases.push(t);
            for _ in 0..3 {
                reinstantiate(&mut inst, &mut inst_rng);
                if seen.insert(inst.encode()) {
                    cases.push(inst.clone());
                }
            }
        }
        rep.bump_by("generated type trees", trees);
        rep.bump_by("generated Rust type definitions (approx.)", used as u64);
    }

    // ---- round 1 --------------------------------------------------------------------------------
    let shards = if thorough { 16 } else { 1 };
    let jobs = if thorough { 12 } else { 3 };
    let lines = match builder.run(&cases, shards, jobs) {
        Ok(l) => l,
        Err(e) => {
            rep.oracle_failure(
                "naming:generated-program-does-not-compile",
                "",
                &e,
                "the generated crate of well-formed #[metrics] definitions does not compile / run",
            );
            rep.notes.push(format!("cargo build of gen_c07 failed: {}", e.lines().take(12).collect::<Vec<_>>().join(" | ")));
            rep.write(&args);
            return;
        }
    };
    let outcomes = evaluate(&cases, &lines, &args.driver, &units, &mut rep);
    let mut known: Vec<usize> = vec![];
    let mut failing: Vec<usize> = vec![];
    let mut disagreeing: Vec<usize> = vec![];
    for (i, (d, o)) in cases.iter().zip(outcomes.iter()).enumerate() {
        let enc = d.encode();
        rep.case(&enc, nontrivial(d));
        distribution(&mut rep, d, o.imp.as_ref());
        if i % 97 == 0 {
            rep.sample(json!({"case": enc, "impl": o.raw}));
        }
        match &o.verdict {
            Some(v) if v.key == KNOWN_KEY => known.push(i),
            Some(_) => failing.push(i),
            None => {}
        }
        if !o.model_agrees {
            disagreeing.push(i);
        }
    }
    rep.bump_by("instances showing the known finding", known.len() as u64);
    // the known finding: report the smallest instances (minimal shapes are part of every run)
    known.sort_by_key(|&i| cases[i].encode().len());
    for &i in known.iter().take(2) {
        let v = outcomes[i].verdict.as_ref().unwrap();
        rep.oracle_failure(&v.key, &cases[i].encode(), &outcomes[i].raw, &v.what);
    }

    // ---- round 2: reductions of unknown failures / disagreements, compiled once -----------------
    if !failing.is_empty() || !disagreeing.is_empty() {
        // origins to reduce: the smallest oracle failures first, then the smallest disagreements
        let mut f_sorted = failing.clone();
        f_sorted.sort_by_key(|&i| cases[i].encode().len());
        let mut d_sorted = disagreeing.clone();
        d_sorted.sort_by_key(|&i| cases[i].encode().len());
        let mut origins: Vec<usize> = vec![];
        for &i in f_sorted.iter().take(4).chain(d_sorted.iter()) {
            if origins.len() < 6 && !origins.contains(&i) {
                origins.push(i);
            }
        }
        let mut red: Vec<Def> = vec![];
        let mut owner: Vec<usize> = vec![];
        for &o in &origins {
            for r in reductions(&cases[o]) {
                if red.len() < 400 {
                    red.push(r);
                    owner.push(o);
                }
            }
        }
        let mut red_out: Vec<Outcome> = vec![];
        if !red.is_empty() {
            match builder.run(&red, 1, jobs) {
                Ok(l) => red_out = evaluate(&red, &l, &args.driver, &units, &mut rep),
                Err(e) => rep.notes.push(format!("reductions did not compile: {}", e.lines().take(6).collect::<Vec<_>>().join(" | "))),
            }
        }
        rep.search_cases = red_out.len() as u64;
        rep.search_found = red_out.iter().any(|o| o.verdict.as_ref().map(|v| v.key != KNOWN_KEY).unwrap_or(false));
        // (key, case, impl, what), smallest case first: `./check` takes the first one per key as the witness
        let mut found: Vec<(String, String, String, String)> = vec![];
        for &i in &failing {
            let v = outcomes[i].verdict.as_ref().unwrap();
            // smallest reduction of this origin failing under the same key
            let best = red_out
                .iter()
                .enumerate()
                .filter(|(j, o)| owner[*j] == i && o.verdict.as_ref().map(|w| w.key == v.key).unwrap_or(false))
                .min_by_key(|(j, _)| red[*j].encode().len());
            match best {
                Some((j, o)) => found.push((v.key.clone(), red[j].encode(), o.raw.clone(), o.verdict.as_ref().unwrap().what.clone())),
                None => found.push((v.key.clone(), cases[i].encode(), outcomes[i].raw.clone(), v.what.clone())),
            }
        }
        // unknown failures found only among the reductions / neighbours
        for (j, o) in red_out.iter().enumerate() {
            if let Some(v) = &o.verdict {
                if v.key != KNOWN_KEY && !found.iter().any(|f| f.0 == v.key) {
                    found.push((v.key.clone(), red[j].encode(), o.raw.clone(), v.what.clone()));
                }
            }
        }
        found.sort_by_key(|f| f.1.len());
        for (key, case, imp, what) in &found {
            rep.oracle_failure(key, case, imp, what);
        }
        for &i in &disagreeing {
            let best = red_out
                .iter()
                .enumerate()
                .filter(|(j, o)| owner[*j] == i && !o.model_agrees)
                .min_by_key(|(j, _)| red[*j].encode().len());
            match best {
                Some((j, o)) => rep.disagreement("naming/emit", &red[j].encode(), &o.raw, o.model.as_deref().unwrap_or("-")),
                None => rep.disagreement("naming/emit", &cases[i].encode(), &outcomes[i].raw, outcomes[i].model.as_deref().unwrap_or("-")),
            }
        }
    }
    rep.notes.push(format!("gen_c07: {} cargo build(s), {:.1}s", builder.builds, builder.build_secs));
    let _ = show;
    rep.write(&args);
}
