//! Engine `wrappers` (C15): entry and value wrappers are transparent apart from their documented
//! additions.
//!
//! Case lines (segments separated by ` ; `, innermost wrapper first):
//!   `E <GenEntry encoding> ; <wrapper> ; <wrapper> …`
//!   `V <value encoding> ; <value wrapper> ; …`
//!   `W <entry encoding whose `V` items may carry `@<value wrapper>` suffixes (parameters joined by `+`)> ; <wrapper> ; …`
//!      (an entry whose values are wrapped values of a fixed menu of concrete types, see `menu_ok`)
//! entry wrappers (strings are hex of UTF-8, `-` = empty):
//!   `B` BoxEntry | `Mo <entry>` e.merge(other) | `Mg <entry>` other.merge(e) | `mr <entry>` e.merge_by_ref(&other) |
//!   `mg <entry>` other.merge_by_ref(&e) | `D<N> <k~v>…` WithDimensions<E,N> | `W<N> <k~v>… / <name>…`
//!   WithGlobalDimensions<E,N> with deny list | `Fh`/`Fx` ForceFlag<E, HighStorageResolution/NoMetric> | `r` &E | `X` Box<E> |
//!   `A` Arc<E> | `Co`/`Cb` Cow::Owned/Borrowed | `O` Some(e) | `On` None::<E> | `R` RootEntry over a delegating
//!   InflectableEntry | stream adapters (outermost only; `S…` on an EntryIoStream, `P…` on the Format before
//!   `output_to`): `Sg|Pg <entry>` merge_globals | `Sd|Pd <k~v>… / <name>…|~` merge_global_dimensions (`~` = deny list
//!   `None`) | `Sfh`/`Sfx` ForceFlag<S, _> stream.
//! value wrappers: `r` `x` `a` `co` `cb` `o` `on` `d<N> <k~v>…` `fh` `fx` `t0` (FormattedValue, formatter that calls
//!   value.write) `t1` (FormattedValue, formatter that writes the observation count).
//!
//! The wrappers are applied to the REAL types: the stack is built by recursion over the wrapper list with
//! a visitor, so that every concrete nested type is monomorphised.  To keep the number of instantiations
//! finite and small, at most `RUN` (=2) wrappers nest statically before a `BoxEntry` erases the type
//! (value stacks: at most 3 deep, no erasure exists).  The ordered call log is recorded by this file's
//! own `EntryWriter`/`ValueWriter` (flags are read from the `Debug` form of `MetricFlags`).
//!
//! Oracle (model-independent, from the property statement): the call log / sample group of the wrapped
//! entry equals the call log / sample group of the plain entry with the documented additions applied by
//! `expected_entry` (a few list operations).  Correspondence: the same case goes to the Lean model
//! (`Wrappers.applyAll … |>.log`, `.sampleGroup`, `Val.sem`) and the rendered outputs must be equal.

use metrique::{InflectableEntry, RootEntry};
use metrique_writer::entry::WithGlobalDimensions;
use metrique_writer::format::{Format, FormatExt};
use metrique_writer::stream::EntryIoStreamExt;
use metrique_writer_core::config::{AllowSplitEntries, AllowUnroutableEntries, EntryDimensions};
use metrique_writer_core::entry::{BoxEntry, EmptyEntry, SampleGroupElement};
use metrique_writer_core::value::{
    FlagConstructor, FormattedValue, ForceFlag, MetricFlags, MetricOptions, ValueFormatter, WithDimensions,
};
use metrique_writer_core::{
    Entry, EntryConfig, EntryIoStream, EntryWriter, IoStreamError, Observation, Unit, ValidationError, Value,
    ValueWriter,
};
use metrique_writer_format_emf::{HighStorageResolutionCtor, NoMetricCtor};
use smallvec::SmallVec;
use std::any::Any;
use std::borrow::Cow;
use std::cell::RefCell;
use std::collections::HashSet;
use std::marker::PhantomData;
use std::rc::Rc;
use std::sync::Arc;
use std::time::SystemTime;
use verif_harness::gen_entry::*;
use verif_harness::*;

type Dims = Vec<(String, String)>;
type CowStr = Cow<'static, str>;

#[derive(Clone, Copy, Debug, PartialEq, Eq)]
enum Mode {
    High,
    NoMetric,
    /// a `FlagConstructor` that constructs `MetricFlags::empty()` (a switched-off / conditional flag)
    Empty,
}

/// `ForceFlag<T, EmptyCtor>` forces nothing: whatever flags `T` carries must survive
struct EmptyCtor;
impl FlagConstructor for EmptyCtor {
    fn construct() -> MetricFlags<'static> {
        MetricFlags::empty()
    }
}

/// A `MetricOptions` type of the harness's own (not the EMF one). It merges with itself only; merging it
/// with the EMF options makes `MetricFlags::try_merge` panic by design, so it is used only in the fixed
/// `X` cases, never in generated stacks.
#[derive(Debug)]
struct ForeignOpt;
impl MetricOptions for ForeignOpt {
    fn try_merge(&self, other: &dyn MetricOptions) -> Option<MetricFlags<'static>> {
        (other as &dyn Any).downcast_ref::<ForeignOpt>().map(|_| MetricFlags::upcast(&ForeignOpt))
    }
}
struct ForeignCtor;
impl FlagConstructor for ForeignCtor {
    fn construct() -> MetricFlags<'static> {
        MetricFlags::upcast(&ForeignOpt)
    }
}

/// entry-level wrappers (innermost first in a stack)
#[derive(Clone, Debug)]
enum W {
    /// 0 `BoxEntry::new(e)` | 1 `e.boxed()` | 2 appended to a `BoxEntrySink` and observed at the recording sink below
    Boxed(u8),
    MergeAfter(GenEntry),
    MergeBefore(GenEntry),
    MergeRefAfter(GenEntry),
    MergeRefBefore(GenEntry),
    Dims(u8, Dims),
    GlobalDims(u8, Dims, Vec<String>),
    Force(Mode),
    Ref,
    Box_,
    Arc_,
    CowOwned,
    CowBorrowed,
    Some_,
    None_,
    Root,
    /// bool: applied at the Format level (before `output_to`) rather than on the EntryIoStream
    StreamGlobals(bool, GenEntry),
    StreamDims(bool, Dims, Option<Vec<String>>),
    StreamForce(Mode),
}

#[derive(Clone, Debug)]
enum VW {
    Ref,
    Box_,
    Arc_,
    CowOwned,
    CowBorrowed,
    Some_,
    None_,
    Dims(u8, Dims),
    Force(Mode),
    Fmt(u8),
}

#[derive(Clone, Debug)]
enum Case {
    Entry(GenEntry, Vec<W>),
    Value(GVal, Vec<VW>),
    /// an entry some of whose values sit under value wrappers, under entry wrappers
    WEntry(VEntry, Vec<W>),
    /// ONE long-lived stack of stream / format adapters receives a sequence of entries (`true` = boxed);
    /// the recording format below answers from the script (`o`/`v`/`i`, then `o`)
    Seq(Vec<char>, Vec<W>, Vec<(bool, GenEntry)>),
    /// fixed scenario number `n` with the harness's own (non-EMF) `MetricOptions` type, see `foreign_case`
    Foreign(u8),
    /// the inner case with every plain entry's `sample_group()` iterator built in shape `q` (see `shaped`):
    /// exact-size or lazy with an inexact `size_hint`. Not an input of the model.
    Q(u8, Box<Case>),
}

const NSHAPES: u8 = 7;
thread_local! {
    /// iterator shape used by `Lz::new` / `VEntry::sample_group` while a `Case::Q` is evaluated
    static QSHAPE: std::cell::Cell<u8> = const { std::cell::Cell::new(0) };
}
fn with_shape<T>(q: u8, f: impl FnOnce() -> T) -> T {
    let old = QSHAPE.with(|c| c.replace(q));
    let r = f();
    QSHAPE.with(|c| c.set(old));
    r
}

/// The same elements in the same order through iterators with different `size_hint`s:
/// 0 `Vec::into_iter` (exact) | 1 `filter` (0, Some n) | 2 `flatten` of `Option`s | 3 `from_fn` (0, None) |
/// 4 `flat_map` to `once` | 5 `once(first).chain(rest.filter(..))` (inexact, lower bound 1) | 6 `filter_map`
fn shaped(v: Vec<SampleGroupElement>, q: u8) -> Box<dyn Iterator<Item = SampleGroupElement>> {
    match q {
        0 => Box::new(v.into_iter()),
        1 => Box::new(v.into_iter().filter(|_| true)),
        2 => Box::new(v.into_iter().map(Some).flatten()),
        3 => {
            let mut it = v.into_iter();
            Box::new(std::iter::from_fn(move || it.next()))
        }
        4 => Box::new(v.into_iter().flat_map(std::iter::once)),
        5 => {
            let mut it = v.into_iter();
            match it.next() {
                Some(first) => Box::new(std::iter::once(first).chain(it.filter(|_| true))),
                None => Box::new(std::iter::empty().chain(it.filter(|_| true))),
            }
        }
        _ => Box::new(v.into_iter().filter_map(Some)),
    }
}

/// The plain entry as a real `Entry`: writes what the `GenEntry` writes; its `sample_group()` iterator has
/// the shape current when it was built.
#[derive(Clone)]
struct Lz {
    g: GenEntry,
    q: u8,
}
impl Lz {
    fn new(g: &GenEntry) -> Lz {
        Lz { g: g.clone(), q: QSHAPE.with(|c| c.get()) }
    }
}
impl Entry for Lz {
    fn write<'a>(&'a self, w: &mut impl EntryWriter<'a>) {
        self.g.write(w)
    }
    fn sample_group(&self) -> impl Iterator<Item = SampleGroupElement> {
        shaped(self.g.sample_group.iter().map(|(k, v)| (Cow::Owned(k.clone()), Cow::Owned(v.clone()))).collect(), self.q)
    }
}

#[derive(Clone)]
enum VI {
    Plain(GItem),
    /// name, plain value, value wrappers (one of the shapes of `menu_ok`), innermost first
    Wrapped(String, GVal, Vec<VW>),
}

/// A plain entry some of whose values are wrapped values of a fixed menu of concrete types.
#[derive(Clone)]
struct VEntry {
    items: Vec<VI>,
    sample_group: Dims,
}

impl std::fmt::Debug for VEntry {
    fn fmt(&self, f: &mut std::fmt::Formatter<'_>) -> std::fmt::Result {
        write!(f, "VEntry({})", self.encode())
    }
}

/// the concrete wrapped value types `VEntry::write` knows how to build
fn menu_ok(ws: &[VW]) -> bool {
    matches!(
        ws,
        [VW::Dims(1, _)]
            | [VW::Dims(2, _), VW::Force(Mode::High)]
            | [VW::Force(Mode::NoMetric), VW::Dims(0, _)]
            | [VW::Force(Mode::High), VW::Force(Mode::Empty)]
            | [VW::Arc_, VW::Some_]
            | [VW::Box_, VW::None_]
            | [VW::CowOwned, VW::Fmt(1)]
            | [VW::Ref, VW::Dims(1, _), VW::Box_]
            | [VW::Some_, VW::Fmt(0)]
    )
}

impl VEntry {
    fn tokens(&self) -> Vec<String> {
        let mut out = vec![];
        for it in &self.items {
            match it {
                VI::Plain(g) => out.push(GenEntry { items: vec![g.clone()], sample_group: vec![] }.encode()),
                VI::Wrapped(n, b, st) => {
                    let mut t = format!("V{}={}", hs(n), enc_val(b));
                    for w in st {
                        t.push('@');
                        t.push_str(&w.encode().replace(' ', "+"));
                    }
                    out.push(t);
                }
            }
        }
        for (k, v) in &self.sample_group {
            out.push(format!("G{}~{}", hs(k), hs(v)));
        }
        out
    }
    fn encode(&self) -> String {
        let t = self.tokens();
        if t.is_empty() { "_".into() } else { t.join(" ") }
    }
    fn decode(line: &str) -> Option<VEntry> {
        let mut e = VEntry { items: vec![], sample_group: vec![] };
        for tok in line.split(' ').filter(|t| !t.is_empty() && *t != "_") {
            if tok.starts_with('V') && tok.contains('@') {
                let mut parts = tok.split('@');
                let (n, v) = parts.next()?[1..].split_once('=')?;
                let st = parts.map(|w| VW::decode(&w.replace('+', " "))).collect::<Option<Vec<_>>>()?;
                if !menu_ok(&st) {
                    return None;
                }
                e.items.push(VI::Wrapped(uhs(n)?, dec_val(v)?, st));
            } else {
                let g = GenEntry::decode(tok)?;
                e.items.extend(g.items.into_iter().map(VI::Plain));
                e.sample_group.extend(g.sample_group);
            }
        }
        Some(e)
    }
    /// the same entry with every value wrapper removed
    fn strip(&self) -> GenEntry {
        GenEntry {
            items: self
                .items
                .iter()
                .map(|it| match it {
                    VI::Plain(g) => g.clone(),
                    VI::Wrapped(n, b, _) => GItem::Value(n.clone(), b.clone()),
                })
                .collect(),
            sample_group: self.sample_group.clone(),
        }
    }
    /// model tokens: the in-band error entry expanded
    fn model_items(&self) -> String {
        let mut parts = vec![];
        for tok in self.tokens() {
            if let Some(m) = tok.strip_prefix('U') {
                parts.push("CU".to_string());
                parts.push(format!("V{}=S{}", hs("MetriqueValidationError"), m));
            } else {
                parts.push(tok);
            }
        }
        if parts.is_empty() { "_".into() } else { parts.join(" ") }
    }
}

impl Entry for VEntry {
    fn write<'a>(&'a self, w: &mut impl EntryWriter<'a>) {
        for it in &self.items {
            match it {
                VI::Plain(g) => match g {
                    GItem::Timestamp(us) => w.timestamp(micros_to_system_time(*us)),
                    GItem::AllowSplit(c) => w.config(c),
                    GItem::OtherCfg(c) => w.config(c),
                    GItem::EntryDims(_, c) => w.config(c),
                    GItem::Unroutable(_, e) => e.write(w),
                    GItem::Value(n, v) => w.value(n.as_str(), v),
                },
                VI::Wrapped(n, b, st) => {
                    let n = n.as_str();
                    match st.as_slice() {
                        [VW::Dims(1, d)] => w.value(n, &mk_dims::<GVal, 1>(b.clone(), d)),
                        [VW::Dims(2, d), VW::Force(Mode::High)] => {
                            w.value(n, &ForceFlag::<_, HighStorageResolutionCtor>::from(mk_dims::<GVal, 2>(b.clone(), d)))
                        }
                        [VW::Force(Mode::NoMetric), VW::Dims(0, d)] => {
                            w.value(n, &mk_dims::<_, 0>(ForceFlag::<GVal, NoMetricCtor>::from(b.clone()), d))
                        }
                        [VW::Force(Mode::High), VW::Force(Mode::Empty)] => w.value(
                            n,
                            &ForceFlag::<_, EmptyCtor>::from(ForceFlag::<GVal, HighStorageResolutionCtor>::from(b.clone())),
                        ),
                        [VW::Arc_, VW::Some_] => w.value(n, &Some(Arc::new(b.clone()))),
                        [VW::Box_, VW::None_] => w.value(n, &None::<Box<GVal>>),
                        [VW::CowOwned, VW::Fmt(1)] => {
                            let c: Cow<'_, GVal> = Cow::Owned(b.clone());
                            w.value(n, &FormattedValue::<Cow<'_, GVal>, FCount>::new(&c))
                        }
                        [VW::Ref, VW::Dims(1, d), VW::Box_] => w.value(n, &Box::new(mk_dims::<&GVal, 1>(b, d))),
                        [VW::Some_, VW::Fmt(0)] => {
                            let o = Some(b.clone());
                            w.value(n, &FormattedValue::<Option<GVal>, FId>::new(&o))
                        }
                        _ => panic!("{BAD_STACK}"),
                    }
                }
            }
        }
    }
    fn sample_group(&self) -> impl Iterator<Item = SampleGroupElement> {
        shaped(
            self.sample_group.iter().map(|(k, v)| (Cow::Owned(k.clone()), Cow::Owned(v.clone()))).collect(),
            QSHAPE.with(|c| c.get()),
        )
    }
}

// ------------------------------------------------------------------------------------------------
// encoding

fn hs(s: &str) -> String {
    hex(s.as_bytes())
}
fn uhs(s: &str) -> Option<String> {
    String::from_utf8(unhex(s)?).ok()
}
fn enc_dims(d: &Dims) -> String {
    d.iter().map(|(k, v)| format!(" {}~{}", hs(k), hs(v))).collect()
}
fn dec_dims(toks: &[&str]) -> Option<Dims> {
    toks.iter()
        .map(|t| {
            let (k, v) = t.split_once('~')?;
            Some((uhs(k)?, uhs(v)?))
        })
        .collect()
}
fn mode_ch(m: Mode) -> char {
    match m {
        Mode::High => 'h',
        Mode::NoMetric => 'x',
        Mode::Empty => 'n',
    }
}
fn dec_mode(s: &str) -> Option<Mode> {
    match s {
        "h" => Some(Mode::High),
        "x" => Some(Mode::NoMetric),
        "n" => Some(Mode::Empty),
        _ => None,
    }
}

impl W {
    /// `model`: render for the Lean driver (embedded entries in model tokens, `~` deny list as empty)
    fn encode(&self, model: bool) -> String {
        let ent = |e: &GenEntry| if model { model_items(e) } else { e.encode() };
        match self {
            W::Boxed(0) => "B".into(),
            W::Boxed(1) => if model { "B".into() } else { "Bb".into() },
            W::Boxed(_) => if model { "B".into() } else { "Bs".into() },
            W::MergeAfter(o) => format!("Mo {}", ent(o)),
            W::MergeBefore(o) => format!("Mg {}", ent(o)),
            W::MergeRefAfter(o) => format!("mr {}", ent(o)),
            W::MergeRefBefore(o) => format!("mg {}", ent(o)),
            W::Dims(n, d) => format!("D{n}{}", enc_dims(d)),
            W::GlobalDims(n, d, deny) => {
                format!("W{n}{} /{}", enc_dims(d), deny.iter().map(|n| format!(" {}", hs(n))).collect::<String>())
            }
            W::Force(m) => format!("F{}", mode_ch(*m)),
            W::Ref => "r".into(),
            W::Box_ => "X".into(),
            W::Arc_ => "A".into(),
            W::CowOwned => "Co".into(),
            W::CowBorrowed => "Cb".into(),
            W::Some_ => "O".into(),
            W::None_ => "On".into(),
            W::Root => "R".into(),
            W::StreamGlobals(f, g) => format!("{}g {}", if *f { 'P' } else { 'S' }, ent(g)),
            W::StreamDims(f, d, deny) => format!(
                "{}d{} /{}",
                if *f { 'P' } else { 'S' },
                enc_dims(d),
                match deny {
                    None => if model { String::new() } else { " ~".into() },
                    Some(l) => l.iter().map(|n| format!(" {}", hs(n))).collect::<String>(),
                }
            ),
            W::StreamForce(m) => format!("Sf{}", mode_ch(*m)),
        }
    }

    fn decode(seg: &str) -> Option<W> {
        let toks: Vec<&str> = seg.split(' ').filter(|t| !t.is_empty()).collect();
        let (k, rest) = toks.split_first()?;
        let ent = || GenEntry::decode(&rest.join(" "));
        let dims_deny = || -> Option<(Dims, Option<Vec<String>>)> {
            let p = rest.iter().position(|t| *t == "/")?;
            let d = dec_dims(&rest[..p])?;
            let tail = &rest[p + 1..];
            if tail == ["~"] {
                return Some((d, None));
            }
            Some((d, Some(tail.iter().map(|t| uhs(t)).collect::<Option<Vec<_>>>()?)))
        };
        Some(match *k {
            "B" => W::Boxed(0),
            "Bb" => W::Boxed(1),
            "Bs" => W::Boxed(2),
            "Mo" => W::MergeAfter(ent()?),
            "Mg" => W::MergeBefore(ent()?),
            "mr" => W::MergeRefAfter(ent()?),
            "mg" => W::MergeRefBefore(ent()?),
            "Fh" | "Fx" | "Fn" => W::Force(dec_mode(&k[1..])?),
            "r" => W::Ref,
            "X" => W::Box_,
            "A" => W::Arc_,
            "Co" => W::CowOwned,
            "Cb" => W::CowBorrowed,
            "O" => W::Some_,
            "On" => W::None_,
            "R" => W::Root,
            "Sg" | "Pg" => W::StreamGlobals(k.starts_with('P'), ent()?),
            "Sd" | "Pd" => {
                let (d, deny) = dims_deny()?;
                W::StreamDims(k.starts_with('P'), d, deny)
            }
            "Sfh" | "Sfx" | "Sfn" => W::StreamForce(dec_mode(&k[2..])?),
            _ if k.len() == 2 && k.starts_with('D') => W::Dims(k[1..].parse().ok()?, dec_dims(rest)?),
            _ if k.len() == 2 && k.starts_with('W') => {
                let (d, deny) = dims_deny()?;
                W::GlobalDims(k[1..].parse().ok()?, d, deny?)
            }
            _ => return None,
        })
    }

    fn kind(&self) -> &'static str {
        match self {
            W::Boxed(2) => "BoxEntrySink",
            W::Boxed(_) => "BoxEntry",
            W::MergeAfter(_) => "Merged(e,other)",
            W::MergeBefore(_) => "Merged(other,e)",
            W::MergeRefAfter(_) => "MergedRef(e,other)",
            W::MergeRefBefore(_) => "MergedRef(other,e)",
            W::Dims(..) => "WithDimensions<E>",
            W::GlobalDims(..) => "WithGlobalDimensions<E>",
            W::Force(_) => "ForceFlag<E>",
            W::Ref => "&E",
            W::Box_ => "Box<E>",
            W::Arc_ => "Arc<E>",
            W::CowOwned => "Cow::Owned<E>",
            W::CowBorrowed => "Cow::Borrowed<E>",
            W::Some_ => "Some(E)",
            W::None_ => "None::<E>",
            W::Root => "RootEntry",
            W::StreamGlobals(true, _) => "MergeGlobals<Format>",
            W::StreamGlobals(false, _) => "MergeGlobals<Stream>",
            W::StreamDims(true, ..) => "MergeGlobalDimensions<Format>",
            W::StreamDims(false, ..) => "MergeGlobalDimensions<Stream>",
            W::StreamForce(_) => "ForceFlag<Stream>",
        }
    }
    fn is_stream(&self) -> bool {
        matches!(self, W::StreamGlobals(..) | W::StreamDims(..) | W::StreamForce(_))
    }
}

impl VW {
    fn encode(&self) -> String {
        match self {
            VW::Ref => "r".into(),
            VW::Box_ => "x".into(),
            VW::Arc_ => "a".into(),
            VW::CowOwned => "co".into(),
            VW::CowBorrowed => "cb".into(),
            VW::Some_ => "o".into(),
            VW::None_ => "on".into(),
            VW::Dims(n, d) => format!("d{n}{}", enc_dims(d)),
            VW::Force(m) => format!("f{}", mode_ch(*m)),
            VW::Fmt(k) => format!("t{k}"),
        }
    }
    fn decode(seg: &str) -> Option<VW> {
        let toks: Vec<&str> = seg.split(' ').filter(|t| !t.is_empty()).collect();
        let (k, rest) = toks.split_first()?;
        Some(match *k {
            "r" => VW::Ref,
            "x" => VW::Box_,
            "a" => VW::Arc_,
            "co" => VW::CowOwned,
            "cb" => VW::CowBorrowed,
            "o" => VW::Some_,
            "on" => VW::None_,
            "fh" | "fx" | "fn" => VW::Force(dec_mode(&k[1..])?),
            "t0" => VW::Fmt(0),
            "t1" => VW::Fmt(1),
            _ if k.len() == 2 && k.starts_with('d') => VW::Dims(k[1..].parse().ok()?, dec_dims(rest)?),
            _ => return None,
        })
    }
    fn kind(&self) -> &'static str {
        match self {
            VW::Ref => "&V",
            VW::Box_ => "Box<V>",
            VW::Arc_ => "Arc<V>",
            VW::CowOwned => "Cow::Owned<V>",
            VW::CowBorrowed => "Cow::Borrowed<V>",
            VW::Some_ => "Some(V)",
            VW::None_ => "None::<V>",
            VW::Dims(..) => "WithDimensions<V>",
            VW::Force(_) => "ForceFlag<V>",
            VW::Fmt(_) => "FormattedValue<V>",
        }
    }
}

impl Case {
    fn encode(&self) -> String {
        match self {
            Case::Entry(e, ws) => {
                let mut s = format!("E {}", e.encode());
                for w in ws {
                    s.push_str(" ; ");
                    s.push_str(&w.encode(false));
                }
                s
            }
            Case::Value(v, ws) => {
                let mut s = format!("V {}", enc_val(v));
                for w in ws {
                    s.push_str(" ; ");
                    s.push_str(&w.encode());
                }
                s
            }
            Case::WEntry(e, ws) => {
                let mut s = format!("W {}", e.encode());
                for w in ws {
                    s.push_str(" ; ");
                    s.push_str(&w.encode(false));
                }
                s
            }
            Case::Seq(script, ads, es) => seq_line("S", script, ads, es, false),
            Case::Foreign(n) => format!("X {n}"),
            Case::Q(q, c) => format!("Q{q} {}", c.encode()),
        }
    }
    fn decode(line: &str) -> Option<Case> {
        if let Some(rest) = line.strip_prefix('Q') {
            let (q, inner) = rest.split_once(' ')?;
            let q: u8 = q.parse().ok()?;
            if q >= NSHAPES {
                return None;
            }
            return Some(Case::Q(q, Box::new(Case::decode(inner)?)));
        }
        let mut segs = line.split(" ; ");
        let head = segs.next()?;
        if let Some(e) = head.strip_prefix("E ") {
            Some(Case::Entry(GenEntry::decode(e)?, segs.map(W::decode).collect::<Option<Vec<_>>>()?))
        } else if let Some(v) = head.strip_prefix("V ") {
            Some(Case::Value(dec_val(v.trim())?, segs.map(VW::decode).collect::<Option<Vec<_>>>()?))
        } else if let Some(e) = head.strip_prefix("W ") {
            Some(Case::WEntry(VEntry::decode(e)?, segs.map(W::decode).collect::<Option<Vec<_>>>()?))
        } else if let Some(n) = line.strip_prefix("X ") {
            Some(Case::Foreign(n.trim().parse().ok()?))
        } else if line.starts_with("S ") {
            let mut groups = line[2..].split(" ;; ");
            let mut head = groups.next()?.split(" ; ");
            let script = head.next()?.trim();
            let script: Vec<char> = if script == "-" {
                vec![]
            } else {
                script.split(',').map(|t| t.chars().next().filter(|c| "ovi".contains(*c) && t.len() == 1)).collect::<Option<Vec<_>>>()?
            };
            let ads = head.map(W::decode).collect::<Option<Vec<_>>>()?;
            let es = groups
                .map(|g| {
                    let g = g.trim();
                    match g.strip_prefix("B ") {
                        Some(r) => GenEntry::decode(r).map(|e| (true, e)),
                        None if g == "B" => Some((true, GenEntry { items: vec![], sample_group: vec![] })),
                        None => GenEntry::decode(g).map(|e| (false, e)),
                    }
                })
                .collect::<Option<Vec<_>>>()?;
            Some(Case::Seq(script, ads, es))
        } else {
            None
        }
    }
    /// the request line for the Lean driver
    fn model_request(&self) -> String {
        match self {
            Case::Entry(e, ws) => {
                let mut s = format!("ent {}", model_items(e));
                for w in ws {
                    s.push_str(" ; ");
                    s.push_str(&w.encode(true));
                }
                s
            }
            Case::Value(v, ws) => {
                let mut s = format!("val {}", enc_val(v));
                for w in ws {
                    s.push_str(" ; ");
                    s.push_str(&w.encode());
                }
                s
            }
            Case::WEntry(e, ws) => {
                let mut s = format!("ent {}", e.model_items());
                for w in ws {
                    s.push_str(" ; ");
                    s.push_str(&w.encode(true));
                }
                s
            }
            Case::Seq(script, ads, es) => seq_line("seq", script, ads, es, true),
            Case::Foreign(_) => String::new(), // not modelled (documented limit): oracle only
            // the iterator's size hint is not an input of the model: a sample group is a list
            Case::Q(_, c) => c.model_request(),
        }
    }
}

fn seq_line(head: &str, script: &[char], ads: &[W], es: &[(bool, GenEntry)], model: bool) -> String {
    let mut s = format!(
        "{head} {}",
        if script.is_empty() { "-".to_string() } else { script.iter().map(|c| c.to_string()).collect::<Vec<_>>().join(",") }
    );
    for w in ads {
        s.push_str(" ; ");
        s.push_str(&w.encode(model));
    }
    for (boxed, e) in es {
        s.push_str(" ;; ");
        if *boxed {
            s.push_str("B ");
        }
        s.push_str(&if model { model_items(e) } else { e.encode() });
    }
    s
}

/// The plain entry in model tokens: the `GenEntry` encoding with the in-band error entry expanded into
/// the two calls it makes (`CU` config, one string value).
fn model_items(e: &GenEntry) -> String {
    let mut parts: Vec<String> = vec![];
    for tok in e.encode().split(' ') {
        if let Some(m) = tok.strip_prefix('U') {
            parts.push("CU".into());
            parts.push(format!("V{}=S{}", hs("MetriqueValidationError"), m));
        } else {
            parts.push(tok.to_string());
        }
    }
    parts.join(" ")
}

// ------------------------------------------------------------------------------------------------
// the recording writers

#[derive(Clone, Debug, PartialEq, Eq)]
enum RVal {
    Nothing,
    Str(String),
    Err(String),
    Metric { obs: Vec<String>, unit: String, dims: Dims, flags: String },
}

#[derive(Clone, Debug, PartialEq, Eq)]
enum RCall {
    Ts(String),
    Cfg(String),
    Val(String, RVal),
}

type Recorded = (Vec<RCall>, Dims);

fn ts_token(t: SystemTime) -> String {
    match t.duration_since(SystemTime::UNIX_EPOCH) {
        Ok(d) if d.subsec_nanos() % 1000 == 0 => format!("T{}", d.as_micros()),
        Ok(d) => format!("T?{}ns", d.as_nanos()),
        Err(e) => {
            let d = e.duration();
            if d.subsec_nanos() % 1000 == 0 { format!("T-{}", d.as_micros()) } else { format!("T?-{}ns", d.as_nanos()) }
        }
    }
}

fn cfg_token(c: &dyn EntryConfig) -> String {
    let any = c as &dyn Any;
    if any.downcast_ref::<AllowSplitEntries>().is_some() {
        "CS".into()
    } else if any.downcast_ref::<OtherConfig>().is_some() {
        "CO".into()
    } else if any.downcast_ref::<AllowUnroutableEntries>().is_some() {
        "CU".into()
    } else if let Some(d) = any.downcast_ref::<EntryDimensions>() {
        let sets: Vec<String> = d
            .dim_sets()
            .map(|s| {
                let v: Vec<String> = s.map(hs).collect();
                if v.is_empty() { ".".to_string() } else { v.join(",") }
            })
            .collect();
        format!("CD{}", sets.join(";"))
    } else {
        format!("C?{}", hs(&format!("{c:?}")))
    }
}

fn flags_token(f: MetricFlags<'_>) -> String {
    let d = format!("{f:?}");
    if d == "MetricFlags(None)" {
        "-".into()
    } else if d == "MetricFlags(Some(EmfOptions { storage_mode: HighStorageResolution }))" {
        "h".into()
    } else if d == "MetricFlags(Some(EmfOptions { storage_mode: NoMetric }))" {
        "x".into()
    } else {
        format!("?{}", hs(&d))
    }
}

#[derive(Default)]
struct Rec {
    calls: Vec<RCall>,
}

struct RecV<'s>(&'s mut RVal);

impl ValueWriter for RecV<'_> {
    fn string(self, value: &str) {
        *self.0 = RVal::Str(value.to_string());
    }
    fn metric<'a>(
        self,
        distribution: impl IntoIterator<Item = Observation>,
        unit: Unit,
        dimensions: impl IntoIterator<Item = (&'a str, &'a str)>,
        flags: MetricFlags<'_>,
    ) {
        *self.0 = RVal::Metric {
            obs: distribution.into_iter().map(|o| enc_obs(&o)).collect(),
            unit: enc_unit(unit),
            dims: dimensions.into_iter().map(|(k, v)| (k.to_string(), v.to_string())).collect(),
            flags: flags_token(flags),
        };
    }
    fn error(self, error: ValidationError) {
        *self.0 = RVal::Err(error.to_string());
    }
}

impl<'a> EntryWriter<'a> for Rec {
    fn timestamp(&mut self, timestamp: SystemTime) {
        self.calls.push(RCall::Ts(ts_token(timestamp)));
    }
    fn value(&mut self, name: impl Into<Cow<'a, str>>, value: &(impl Value + ?Sized)) {
        let name = name.into().into_owned();
        let mut slot = RVal::Nothing;
        value.write(RecV(&mut slot));
        self.calls.push(RCall::Val(name, slot));
    }
    fn config(&mut self, config: &'a dyn EntryConfig) {
        self.calls.push(RCall::Cfg(cfg_token(config)));
    }
}

fn record<E: Entry>(e: &E) -> Recorded {
    let mut r = Rec::default();
    e.write(&mut r);
    let sg = e.sample_group().map(|(k, v)| (k.into_owned(), v.into_owned())).collect();
    (r.calls, sg)
}

fn record_value<T: Value>(v: &T) -> RVal {
    let mut slot = RVal::Nothing;
    v.write(RecV(&mut slot));
    slot
}

fn show_val(v: &RVal) -> String {
    match v {
        RVal::Nothing => "N".into(),
        RVal::Str(s) => format!("S{}", hs(s)),
        RVal::Err(m) => format!("E{}", hs(m)),
        RVal::Metric { obs, unit, dims, flags } => {
            let d = if dims.is_empty() {
                ".".to_string()
            } else {
                dims.iter().map(|(k, v)| format!("{}~{}", hs(k), hs(v))).collect::<Vec<_>>().join(",")
            };
            let o = if obs.is_empty() { ".".to_string() } else { obs.join(";") };
            format!("M{unit}:{flags}:{d}:{o}")
        }
    }
}

fn show_recorded(r: &Recorded) -> String {
    let calls: Vec<String> = r
        .0
        .iter()
        .map(|c| match c {
            RCall::Ts(t) => t.clone(),
            RCall::Cfg(c) => c.clone(),
            RCall::Val(n, v) => format!("V{}={}", hs(n), show_val(v)),
        })
        .collect();
    let sg: Vec<String> = r.1.iter().map(|(k, v)| format!("{}~{}", hs(k), hs(v))).collect();
    format!(
        "{} | {}",
        if calls.is_empty() { "_".to_string() } else { calls.join(" ") },
        if sg.is_empty() { "_".to_string() } else { sg.join(" ") }
    )
}

// ------------------------------------------------------------------------------------------------
// building the real nested types

/// an `InflectableEntry` that delegates to an `Entry` (what `#[metrics]` closed structs do with their fields)
struct AsInfl<E>(E);
impl<E: Entry> InflectableEntry for AsInfl<E> {
    fn write<'a>(&'a self, w: &mut impl EntryWriter<'a>) {
        self.0.write(w)
    }
    fn sample_group(&self) -> impl Iterator<Item = SampleGroupElement> {
        self.0.sample_group()
    }
}

trait EV {
    fn visit<E: Entry>(&mut self, e: &E);
    /// called instead of `visit` when the finished entry is owned, `Send` and `'static`
    fn finish_owned<E: Entry + Send + 'static>(&mut self, e: E) {
        self.visit(&e)
    }
}

struct Z;
struct S<N>(PhantomData<N>);
/// static nesting allowed between two `BoxEntry` erasures
type Run = S<S<Z>>;
const RUN: usize = 2;

/// A recording `EntrySink<BoxEntry>`: what a `BoxEntrySink` hands to the sink below.
#[derive(Clone, Default)]
struct CaptureSink(Arc<std::sync::Mutex<Vec<BoxEntry>>>);
impl metrique_writer_core::EntrySink<BoxEntry> for CaptureSink {
    fn append(&self, entry: BoxEntry) {
        self.0.lock().unwrap().push(entry);
    }
    fn flush_async(&self) -> metrique_writer_core::sink::FlushWait {
        metrique_writer_core::sink::FlushWait::ready()
    }
}

/// the three ways an entry gets boxed
fn box_via<E: Entry + Send + 'static>(e: E, how: u8) -> BoxEntry {
    match how {
        0 => BoxEntry::new(e),
        1 => Entry::boxed(e),
        _ => {
            let cap = CaptureSink::default();
            let sink = metrique_writer_core::BoxEntrySink::new(cap.clone());
            metrique_writer_core::AnyEntrySink::append_any(&sink, e);
            let mut got = cap.0.lock().unwrap();
            assert_eq!(got.len(), 1, "BoxEntrySink handed {} entries to the sink below for one append", got.len());
            got.pop().unwrap()
        }
    }
}

fn is_empty_entry(e: &GenEntry) -> bool {
    e.items.is_empty() && e.sample_group.is_empty()
}

fn cow_dims(d: &[(String, String)]) -> impl Iterator<Item = (CowStr, CowStr)> + '_ {
    d.iter().map(|(k, v)| (Cow::Owned(k.clone()), Cow::Owned(v.clone())))
}

/// half through the constructor, the rest through `add_dimension`
fn mk_dims<E, const N: usize>(e: E, d: &Dims) -> WithDimensions<E, N> {
    let h = d.len() / 2;
    let mut w = WithDimensions::<E, N>::new_with_dimensions(e, cow_dims(&d[..h]));
    for (k, v) in &d[h..] {
        w.add_dimension(k.clone(), v.clone());
    }
    w
}

fn mk_gdims<E, const N: usize>(e: E, d: &Dims, deny: &[String]) -> WithGlobalDimensions<E, N> {
    let h = d.len() / 2;
    let deny: HashSet<CowStr> = deny.iter().map(|n| Cow::Owned(n.clone())).collect();
    let mut w = WithGlobalDimensions::<E, N>::new_with_global_dimensions(e, cow_dims(&d[..h]), deny);
    for (k, v) in &d[h..] {
        w.add_global_dimension(k.clone(), v.clone());
    }
    w
}

/// arms shared by the three paths: wrappers that exist for every `E: Entry`; `$go` continues on the same path
macro_rules! common_arms {
    ($N:ty, $go:ident, $e:ident, $w:ident, $rest:ident, $v:ident, { $($extra:tt)* }) => {
        match $w {
            // an entry without items and sample group is merged in as the real `EmptyEntry` type
            W::MergeAfter(o) if is_empty_entry(o) => <$N>::$go($e.merge(EmptyEntry), $rest, $v),
            W::MergeBefore(o) if is_empty_entry(o) => <$N>::$go(EmptyEntry.merge($e), $rest, $v),
            W::MergeAfter(o) => <$N>::$go($e.merge(Lz::new(o)), $rest, $v),
            W::MergeBefore(o) => <$N>::$go(Lz::new(o).merge($e), $rest, $v),
            W::Dims(0, d) => <$N>::$go(mk_dims::<_, 0>($e, d), $rest, $v),
            W::Dims(1, d) => <$N>::$go(mk_dims::<_, 1>($e, d), $rest, $v),
            W::Dims(_, d) => <$N>::$go(mk_dims::<_, 2>($e, d), $rest, $v),
            W::GlobalDims(0, d, deny) => <$N>::$go(mk_gdims::<_, 0>($e, d, deny), $rest, $v),
            W::GlobalDims(_, d, deny) => <$N>::$go(mk_gdims::<_, 1>($e, d, deny), $rest, $v),
            W::Force(Mode::High) => <$N>::$go(ForceFlag::<_, HighStorageResolutionCtor>::from($e), $rest, $v),
            W::Force(Mode::NoMetric) => <$N>::$go(ForceFlag::<_, NoMetricCtor>::from($e), $rest, $v),
            W::Force(Mode::Empty) => <$N>::$go(ForceFlag::<_, EmptyCtor>::from($e), $rest, $v),
            W::Some_ => <$N>::$go(Some($e), $rest, $v),
            W::None_ => {
                let none = if true { None } else { Some($e) };
                <$N>::$go(none, $rest, $v)
            }
            W::Box_ => <$N>::$go(Box::new($e), $rest, $v),
            W::Ref => <$N>::go_r(&$e, $rest, $v),
            W::MergeRefAfter(o) => {
                let lz = Lz::new(o);
                <$N>::go_r($e.merge_by_ref(&lz), $rest, $v)
            }
            W::MergeRefBefore(o) => {
                let lz = Lz::new(o);
                <$N>::go_r(lz.merge_by_ref(&$e), $rest, $v)
            }
            $($extra)*
        }
    };
}

trait Fuel {
    /// `E` is `Clone + Send + Sync + 'static`: every wrapper is available
    fn go_c<E: Entry + Clone + Send + Sync + 'static, V: EV>(e: E, ws: &[W], v: &mut V);
    /// `E` is `Send + 'static` (after `BoxEntry` / `RootEntry`): no `Cow`
    fn go_n<E: Entry + Send + 'static, V: EV>(e: E, ws: &[W], v: &mut V);
    /// borrowed types: no `BoxEntry`, no `Cow`
    fn go_r<E: Entry, V: EV>(e: E, ws: &[W], v: &mut V);
}

const BAD_STACK: &str = "harness: wrapper stack violates the static-nesting grammar";

impl Fuel for Z {
    fn go_c<E: Entry + Clone + Send + Sync + 'static, V: EV>(e: E, ws: &[W], v: &mut V) {
        Self::go_n(e, ws, v)
    }
    fn go_n<E: Entry + Send + 'static, V: EV>(e: E, ws: &[W], v: &mut V) {
        match ws.split_first() {
            None => v.finish_owned(e),
            Some((W::Boxed(how), rest)) => Run::go_n(box_via(e, *how), rest, v),
            Some(_) => panic!("{BAD_STACK}"),
        }
    }
    fn go_r<E: Entry, V: EV>(e: E, ws: &[W], v: &mut V) {
        match ws.split_first() {
            None => v.visit(&e),
            Some(_) => panic!("{BAD_STACK}"),
        }
    }
}

impl<N: Fuel> Fuel for S<N> {
    fn go_c<E: Entry + Clone + Send + Sync + 'static, V: EV>(e: E, ws: &[W], v: &mut V) {
        let Some((w, rest)) = ws.split_first() else { return v.finish_owned(e) };
        common_arms!(N, go_c, e, w, rest, v, {
            W::Boxed(how) => Run::go_n(box_via(e, *how), rest, v),
            W::Arc_ => {
                let a = Arc::new(e);
                let _shared = Arc::clone(&a);
                N::go_c(a, rest, v)
            }
            W::CowOwned => N::go_c(Cow::<'static, E>::Owned(e), rest, v),
            W::CowBorrowed => N::go_r(Cow::Borrowed(&e), rest, v),
            W::Root => N::go_n(RootEntry::new(AsInfl(e)), rest, v),
            W::StreamGlobals(..) | W::StreamDims(..) | W::StreamForce(_) => panic!("{BAD_STACK}"),
        })
    }
    fn go_n<E: Entry + Send + 'static, V: EV>(e: E, ws: &[W], v: &mut V) {
        let Some((w, rest)) = ws.split_first() else { return v.finish_owned(e) };
        common_arms!(N, go_n, e, w, rest, v, {
            W::Boxed(how) => Run::go_n(box_via(e, *how), rest, v),
            W::Arc_ => {
                let a = Arc::new(e);
                let _shared = Arc::clone(&a);
                N::go_r(a, rest, v)
            }
            W::Root => N::go_n(RootEntry::new(AsInfl(e)), rest, v),
            W::CowOwned | W::CowBorrowed | W::StreamGlobals(..) | W::StreamDims(..) | W::StreamForce(_) => panic!("{BAD_STACK}"),
        })
    }
    fn go_r<E: Entry, V: EV>(e: E, ws: &[W], v: &mut V) {
        let Some((w, rest)) = ws.split_first() else { return v.visit(&e) };
        common_arms!(N, go_r, e, w, rest, v, {
            W::Arc_ => {
                let a = Arc::new(e);
                let _shared = Arc::clone(&a);
                N::go_r(a, rest, v)
            }
            W::Root => N::go_r(RootEntry::new(AsInfl(e)), rest, v),
            W::Boxed(_) | W::CowOwned | W::CowBorrowed | W::StreamGlobals(..) | W::StreamDims(..) | W::StreamForce(_) => panic!("{BAD_STACK}"),
        })
    }
}

/// Checks the grammar the static builders accept; `Err` says why not.
fn valid_stack(ws: &[W]) -> Result<(), &'static str> {
    valid_stack_with(ws, RUN)
}

/// `first`: static nesting allowed before the first `BoxEntry` (2 for `GenEntry`, 1 for `VEntry`)
fn valid_stack_with(ws: &[W], first: usize) -> Result<(), &'static str> {
    // path: 0 = clone+static, 1 = static, 2 = borrowed
    let (mut path, mut run) = (0u8, 0usize);
    let mut limit = first;
    let n_entry = ws.iter().position(|w| w.is_stream()).unwrap_or(ws.len());
    for w in &ws[n_entry..] {
        if !w.is_stream() {
            return Err("entry wrapper outside a stream adapter");
        }
    }
    if ws.len() - n_entry > 3 {
        return Err("more than 3 stream adapters");
    }
    // format-level adapters must be outermost
    let mut seen_fmt = false;
    for w in &ws[n_entry..] {
        let fmt = matches!(w, W::StreamGlobals(true, _) | W::StreamDims(true, ..));
        if seen_fmt && !fmt {
            return Err("stream-level adapter outside a format-level one");
        }
        seen_fmt |= fmt;
    }
    for w in &ws[..n_entry] {
        if matches!(w, W::Boxed(_)) {
            if path == 2 {
                return Err("BoxEntry over a borrowed type");
            }
            path = 1;
            run = 0;
            limit = RUN;
            continue;
        }
        if run == limit {
            return Err("static run too long");
        }
        run += 1;
        match w {
            W::CowOwned if path != 0 => return Err("Cow needs Clone"),
            W::CowBorrowed if path != 0 => return Err("Cow needs Clone"),
            W::CowBorrowed | W::Ref | W::MergeRefAfter(_) | W::MergeRefBefore(_) => path = 2,
            W::Root => path = path.max(1),
            W::Arc_ if path == 1 => path = 2,
            _ => {}
        }
    }
    if n_entry < ws.len() && run != 0 {
        return Err("stream adapters need a BoxEntry or plain entry below");
    }
    Ok(())
}

struct RunV(Option<Recorded>);
impl EV for RunV {
    fn visit<E: Entry>(&mut self, e: &E) {
        self.0 = Some(record_twice(e));
    }
}

struct BoxV(Option<BoxEntry>);
impl EV for BoxV {
    fn visit<E: Entry>(&mut self, _e: &E) {
        panic!("{BAD_STACK}");
    }
    fn finish_owned<E: Entry + Send + 'static>(&mut self, e: E) {
        self.0 = Some(BoxEntry::new(e));
    }
}

// ---- stream adapters -----------------------------------------------------------------------------

/// writes the entry twice (sample group read after each write): an entry instance must not change by
/// being written (no wrapper may cache or consume anything across `write` calls)
fn record_twice<E: Entry>(e: &E) -> Recorded {
    let a = record(e);
    let b = record(e);
    if a != b {
        panic!("the same entry instance wrote {} the first time and {} the second time", show_recorded(&a), show_recorded(&b));
    }
    a
}

struct RecState {
    seen: Vec<Recorded>,
    /// what `format` answers for successive entries: `o` Ok, `v` Validation error, `i` Io error; then Ok
    script: Vec<char>,
    pos: usize,
}

/// A `Format` that records what the entry it is given writes (and its sample group) and answers from a script.
struct RecFormat(Rc<RefCell<RecState>>);
impl Format for RecFormat {
    fn format(&mut self, entry: &impl Entry, _output: &mut impl std::io::Write) -> Result<(), IoStreamError> {
        let mut st = self.0.borrow_mut();
        st.seen.push(record_twice(entry));
        let r = st.script.get(st.pos).copied().unwrap_or('o');
        st.pos += 1;
        match r {
            'o' => Ok(()),
            'v' => Err(IoStreamError::Validation(ValidationError::invalid("scripted validation error"))),
            _ => Err(IoStreamError::Io(std::io::Error::other("scripted io error"))),
        }
    }
}

fn sv_dims<const N: usize>(d: &Dims) -> SmallVec<[(CowStr, CowStr); N]> {
    cow_dims(d).collect()
}
fn deny_set(d: &Option<Vec<String>>) -> Option<HashSet<CowStr>> {
    d.as_ref().map(|l| l.iter().map(|n| Cow::Owned(n.clone())).collect())
}

fn res_kind(r: &Result<(), IoStreamError>) -> char {
    match r {
        Ok(()) => 'o',
        Err(IoStreamError::Validation(_)) => 'v',
        Err(IoStreamError::Io(_)) => 'i',
    }
}

/// what is done with the finished (long-lived) adapter stack
trait Drive {
    fn stream<St: EntryIoStream>(&mut self, s: &mut St);
    fn format<F: Format>(&mut self, f: &mut F);
}

/// one entry
struct One<'a, E>(&'a E, Vec<char>);
impl<E: Entry> Drive for One<'_, E> {
    fn stream<St: EntryIoStream>(&mut self, s: &mut St) {
        self.1.push(res_kind(&s.next(self.0)));
    }
    fn format<F: Format>(&mut self, f: &mut F) {
        self.1.push(res_kind(&f.format(self.0, &mut Vec::<u8>::new())));
    }
}

enum SeqEntry {
    Plain(Lz),
    Boxed(BoxEntry),
}

/// a sequence of entries through the SAME instance
struct Many<'a>(&'a [SeqEntry], Vec<char>);
impl Drive for Many<'_> {
    fn stream<St: EntryIoStream>(&mut self, s: &mut St) {
        for e in self.0 {
            let r = match e {
                SeqEntry::Plain(g) => s.next(g),
                SeqEntry::Boxed(b) => s.next(b),
            };
            self.1.push(res_kind(&r));
        }
    }
    fn format<F: Format>(&mut self, f: &mut F) {
        for e in self.0 {
            let out = &mut Vec::<u8>::new();
            let r = match e {
                SeqEntry::Plain(g) => f.format(g, out),
                SeqEntry::Boxed(b) => f.format(b, out),
            };
            self.1.push(res_kind(&r));
        }
    }
}

trait SFuel {
    fn sgo_f<F: Format, D: Drive>(f: F, ads: &[&W], d: &mut D);
    fn sgo_s<St: EntryIoStream, D: Drive>(s: St, ads: &[&W], d: &mut D);
}
impl SFuel for Z {
    fn sgo_f<F: Format, D: Drive>(f: F, ads: &[&W], d: &mut D) {
        assert!(ads.is_empty(), "{BAD_STACK}");
        d.stream(&mut f.output_to(Vec::<u8>::new()))
    }
    fn sgo_s<St: EntryIoStream, D: Drive>(mut s: St, ads: &[&W], d: &mut D) {
        assert!(ads.is_empty(), "{BAD_STACK}");
        d.stream(&mut s)
    }
}
impl<N: SFuel> SFuel for S<N> {
    fn sgo_f<F: Format, D: Drive>(f: F, ads: &[&W], d: &mut D) {
        let Some((w, rest)) = ads.split_first() else {
            let mut f = f;
            return d.format(&mut f);
        };
        match w {
            W::StreamGlobals(true, g) if is_empty_entry(g) => N::sgo_f(FormatExt::merge_globals(f, EmptyEntry), rest, d),
            W::StreamGlobals(true, g) => N::sgo_f(FormatExt::merge_globals(f, Lz::new(g)), rest, d),
            W::StreamDims(true, dm, deny) => {
                N::sgo_f(FormatExt::merge_global_dimensions(f, sv_dims::<2>(dm), deny_set(deny)), rest, d)
            }
            _ => Self::sgo_s(f.output_to(Vec::<u8>::new()), ads, d),
        }
    }
    fn sgo_s<St: EntryIoStream, D: Drive>(mut s: St, ads: &[&W], d: &mut D) {
        let Some((w, rest)) = ads.split_first() else { return d.stream(&mut s) };
        match w {
            W::StreamGlobals(false, g) if is_empty_entry(g) => {
                N::sgo_s(EntryIoStreamExt::merge_globals(s, EmptyEntry), rest, d)
            }
            W::StreamGlobals(false, g) => N::sgo_s(EntryIoStreamExt::merge_globals(s, Lz::new(g)), rest, d),
            W::StreamDims(false, dm, deny) => {
                N::sgo_s(EntryIoStreamExt::merge_global_dimensions(s, sv_dims::<1>(dm), deny_set(deny)), rest, d)
            }
            W::StreamForce(Mode::High) => N::sgo_s(ForceFlag::<St, HighStorageResolutionCtor>::from(s), rest, d),
            W::StreamForce(Mode::NoMetric) => N::sgo_s(ForceFlag::<St, NoMetricCtor>::from(s), rest, d),
            W::StreamForce(Mode::Empty) => N::sgo_s(ForceFlag::<St, EmptyCtor>::from(s), rest, d),
            _ => panic!("{BAD_STACK}"),
        }
    }
}

/// builds ONE adapter stack over a scripted recording format and hands it to the driver
fn drive_streams<D: Drive>(stream_ws: &[W], script: &[char], d: &mut D) -> Vec<Recorded> {
    let sink = Rc::new(RefCell::new(RecState { seen: vec![], script: script.to_vec(), pos: 0 }));
    // the outermost wrapper is the adapter applied first to the recording format
    let ads: Vec<&W> = stream_ws.iter().rev().collect();
    <S<S<S<Z>>>>::sgo_f(RecFormat(sink.clone()), &ads, d);
    let seen = std::mem::take(&mut sink.borrow_mut().seen);
    seen
}

fn run_streams<E: Entry>(e: &E, stream_ws: &[W]) -> Result<Recorded, String> {
    let mut d = One(e, vec![]);
    let mut got = drive_streams(stream_ws, &[], &mut d);
    if d.1 != ['o'] {
        return Err(format!("the adapters returned {:?} although the format below returned Ok", d.1));
    }
    if got.len() != 1 {
        return Err(format!("the format was called {} times for one entry", got.len()));
    }
    Ok(got.pop().unwrap())
}

/// the long-lived instance: every entry of the sequence through the same adapter stack
fn run_seq(adapters: &[W], script: &[char], entries: &[(bool, GenEntry)]) -> Result<(Vec<Recorded>, Vec<char>), String> {
    match catch(|| {
        let es: Vec<SeqEntry> = entries
            .iter()
            .map(|(boxed, g)| if *boxed { SeqEntry::Boxed(BoxEntry::new(Lz::new(g))) } else { SeqEntry::Plain(Lz::new(g)) })
            .collect();
        let mut d = Many(&es, vec![]);
        let seen = drive_streams(adapters, script, &mut d);
        (seen, d.1)
    }) {
        Ok(x) => Ok(x),
        Err(p) => Err(format!("panic:{p}")),
    }
}

/// the implementation: builds the real wrapped type and records what it writes
fn run_entry<B: Entry + Clone + Send + Sync + 'static, F: Fuel>(base: &B, ws: &[W]) -> Result<Recorded, String> {
    let n_entry = ws.iter().position(|w| w.is_stream()).unwrap_or(ws.len());
    let (entry_ws, stream_ws) = ws.split_at(n_entry);
    let r = catch(|| {
        if stream_ws.is_empty() {
            let mut v = RunV(None);
            F::go_c(base.clone(), entry_ws, &mut v);
            v.0.ok_or_else(|| "harness: visitor not called".to_string())
        } else if entry_ws.is_empty() {
            run_streams(base, stream_ws)
        } else {
            let mut v = BoxV(None);
            F::go_c(base.clone(), &entry_ws[..entry_ws.len() - 1], &mut v);
            let b = v.0.ok_or_else(|| "harness: visitor not called".to_string())?;
            run_streams(&b, stream_ws)
        }
    });
    match r {
        Ok(x) => x,
        Err(p) => Err(format!("panic:{p}")),
    }
}

// ---- values ----------------------------------------------------------------------------------------

struct FId;
impl ValueFormatter<GVal> for FId {
    fn format_value(writer: impl ValueWriter, value: &GVal) {
        value.write(writer)
    }
}
struct FCount;
impl ValueFormatter<GVal> for FCount {
    fn format_value(writer: impl ValueWriter, value: &GVal) {
        let n = match value {
            GVal::Metric { obs, .. } => obs.len() as u64,
            _ => 0,
        };
        writer.metric([Observation::Unsigned(n)], Unit::Count, [], MetricFlags::empty())
    }
}

trait VV {
    fn visit<T: Value>(&mut self, v: &T);
}
struct RunVV(Option<RVal>);
impl VV for RunVV {
    fn visit<T: Value>(&mut self, v: &T) {
        let a = record_value(v);
        let b = record_value(v);
        if a != b {
            panic!("the same value instance wrote {} then {}", show_val(&a), show_val(&b));
        }
        self.0 = Some(a);
    }
}

macro_rules! value_arms {
    ($N:ty, $go:ident, $t:ident, $w:ident, $rest:ident, $v:ident, { $($extra:tt)* }) => {
        match $w {
            VW::Ref => <$N>::$go(&$t, $rest, $v),
            VW::Box_ => <$N>::$go(Box::new($t), $rest, $v),
            VW::Arc_ => {
                let a = Arc::new($t);
                let _shared = Arc::clone(&a);
                <$N>::$go(a, $rest, $v)
            }
            VW::Some_ => <$N>::$go(Some($t), $rest, $v),
            VW::None_ => {
                let none = if true { None } else { Some($t) };
                <$N>::$go(none, $rest, $v)
            }
            $($extra)*
        }
    };
}
macro_rules! value_wrap_arms {
    ($N:ty, $go:ident, $t:ident, $w:ident, $rest:ident, $v:ident, { $($extra:tt)* }) => {
        value_arms!($N, $go, $t, $w, $rest, $v, {
            VW::Dims(0, d) => <$N>::$go(mk_dims::<_, 0>($t, d), $rest, $v),
            VW::Dims(1, d) => <$N>::$go(mk_dims::<_, 1>($t, d), $rest, $v),
            VW::Dims(_, d) => <$N>::$go(mk_dims::<_, 2>($t, d), $rest, $v),
            VW::Force(Mode::High) => <$N>::$go(ForceFlag::<_, HighStorageResolutionCtor>::from($t), $rest, $v),
            VW::Force(Mode::NoMetric) => <$N>::$go(ForceFlag::<_, NoMetricCtor>::from($t), $rest, $v),
            VW::Force(Mode::Empty) => <$N>::$go(ForceFlag::<_, EmptyCtor>::from($t), $rest, $v),
            $($extra)*
        })
    };
}

trait VFuel {
    /// containers over the plain value so far: formatters are still applicable
    fn vgo_f<T: Value + Clone, V: VV>(t: T, ws: &[VW], v: &mut V)
    where
        FId: ValueFormatter<T>,
        FCount: ValueFormatter<T>;
    fn vgo_c<T: Value + Clone, V: VV>(t: T, ws: &[VW], v: &mut V);
    fn vgo_n<T: Value, V: VV>(t: T, ws: &[VW], v: &mut V);
}
impl VFuel for Z {
    fn vgo_f<T: Value + Clone, V: VV>(t: T, ws: &[VW], v: &mut V)
    where
        FId: ValueFormatter<T>,
        FCount: ValueFormatter<T>,
    {
        Self::vgo_n(t, ws, v)
    }
    fn vgo_c<T: Value + Clone, V: VV>(t: T, ws: &[VW], v: &mut V) {
        Self::vgo_n(t, ws, v)
    }
    fn vgo_n<T: Value, V: VV>(t: T, ws: &[VW], v: &mut V) {
        assert!(ws.is_empty(), "{BAD_STACK}");
        v.visit(&t)
    }
}
impl<N: VFuel> VFuel for S<N> {
    fn vgo_f<T: Value + Clone, V: VV>(t: T, ws: &[VW], v: &mut V)
    where
        FId: ValueFormatter<T>,
        FCount: ValueFormatter<T>,
    {
        let Some((w, rest)) = ws.split_first() else { return v.visit(&t) };
        // explicit type arguments: with `FId: ValueFormatter<T>` in scope, inference would otherwise pick `T`
        match w {
            VW::Ref => N::vgo_f::<&T, V>(&t, rest, v),
            VW::Box_ => N::vgo_f::<Box<T>, V>(Box::new(t), rest, v),
            VW::Arc_ => {
                let a = Arc::new(t);
                let _shared = Arc::clone(&a);
                N::vgo_f::<Arc<T>, V>(a, rest, v)
            }
            VW::Some_ => N::vgo_f::<Option<T>, V>(Some(t), rest, v),
            VW::None_ => N::vgo_f::<Option<T>, V>(None, rest, v),
            VW::CowOwned => N::vgo_f::<Cow<'_, T>, V>(Cow::Owned(t), rest, v),
            VW::CowBorrowed => N::vgo_f::<Cow<'_, T>, V>(Cow::Borrowed(&t), rest, v),
            VW::Fmt(0) => N::vgo_n(FormattedValue::<T, FId>::new(&t), rest, v),
            VW::Fmt(_) => N::vgo_n(FormattedValue::<T, FCount>::new(&t), rest, v),
            VW::Dims(..) | VW::Force(_) => Self::vgo_c(t, ws, v),
        }
    }
    fn vgo_c<T: Value + Clone, V: VV>(t: T, ws: &[VW], v: &mut V) {
        let Some((w, rest)) = ws.split_first() else { return v.visit(&t) };
        value_wrap_arms!(N, vgo_c, t, w, rest, v, {
            VW::CowOwned => N::vgo_c(Cow::<'_, T>::Owned(t), rest, v),
            VW::CowBorrowed => N::vgo_c(Cow::Borrowed(&t), rest, v),
            VW::Fmt(_) => panic!("{BAD_STACK}"),
        })
    }
    fn vgo_n<T: Value, V: VV>(t: T, ws: &[VW], v: &mut V) {
        let Some((w, rest)) = ws.split_first() else { return v.visit(&t) };
        value_wrap_arms!(N, vgo_n, t, w, rest, v, {
            VW::CowOwned | VW::CowBorrowed | VW::Fmt(_) => panic!("{BAD_STACK}"),
        })
    }
}

const VDEPTH: usize = 3;

fn valid_vstack(ws: &[VW]) -> Result<(), &'static str> {
    if ws.len() > VDEPTH {
        return Err("value stack deeper than the static limit");
    }
    // 0 = formattable, 1 = clone, 2 = neither
    let mut path = 0u8;
    for w in ws {
        match w {
            VW::Fmt(_) if path != 0 => return Err("formatter over a non-container"),
            VW::Fmt(_) => path = 2,
            VW::CowOwned | VW::CowBorrowed if path == 2 => return Err("Cow needs Clone"),
            VW::Dims(..) | VW::Force(_) => path = path.max(1),
            _ => {}
        }
    }
    Ok(())
}

fn run_value(base: &GVal, ws: &[VW]) -> Result<RVal, String> {
    match catch(|| {
        let mut v = RunVV(None);
        <S<S<S<Z>>>>::vgo_f(base.clone(), ws, &mut v);
        v.0
    }) {
        Ok(Some(x)) => Ok(x),
        Ok(None) => Err("harness: visitor not called".into()),
        Err(p) => Err(format!("panic:{p}")),
    }
}

// ------------------------------------------------------------------------------------------------
// the property oracle: plain output + documented additions

fn add_dims(v: &mut RVal, d: &Dims) {
    if let RVal::Metric { dims, .. } = v {
        dims.extend(d.iter().cloned());
    }
}
fn merge_flag(v: &mut RVal, m: Mode) {
    if let RVal::Metric { flags, .. } = v {
        // flags merged: NoMetric wins over HighStorageResolution wins over none; forcing nothing changes nothing
        let new = match (flags.as_str(), m) {
            (old, Mode::Empty) => old.to_string(),
            ("x", _) | (_, Mode::NoMetric) => "x".to_string(),
            _ => "h".to_string(),
        };
        *flags = new;
    }
}

fn expected_entry(plain: &Recorded, ws: &[W], plain_of: &dyn Fn(&GenEntry) -> Recorded) -> Recorded {
    let (mut log, mut sg) = plain.clone();
    for w in ws {
        match w {
            W::Boxed(_) | W::Ref | W::Box_ | W::Arc_ | W::CowOwned | W::CowBorrowed | W::Some_ | W::Root => {}
            W::None_ => {
                log.clear();
                sg.clear();
            }
            W::MergeAfter(o) | W::MergeRefAfter(o) => {
                let (l, g) = plain_of(o);
                log.extend(l);
                sg.extend(g);
            }
            // globals first
            W::MergeBefore(o) | W::MergeRefBefore(o) | W::StreamGlobals(_, o) => {
                let (mut l, mut g) = plain_of(o);
                l.extend(log);
                g.extend(sg);
                log = l;
                sg = g;
            }
            W::Dims(_, d) => {
                for c in log.iter_mut() {
                    if let RCall::Val(_, v) = c {
                        add_dims(v, d);
                    }
                }
            }
            W::GlobalDims(_, d, deny) => {
                for c in log.iter_mut() {
                    if let RCall::Val(n, v) = c {
                        if !deny.contains(n) {
                            add_dims(v, d);
                        }
                    }
                }
            }
            W::StreamDims(_, d, deny) => {
                for c in log.iter_mut() {
                    if let RCall::Val(n, v) = c {
                        if !deny.as_ref().map(|l| l.contains(n)).unwrap_or(false) {
                            add_dims(v, d);
                        }
                    }
                }
            }
            W::Force(m) | W::StreamForce(m) => {
                for c in log.iter_mut() {
                    if let RCall::Val(_, v) = c {
                        merge_flag(v, *m);
                    }
                }
            }
        }
    }
    (log, sg)
}

fn expected_value(plain: &RVal, base: &GVal, ws: &[VW]) -> RVal {
    let mut v = plain.clone();
    for w in ws {
        match w {
            VW::Ref | VW::Box_ | VW::Arc_ | VW::CowOwned | VW::CowBorrowed | VW::Some_ => {}
            VW::None_ => v = RVal::Nothing,
            VW::Dims(_, d) => add_dims(&mut v, d),
            VW::Force(m) => merge_flag(&mut v, *m),
            // a formatter sees the plain value unless a `None` is on the way; `t0` re-emits it,
            // `t1` emits the observation count
            VW::Fmt(0) => {}
            VW::Fmt(_) => {
                if ws.iter().take_while(|x| !matches!(x, VW::Fmt(_))).any(|x| matches!(x, VW::None_)) {
                    v = RVal::Nothing;
                } else {
                    let n = match base {
                        GVal::Metric { obs, .. } => obs.len(),
                        _ => 0,
                    };
                    v = RVal::Metric {
                        obs: vec![format!("u{n}")],
                        unit: enc_unit(Unit::Count),
                        dims: vec![],
                        flags: "-".into(),
                    };
                }
            }
        }
    }
    v
}

const FOREIGN_CASES: u8 = 6;

/// Fixed scenarios with a `MetricOptions` type that is not the EMF one (never combined with EMF flags:
/// that panics by design). Returns the description and the flags token of the one metric written.
fn foreign_case(n: u8) -> Option<(&'static str, String)> {
    let m = || GVal::Metric { obs: vec![Observation::Unsigned(1)], unit: Unit::None, dims: vec![], flags: GFlags::None };
    let flags_of = |v: RVal| match v {
        RVal::Metric { flags, .. } => Some(flags),
        _ => None,
    };
    let first_flags = |r: Recorded| {
        r.0.into_iter().find_map(|c| match c {
            RCall::Val(_, RVal::Metric { flags, .. }) => Some(flags),
            _ => None,
        })
    };
    let entry = || GenEntry { items: vec![GItem::Value("M".into(), m())], sample_group: vec![] };
    type Foreign<T> = ForceFlag<T, ForeignCtor>;
    type Empty<T> = ForceFlag<T, EmptyCtor>;
    Some(match n {
        0 => ("ForceFlag<V, Foreign>", flags_of(record_value(&Foreign::from(m())))?),
        1 => ("ForceFlag<ForceFlag<V, Foreign>, Empty>", flags_of(record_value(&Empty::from(Foreign::from(m()))))?),
        2 => ("ForceFlag<ForceFlag<V, Empty>, Foreign>", flags_of(record_value(&Foreign::from(Empty::from(m()))))?),
        3 => ("ForceFlag<ForceFlag<V, Foreign>, Foreign>", flags_of(record_value(&Foreign::<Foreign<GVal>>::from(Foreign::<GVal>::from(m()))))?),
        4 => (
            "BoxEntry(ForceFlag<ForceFlag<E, Foreign>, Empty>)",
            first_flags(record_twice(&BoxEntry::new(Empty::from(Foreign::from(entry())))))?,
        ),
        5 => {
            let sink = Rc::new(RefCell::new(RecState { seen: vec![], script: vec![], pos: 0 }));
            let mut s = Empty::from(Foreign::from(RecFormat(sink.clone()).output_to(Vec::<u8>::new())));
            let _ = s.next(&entry());
            let _ = s.next(&entry());
            let seen = std::mem::take(&mut sink.borrow_mut().seen);
            ("ForceFlag<ForceFlag<Stream, Foreign>, Empty>, second entry", first_flags(seen.into_iter().nth(1)?)?)
        }
        _ => return None,
    })
}

/// `Ok(rendered implementation output)` or `Err((class, what, rendered output))`
fn check(c: &Case) -> Result<String, (String, String, String)> {
    match c {
        Case::Entry(base, ws) => {
            let plain = record(base);
            let got = match run_entry::<Lz, Run>(&Lz::new(base), ws) {
                Ok(g) => g,
                Err(e) => return Err(("panic-or-error".into(), format!("wrapped entry failed: {e}"), e)),
            };
            let want = expected_entry(&plain, ws, &|o| record(o));
            let shown = show_recorded(&got);
            if got.0 != want.0 {
                return Err((
                    "log".into(),
                    format!("call log of the wrapped entry differs from plain + documented additions: want {}", show_recorded(&want)),
                    shown,
                ));
            }
            if got.1 != want.1 {
                return Err((
                    "sample_group".into(),
                    format!("sample group of the wrapped entry differs: want {}", show_recorded(&want)),
                    shown,
                ));
            }
            Ok(shown)
        }
        Case::WEntry(ve, ws) => {
            // plain entry, then the value wrappers' documented additions, then the entry wrappers'
            let mut plain = record(&ve.strip());
            let mut idx = 0;
            for it in &ve.items {
                match it {
                    VI::Plain(GItem::Unroutable(..)) => idx += 2,
                    VI::Plain(_) => idx += 1,
                    VI::Wrapped(_, b, st) => {
                        if let Some(RCall::Val(_, v)) = plain.0.get_mut(idx) {
                            *v = expected_value(v, b, st);
                        }
                        idx += 1;
                    }
                }
            }
            let got = match run_entry::<VEntry, S<Z>>(ve, ws) {
                Ok(g) => g,
                Err(e) => return Err(("panic-or-error".into(), format!("wrapped entry failed: {e}"), e)),
            };
            let want = expected_entry(&plain, ws, &|o| record(o));
            let shown = show_recorded(&got);
            if got.0 != want.0 {
                return Err((
                    "log".into(),
                    format!("call log of the wrapped entry (with wrapped values) differs from plain + documented additions: want {}", show_recorded(&want)),
                    shown,
                ));
            }
            if got.1 != want.1 {
                return Err(("sample_group".into(), format!("sample group differs: want {}", show_recorded(&want)), shown));
            }
            Ok(shown)
        }
        Case::Q(q, inner) => with_shape(*q, || check(inner)),
        Case::Foreign(n) => match catch(|| foreign_case(*n)) {
            Ok(Some((what, flags))) => {
                let want = format!("?{}", hs("MetricFlags(Some(ForeignOpt))"));
                if flags == want {
                    Ok(flags)
                } else {
                    Err(("foreign-flags".into(), format!("{what}: the metric must carry the foreign flags {want}, got {flags}"), flags))
                }
            }
            Ok(None) => Err(("foreign-flags".into(), "no such scenario / no metric written".into(), "-".into())),
            Err(p) => Err(("panic-or-error".into(), format!("foreign-flags scenario panicked: {p}"), p)),
        },
        Case::Seq(script, ads, es) => {
            let (seen, results) = match run_seq(ads, script, es) {
                Ok(x) => x,
                Err(e) => return Err(("panic-or-error".into(), format!("sequence through the adapters failed: {e}"), e)),
            };
            let show = |seen: &[Recorded], results: &[char]| -> String {
                seen.iter()
                    .enumerate()
                    .map(|(i, r)| format!("{} # {}", show_recorded(r), results.get(i).copied().unwrap_or('?')))
                    .collect::<Vec<_>>()
                    .join(" ;; ")
            };
            let shown = show(&seen, &results);
            if seen.len() != es.len() || results.len() != es.len() {
                return Err((
                    "sequence-calls".into(),
                    format!("{} entries sent, the format below was called {} times, {} results returned", es.len(), seen.len(), results.len()),
                    shown,
                ));
            }
            for (i, (boxed, e)) in es.iter().enumerate() {
                // (a) a FRESH instance of the same adapters, given this entry alone
                let fresh = if *boxed { run_streams(&BoxEntry::new(Lz::new(e)), ads) } else { run_streams(&Lz::new(e), ads) };
                let fresh = match fresh {
                    Ok(f) => f,
                    Err(err) => return Err(("panic-or-error".into(), format!("fresh adapters failed on entry #{i}: {err}"), shown)),
                };
                if seen[i] != fresh {
                    return Err((
                        "sequence-history".into(),
                        format!(
                            "entry #{i} through the long-lived adapters differs from the same entry through fresh adapters: want {}",
                            show_recorded(&fresh)
                        ),
                        shown,
                    ));
                }
                // (b) plain entry + documented additions
                let want = expected_entry(&record(e), ads, &|o| record(o));
                if seen[i] != want {
                    return Err((
                        "log".into(),
                        format!("entry #{i}: call log / sample group differs from plain + documented additions: want {}", show_recorded(&want)),
                        shown,
                    ));
                }
                let want_res = script.get(i).copied().unwrap_or('o');
                if results[i] != want_res {
                    return Err((
                        "sequence-result".into(),
                        format!("entry #{i}: the format below answered {want_res}, the adapters returned {}", results[i]),
                        shown,
                    ));
                }
            }
            Ok(shown)
        }
        Case::Value(base, ws) => {
            let plain = record_value(base);
            let got = match run_value(base, ws) {
                Ok(g) => g,
                Err(e) => return Err(("panic-or-error".into(), format!("wrapped value failed: {e}"), e)),
            };
            let want = expected_value(&plain, base, ws);
            let shown = show_val(&got);
            if got != want {
                return Err(("value".into(), format!("wrapped value wrote {shown}, want {}", show_val(&want)), shown));
            }
            Ok(shown)
        }
    }
}

fn valid(c: &Case) -> Result<(), &'static str> {
    match c {
        Case::Entry(_, ws) => valid_stack(ws),
        Case::Value(_, ws) => valid_vstack(ws),
        Case::WEntry(e, ws) => {
            for it in &e.items {
                if let VI::Wrapped(_, _, st) = it {
                    if !menu_ok(st) {
                        return Err("wrapped value outside the menu of concrete types");
                    }
                }
            }
            valid_stack_with(ws, 1)
        }
        Case::Foreign(n) => {
            if *n < FOREIGN_CASES { Ok(()) } else { Err("no such foreign-flags scenario") }
        }
        Case::Q(_, c) => valid(c),
        Case::Seq(_, ads, es) => {
            if ads.iter().any(|w| !w.is_stream()) {
                return Err("only stream / format adapters in a sequence case");
            }
            if es.is_empty() || es.len() > 8 {
                return Err("sequence of 1..=8 entries");
            }
            valid_stack(ads)
        }
    }
}

fn rich_entry() -> GenEntry {
    GenEntry::decode(
        "T1700000000000000 CS V4c6174656e6379=Mu4d696c6c697365636f6e6473:-:.:f4045000000000000;r4059000000000000x3;u9 \
         V4f7065726174696f6e=S466f6f V436f756e74=Mn:h:415a~61:u7 V4e6f4d=Mu436f756e74:x:.:u1 V45=E626164 V4e=N CO \
         G4f7065726174696f6e~466f6f G53746174~3230",
    )
    .unwrap()
}

fn shrink_entry_items(e: &GenEntry, mut fails: impl FnMut(&GenEntry) -> bool) -> GenEntry {
    let items = shrink_list(&e.items, |s| fails(&GenEntry { items: s.to_vec(), sample_group: e.sample_group.clone() }));
    let sg = shrink_list(&e.sample_group, |s| fails(&GenEntry { items: items.clone(), sample_group: s.to_vec() }));
    GenEntry { items, sample_group: sg }
}

/// shrink a failing case: a single wrapper (or an adjacent pair) of the stack over a fixed rich entry
/// when that already fails, else fewer wrappers; then fewer items (also inside merged-in entries)
fn shrink(c: &Case) -> Case {
    let fails = |c: &Case| valid(c).is_ok() && check(c).is_err();
    match c {
        Case::Entry(base, ws) => {
            let mut start: Option<(GenEntry, Vec<W>)> = None;
            'outer: for width in [1usize, 2] {
                for b in [rich_entry(), base.clone()] {
                    for win in ws.windows(width) {
                        if fails(&Case::Entry(b.clone(), win.to_vec())) {
                            start = Some((b.clone(), win.to_vec()));
                            break 'outer;
                        }
                    }
                }
            }
            let (base, ws) = start.unwrap_or_else(|| (base.clone(), ws.clone()));
            let mut ws2 = shrink_list(&ws, |s| fails(&Case::Entry(base.clone(), s.to_vec())));
            let base2 = shrink_entry_items(&base, |b| fails(&Case::Entry(b.clone(), ws2.clone())));
            for i in 0..ws2.len() {
                let inner = match &ws2[i] {
                    W::MergeAfter(o) | W::MergeBefore(o) | W::MergeRefAfter(o) | W::MergeRefBefore(o) | W::StreamGlobals(_, o) => o.clone(),
                    _ => continue,
                };
                let with = |o: GenEntry, ws: &[W]| -> Vec<W> {
                    let mut v = ws.to_vec();
                    v[i] = match &ws[i] {
                        W::MergeAfter(_) => W::MergeAfter(o),
                        W::MergeBefore(_) => W::MergeBefore(o),
                        W::MergeRefAfter(_) => W::MergeRefAfter(o),
                        W::MergeRefBefore(_) => W::MergeRefBefore(o),
                        W::StreamGlobals(f, _) => W::StreamGlobals(*f, o),
                        other => other.clone(),
                    };
                    v
                };
                let snapshot = ws2.clone();
                let small = shrink_entry_items(&inner, |o| fails(&Case::Entry(base2.clone(), with(o.clone(), &snapshot))));
                ws2 = with(small, &snapshot);
            }
            Case::Entry(base2, ws2)
        }
        Case::Value(base, ws) => {
            let ws2 = shrink_list(ws, |s| fails(&Case::Value(base.clone(), s.to_vec())));
            Case::Value(base.clone(), ws2)
        }
        Case::Foreign(n) => Case::Foreign(*n),
        Case::Q(q, inner) => Case::Q(*q, Box::new(with_shape(*q, || shrink(inner)))),
        Case::Seq(script, ads, es) => {
            // entries together with the answer they got
            let pairs: Vec<(char, bool, GenEntry)> =
                es.iter().enumerate().map(|(i, (b, e))| (script.get(i).copied().unwrap_or('o'), *b, e.clone())).collect();
            let mk = |pairs: &[(char, bool, GenEntry)], ads: &[W]| {
                Case::Seq(pairs.iter().map(|p| p.0).collect(), ads.to_vec(), pairs.iter().map(|p| (p.1, p.2.clone())).collect())
            };
            let mut pairs = shrink_list(&pairs, |s| !s.is_empty() && fails(&mk(s, ads)));
            let ads2 = shrink_list(ads, |s| fails(&mk(&pairs, s)));
            for i in 0..pairs.len() {
                if pairs[i].1 {
                    let mut cand = pairs.clone();
                    cand[i].1 = false;
                    if fails(&mk(&cand, &ads2)) {
                        pairs = cand;
                    }
                }
                let snapshot = pairs.clone();
                let small = shrink_entry_items(&snapshot[i].2, |e| {
                    let mut cand = snapshot.clone();
                    cand[i].2 = e.clone();
                    fails(&mk(&cand, &ads2))
                });
                pairs[i].2 = small;
            }
            mk(&pairs, &ads2)
        }
        Case::WEntry(base, ws) => {
            let ws2 = shrink_list(ws, |s| fails(&Case::WEntry(base.clone(), s.to_vec())));
            let items = shrink_list(&base.items, |s| {
                fails(&Case::WEntry(VEntry { items: s.to_vec(), sample_group: base.sample_group.clone() }, ws2.clone()))
            });
            let sg = shrink_list(&base.sample_group, |s| {
                fails(&Case::WEntry(VEntry { items: items.clone(), sample_group: s.to_vec() }, ws2.clone()))
            });
            Case::WEntry(VEntry { items, sample_group: sg }, ws2)
        }
    }
}

fn site_key(c: &Case, class: &str) -> String {
    let kinds: Vec<&str> = match c {
        Case::Entry(_, ws) => ws.iter().map(|w| w.kind()).collect(),
        Case::Value(_, ws) => ws.iter().map(|w| w.kind()).collect(),
        Case::WEntry(_, ws) => std::iter::once("wrapped-values").chain(ws.iter().map(|w| w.kind())).collect(),
        Case::Seq(_, ads, _) => std::iter::once("sequence").chain(ads.iter().map(|w| w.kind())).collect(),
        Case::Foreign(_) => vec!["foreign-options"],
        Case::Q(_, inner) => return site_key(inner, class),
    };
    format!("wrappers:{}:{}", class, if kinds.is_empty() { "plain".to_string() } else { kinds.join("/") })
}

// ------------------------------------------------------------------------------------------------
// generators

const DIM_KEYS: &[&str] = &["AZ", "Region", "Operation", "Dim", "", "k\"q", "é", "A0"];
const DIM_VALS: &[&str] = &["us-east-1a", "v0", "v1", "", "x y", "\u{1}", "日本"];

thread_local! {
    /// set while one case of the degenerate ("nasty") stream is generated: empty dimension lists, empty /
    /// all-naming deny lists, empty merged-in entries (`EmptyEntry`), switched-off flags, `None`s,
    /// zero-observation metrics, empty sample groups
    static NASTY: std::cell::Cell<bool> = const { std::cell::Cell::new(false) };
}
fn nasty() -> bool {
    NASTY.with(|n| n.get())
}

fn gen_dims(rng: &mut Rng) -> Dims {
    if nasty() && rng.chance(1, 2) {
        return vec![];
    }
    let n = match rng.below(8) {
        0 => 0,
        1..=4 => 1,
        5..=6 => 2,
        _ => rng.range(3, 5),
    };
    (0..n).map(|_| (rng.pick(DIM_KEYS).to_string(), rng.pick(DIM_VALS).to_string())).collect()
}

fn gen_short_string(rng: &mut Rng) -> String {
    loop {
        let s = gen_string(rng);
        if s.len() <= 64 {
            return s;
        }
    }
}

fn gen_val(rng: &mut Rng) -> GVal {
    if nasty() && rng.chance(1, 3) {
        // a flagged metric without observations, with or without own dimensions
        return GVal::Metric {
            obs: vec![],
            unit: gen_unit(rng),
            dims: if rng.chance(1, 2) { vec![] } else { gen_dims(rng) },
            flags: *rng.pick(&[GFlags::None, GFlags::HighRes, GFlags::NoMetric]),
        };
    }
    match rng.below(10) {
        0..=1 => GVal::Str(gen_short_string(rng)),
        2 => GVal::Error(gen_short_string(rng)),
        3 => GVal::Nothing,
        _ => {
            let k = match rng.below(8) {
                0 => 0,
                1..=3 => 1,
                4..=5 => 2,
                6 => 3,
                _ => rng.range(4, 9),
            };
            GVal::Metric {
                obs: (0..k).map(|_| gen_obs(rng)).collect(),
                unit: gen_unit(rng),
                dims: if rng.chance(1, 2) { vec![] } else { gen_dims(rng) },
                flags: *rng.pick(&[GFlags::None, GFlags::None, GFlags::HighRes, GFlags::NoMetric]),
            }
        }
    }
}

fn gen_name_any(rng: &mut Rng, i: usize) -> String {
    match rng.below(12) {
        0 => rng.pick(NAME_POOL).to_string(), // may repeat
        1 => rng.pick(NASTY_STRINGS).to_string(),
        _ => gen_name(rng, i),
    }
}

fn gen_base(rng: &mut Rng, max_items: u64) -> GenEntry {
    if nasty() && max_items <= 3 && rng.chance(1, 2) {
        // merged-in entries / globals: the empty entry
        return GenEntry { items: vec![], sample_group: vec![] };
    }
    let n = rng.range(0, max_items);
    let mut items = vec![];
    for i in 0..n as usize {
        items.push(match rng.below(20) {
            0..=1 => GItem::Timestamp(rng.below(4_000_000_000_000_000) as i64 - 1_000_000_000_000_000),
            2 => GItem::allow_split(),
            3 => GItem::OtherCfg(OtherConfig),
            4 => {
                let k = rng.range(0, 2);
                GItem::entry_dims(
                    (0..k).map(|_| (0..rng.range(0, 2)).map(|_| rng.pick(NAME_POOL).to_string()).collect()).collect(),
                )
            }
            5 => GItem::unroutable(gen_short_string(rng)),
            _ => GItem::Value(gen_name_any(rng, i), gen_val(rng)),
        });
    }
    let sg = match rng.below(4) {
        0..=1 => vec![],
        _ => (0..rng.range(1, 3)).map(|_| (rng.pick(DIM_KEYS).to_string(), rng.pick(DIM_VALS).to_string())).collect(),
    };
    GenEntry { items, sample_group: sg }
}

fn names_of(e: &GenEntry) -> Vec<String> {
    e.items
        .iter()
        .filter_map(|i| match i {
            GItem::Value(n, _) => Some(n.clone()),
            GItem::Unroutable(..) => Some("MetriqueValidationError".to_string()),
            _ => None,
        })
        .collect()
}

fn gen_deny(rng: &mut Rng, names: &[String]) -> Vec<String> {
    if nasty() {
        match rng.below(3) {
            0 => return vec![],
            1 => return names.to_vec(), // names every value
            _ => {}
        }
    }
    let mut d = vec![];
    for n in names {
        if rng.chance(1, 3) {
            d.push(n.clone());
        }
    }
    if rng.chance(1, 3) {
        d.push(rng.pick(NAME_POOL).to_string());
    }
    if rng.chance(1, 10) {
        // a dimension key or a string value is not a name: deny lists apply to names only
        d.push(rng.pick(DIM_KEYS).to_string());
    }
    d
}

fn gen_mode(rng: &mut Rng) -> Mode {
    if rng.chance(if nasty() { 3 } else { 2 }, 6) {
        return Mode::Empty;
    }
    if rng.chance(1, 2) { Mode::High } else { Mode::NoMetric }
}

/// a random valid stack of exactly `depth` wrappers (or fewer when the grammar ends it)
fn gen_stack(rng: &mut Rng, depth: usize, base: &GenEntry) -> Vec<W> {
    gen_stack_with(rng, depth, base, RUN)
}

fn gen_stack_with(rng: &mut Rng, depth: usize, base: &GenEntry, first: usize) -> Vec<W> {
    let mut limit = first;
    let n_stream = if depth > 0 && rng.chance(3, 10) { rng.range(1, depth.min(3) as u64) as usize } else { 0 };
    let n_entry = depth - n_stream;
    let mut names = names_of(base);
    let mut ws: Vec<W> = vec![];
    let (mut path, mut run) = (0u8, 0usize);
    while ws.len() < n_entry {
        let last = ws.len() + 1 == n_entry;
        let must_box = (run == limit) || (last && n_stream > 0);
        if must_box {
            if path == 2 {
                break;
            }
            ws.push(W::Boxed(rng.below(3) as u8));
            path = 1;
            run = 0;
            limit = RUN;
            continue;
        }
        let w = loop {
            let w = match rng.below(22) {
                0..=2 => W::Boxed(rng.below(3) as u8),
                3 => W::MergeAfter(gen_base(rng, 3)),
                4 => W::MergeBefore(gen_base(rng, 3)),
                5 => W::MergeRefAfter(gen_base(rng, 3)),
                6 => W::MergeRefBefore(gen_base(rng, 3)),
                7..=8 => W::Dims(rng.below(3) as u8, gen_dims(rng)),
                9..=10 => W::GlobalDims(rng.below(2) as u8, gen_dims(rng), gen_deny(rng, &names)),
                11..=12 => W::Force(gen_mode(rng)),
                13 => W::Ref,
                14 => W::Box_,
                15 => W::Arc_,
                16 => W::CowOwned,
                17 => W::CowBorrowed,
                18 => W::Some_,
                19 => {
                    if nasty() || rng.chance(1, 4) { W::None_ } else { W::Some_ }
                }
                _ => W::Root,
            };
            let ok = match &w {
                W::Boxed(_) => path != 2,
                W::CowOwned | W::CowBorrowed => path == 0,
                _ => true,
            };
            // a borrowed type below the stream adapters cannot be boxed any more
            let blocks_box = matches!(w, W::Ref | W::CowBorrowed | W::MergeRefAfter(_) | W::MergeRefBefore(_))
                || (matches!(w, W::Arc_) && path == 1);
            if ok && !(blocks_box && n_stream > 0) {
                break w;
            }
        };
        match &w {
            W::Boxed(_) => {
                path = 1;
                run = 0;
                limit = RUN;
            }
            other => {
                run += 1;
                match other {
                    W::CowBorrowed | W::Ref | W::MergeRefAfter(_) | W::MergeRefBefore(_) => path = 2,
                    W::Root => path = path.max(1),
                    W::Arc_ if path == 1 => path = 2,
                    W::MergeAfter(o) | W::MergeBefore(o) => names.extend(names_of(o)),
                    _ => {}
                }
                if let W::MergeRefAfter(o) | W::MergeRefBefore(o) = other {
                    names.extend(names_of(o));
                }
            }
        }
        ws.push(w);
    }
    if n_stream > 0 && (run == 0) {
        ws.extend(gen_adapters(rng, n_stream, &mut names));
    }
    ws
}

/// `n` stream / format adapters, innermost wrapper first: stream-level ones first, format-level ones outermost
fn gen_adapters(rng: &mut Rng, n_stream: usize, names: &mut Vec<String>) -> Vec<W> {
    let mut ws = vec![];
    let n_fmt = rng.range(0, n_stream as u64) as usize;
    for i in 0..n_stream {
        let fmt = i >= n_stream - n_fmt;
        let w = match rng.below(if fmt { 2 } else { 3 }) {
            0 => {
                let g = gen_base(rng, 3);
                names.extend(names_of(&g));
                W::StreamGlobals(fmt, g)
            }
            1 => {
                let dims = if rng.chance(1, 4) { vec![] } else { gen_dims(rng) };
                let deny = if rng.chance(1, 4) { None } else { Some(gen_deny(rng, names)) };
                W::StreamDims(fmt, dims, deny)
            }
            _ => W::StreamForce(gen_mode(rng)),
        };
        ws.push(w);
    }
    ws
}

fn gen_seq(rng: &mut Rng) -> Case {
    let n = rng.range(2, 6) as usize;
    let es: Vec<(bool, GenEntry)> = (0..n).map(|_| (rng.chance(1, 2), gen_base(rng, 4))).collect();
    let mut names: Vec<String> = es.iter().flat_map(|(_, e)| names_of(e)).collect();
    let k = rng.range(1, 3) as usize;
    let ads = gen_adapters(rng, k, &mut names);
    let script: Vec<char> = (0..rng.range(0, n as u64))
        .map(|_| match rng.below(4) {
            0..=1 => 'o',
            2 => 'v',
            _ => 'i',
        })
        .collect();
    Case::Seq(script, ads, es)
}

fn gen_vstack(rng: &mut Rng, depth: usize) -> Vec<VW> {
    let mut ws = vec![];
    let mut path = 0u8;
    while ws.len() < depth {
        let w = match rng.below(14) {
            0 => VW::Ref,
            1 => VW::Box_,
            2 => VW::Arc_,
            3 => VW::CowOwned,
            4 => VW::CowBorrowed,
            5 => VW::Some_,
            6 => {
                if rng.chance(1, 3) { VW::None_ } else { VW::Some_ }
            }
            7..=8 => VW::Dims(rng.below(3) as u8, gen_dims(rng)),
            9..=10 => VW::Force(gen_mode(rng)),
            11..=12 => VW::Fmt(rng.below(2) as u8),
            _ => VW::Ref,
        };
        match &w {
            VW::Fmt(_) if path != 0 => continue,
            VW::CowOwned | VW::CowBorrowed if path == 2 => continue,
            VW::Fmt(_) => path = 2,
            VW::Dims(..) | VW::Force(_) => path = path.max(1),
            _ => {}
        }
        ws.push(w);
    }
    ws
}

fn gen_menu_stack(rng: &mut Rng) -> Vec<VW> {
    match rng.below(9) {
        8 => vec![VW::Force(Mode::High), VW::Force(Mode::Empty)],
        0 => vec![VW::Dims(1, gen_dims(rng))],
        1 => vec![VW::Dims(2, gen_dims(rng)), VW::Force(Mode::High)],
        2 => vec![VW::Force(Mode::NoMetric), VW::Dims(0, gen_dims(rng))],
        3 => vec![VW::Arc_, VW::Some_],
        4 => vec![VW::Box_, VW::None_],
        5 => vec![VW::CowOwned, VW::Fmt(1)],
        6 => vec![VW::Ref, VW::Dims(1, gen_dims(rng)), VW::Box_],
        _ => vec![VW::Some_, VW::Fmt(0)],
    }
}

fn gen_ventry(rng: &mut Rng) -> VEntry {
    let g = gen_base(rng, 6);
    let items = g
        .items
        .into_iter()
        .map(|it| match it {
            GItem::Value(n, v) if rng.chance(2, 3) => VI::Wrapped(n, v, gen_menu_stack(rng)),
            other => VI::Plain(other),
        })
        .collect();
    VEntry { items, sample_group: g.sample_group }
}

fn gen_case(rng: &mut Rng, max_depth: usize) -> Case {
    let n = rng.chance(1, 5);
    NASTY.with(|c| c.set(n));
    let c = gen_case_inner(rng, max_depth);
    NASTY.with(|c| c.set(false));
    // two thirds of the cases with a lazy / inexact-size sample-group iterator
    match rng.below(3 * (NSHAPES as u64 - 1)) {
        q if q < 2 * (NSHAPES as u64 - 1) => Case::Q((q % (NSHAPES as u64 - 1)) as u8 + 1, Box::new(c)),
        _ => c,
    }
}

fn gen_case_inner(rng: &mut Rng, max_depth: usize) -> Case {
    if rng.chance(1, 6) {
        gen_seq(rng)
    } else if rng.chance(1, 4) {
        let d = rng.range(0, VDEPTH as u64) as usize;
        Case::Value(gen_val(rng), gen_vstack(rng, d))
    } else if rng.chance(1, 4) {
        let base = gen_ventry(rng);
        let d = rng.range(0, max_depth as u64) as usize;
        let ws = gen_stack_with(rng, d, &base.strip(), 1);
        Case::WEntry(base, ws)
    } else {
        let base = gen_base(rng, 6);
        let d = match rng.below(10) {
            0 => rng.range(0, 1) as usize,
            _ => rng.range(1, max_depth as u64) as usize,
        };
        let ws = gen_stack(rng, d, &base);
        Case::Entry(base, ws)
    }
}

// ------------------------------------------------------------------------------------------------
// running

fn describe(rep: &mut Report, c: &Case, shown: &str) {
    match c {
        Case::Entry(base, ws) => {
            rep.bump(&format!("entry-stack depth:{}", ws.len()));
            for w in ws {
                rep.bump(&format!("wrapper:{}", w.kind()));
            }
            for it in &base.items {
                rep.bump(match it {
                    GItem::Timestamp(_) => "item:timestamp",
                    GItem::AllowSplit(_) | GItem::OtherCfg(_) | GItem::EntryDims(..) => "item:config",
                    GItem::Unroutable(..) => "item:in-band-error-entry",
                    GItem::Value(_, GVal::Str(_)) => "item:string",
                    GItem::Value(_, GVal::Error(_)) => "item:error-value",
                    GItem::Value(_, GVal::Nothing) => "item:empty-value",
                    GItem::Value(_, GVal::Metric { obs, .. }) if obs.len() > 1 => "item:metric-distribution",
                    GItem::Value(_, GVal::Metric { obs, .. }) if obs.is_empty() => "item:metric-no-observation",
                    GItem::Value(_, GVal::Metric { .. }) => "item:metric-scalar",
                });
                if let GItem::Value(_, GVal::Metric { dims, flags, .. }) = it {
                    if !dims.is_empty() {
                        rep.bump("item:metric-with-own-dimensions");
                    }
                    if *flags != GFlags::None {
                        rep.bump("item:metric-with-own-flags");
                    }
                }
            }
            if !base.sample_group.is_empty() {
                rep.bump("base with sample group");
            }
            let names = names_of(base);
            for w in ws {
                match w {
                    W::GlobalDims(_, _, deny) | W::StreamDims(_, _, Some(deny)) => {
                        if deny.iter().any(|d| names.contains(d)) {
                            rep.bump("deny list hits a name");
                        }
                    }
                    _ => {}
                }
                if let W::StreamDims(_, d, _) = w {
                    if d.is_empty() {
                        rep.bump("stream global dimensions: empty shortcut");
                    }
                }
            }
            if shown.starts_with("_ ") {
                rep.bump("wrapped log empty");
            }
        }
        Case::WEntry(base, ws) => {
            rep.bump(&format!("entry-over-wrapped-values depth:{}", ws.len()));
            for w in ws {
                rep.bump(&format!("wrapper:{}", w.kind()));
            }
            for it in &base.items {
                if let VI::Wrapped(_, _, st) = it {
                    rep.bump(&format!(
                        "wrapped value:{}",
                        st.iter().map(|w| w.kind()).collect::<Vec<_>>().join("/")
                    ));
                }
            }
            if !base.sample_group.is_empty() {
                rep.bump("base with sample group");
            }
            if shown.starts_with("_ ") {
                rep.bump("wrapped log empty");
            }
        }
        Case::Q(q, inner) => {
            rep.bump(&format!("sample-group iterator shape:{q}"));
            describe(rep, inner, shown);
        }
        Case::Foreign(_) => {}
        Case::Seq(script, ads, es) => {
            rep.bump(&format!("sequence length:{}", es.len()));
            rep.bump(&format!("sequence adapters:{}", ads.len()));
            for w in ads {
                rep.bump(&format!("sequence adapter:{}", w.kind()));
            }
            for c in script {
                rep.bump(&format!("sequence answer below:{c}"));
            }
            if let Some(first_err) = script.iter().position(|c| *c != 'o') {
                rep.bump_by("sequence entries after an error below", (es.len() - first_err - 1) as u64);
            }
            rep.bump_by("sequence entries boxed", es.iter().filter(|(b, _)| *b).count() as u64);
            let _ = shown;
        }
        Case::Value(base, ws) => {
            rep.bump(&format!("value-stack depth:{}", ws.len()));
            for w in ws {
                rep.bump(&format!("vwrapper:{}", w.kind()));
            }
            rep.bump(match base {
                GVal::Str(_) => "value:string",
                GVal::Error(_) => "value:error",
                GVal::Nothing => "value:empty",
                GVal::Metric { .. } => "value:metric",
            });
        }
    }
}

fn nontrivial(c: &Case, shown: &str) -> bool {
    match c {
        Case::Entry(_, ws) => !ws.is_empty() && !shown.starts_with("_ "),
        Case::Value(_, ws) => !ws.is_empty() && shown != "N",
        Case::WEntry(e, ws) => {
            !ws.is_empty() && !shown.starts_with("_ ") && e.items.iter().any(|i| matches!(i, VI::Wrapped(..)))
        }
        // some entry that writes something comes after an entry the format below rejected
        Case::Seq(script, ads, es) => {
            !ads.is_empty()
                && script.iter().position(|c| *c != 'o').map_or(false, |p| es[p + 1..].iter().any(|(_, e)| !e.items.is_empty()))
        }
        Case::Foreign(_) => true,
        Case::Q(_, inner) => nontrivial(inner, shown),
    }
}

/// run a batch: implementation + oracle + model; appends to `rep`
fn run_batch(rep: &mut Report, args: &Args, cases: &[Case], sample_every: usize) {
    let mut requests = vec![];
    let mut impl_out = vec![];
    let mut idx = vec![];
    for (ci, c) in cases.iter().enumerate() {
        let enc = c.encode();
        if let Err(why) = valid(c) {
            rep.bump(&format!("skipped:invalid-stack ({why})"));
            continue;
        }
        let shown = match check(c) {
            Ok(s) => s,
            Err((_, _, shown)) if rep.oracle_failures.len() >= 50 => {
                rep.bump("oracle failures beyond the 50 recorded");
                shown
            }
            Err((_, _, shown)) => {
                let small = shrink(c);
                let (class, what, out) = match check(&small) {
                    Err(x) => x,
                    Ok(s) => ("unstable".into(), "failure disappeared while shrinking".into(), s),
                };
                rep.oracle_failure(&site_key(&small, &class), &small.encode(), &out, &what);
                shown
            }
        };
        rep.case(&enc, nontrivial(c, &shown));
        describe(rep, c, &shown);
        if sample_every > 0 && ci % sample_every == 7 % sample_every {
            rep.sample(json!({"case": enc, "impl": shown}));
        }
        if c.model_request().is_empty() {
            rep.bump("foreign-options fixed scenarios (oracle only, not modelled)");
            continue;
        }
        requests.push(c.model_request());
        impl_out.push(shown);
        idx.push(ci);
    }
    match run_driver(&args.driver, "wrappers", &requests) {
        Some(replies) => {
            for ((ci, got), reply) in idx.iter().zip(impl_out.iter()).zip(replies.iter()) {
                if got != reply {
                    let mut inner = &cases[*ci];
                    while let Case::Q(_, c) = inner {
                        inner = c;
                    }
                    let comp = match inner {
                        Case::Entry(..) => "wrappers/entry-stack",
                        Case::Value(..) => "wrappers/value-stack",
                        Case::WEntry(..) => "wrappers/entry-stack-over-wrapped-values",
                        Case::Seq(..) => "wrappers/adapter-sequence",
                        Case::Foreign(..) => "wrappers/foreign-options",
                        Case::Q(..) => unreachable!(),
                    };
                    rep.disagreement(comp, &cases[*ci].encode(), got, reply);
                }
            }
            rep.bump_by("model requests", requests.len() as u64);
        }
        None => rep.driver_available = false,
    }
}

fn merge(into: &mut Report, from: Report) {
    into.evaluations += from.evaluations;
    into.nontrivial.extend(from.nontrivial);
    for (k, v) in from.distribution {
        *into.distribution.entry(k).or_insert(0) += v;
    }
    for f in from.oracle_failures {
        if into.oracle_failures.len() < 50 {
            into.oracle_failures.push(f);
        }
    }
    for d in from.disagreements {
        if into.disagreements.len() < 50 {
            into.disagreements.push(d);
        }
    }
    for s in from.samples {
        into.sample(s);
    }
    into.driver_available &= from.driver_available;
}

/// every single wrapper and every ordered pair of entry-level wrapper kinds over a fixed rich entry
fn systematic_cases(rng: &mut Rng) -> Vec<Case> {
    let mut out = vec![];
    let base = rich_entry;
    let other = || GenEntry::decode("V476c6f62616c=S67 V47436e74=Mn:-:.:u3 G47~67").unwrap();
    let dims = || vec![("AZ".to_string(), "b".to_string()), ("Cell".to_string(), "c1".to_string())];
    let kinds = |rng: &mut Rng| -> Vec<W> {
        vec![
            W::Boxed(0),
            W::Boxed(1),
            W::Boxed(2),
            W::MergeAfter(other()),
            W::MergeBefore(other()),
            W::MergeRefAfter(other()),
            W::MergeRefBefore(other()),
            W::Dims(rng.below(3) as u8, dims()),
            W::GlobalDims(rng.below(2) as u8, dims(), vec!["Count".into(), "Operation".into(), "AZ".into()]),
            W::Force(Mode::High),
            W::Force(Mode::NoMetric),
            W::Force(Mode::Empty),
            W::MergeAfter(GenEntry { items: vec![], sample_group: vec![] }),
            W::MergeBefore(GenEntry { items: vec![], sample_group: vec![] }),
            W::Dims(1, vec![]),
            W::GlobalDims(1, vec![], vec!["Count".into()]),
            W::GlobalDims(0, dims(), vec![]),
            W::GlobalDims(1, dims(), names_of(&rich_entry())),
            W::StreamGlobals(false, GenEntry { items: vec![], sample_group: vec![] }),
            W::StreamGlobals(true, GenEntry { items: vec![], sample_group: vec![] }),
            W::Ref,
            W::Box_,
            W::Arc_,
            W::CowOwned,
            W::CowBorrowed,
            W::Some_,
            W::None_,
            W::Root,
            W::StreamGlobals(false, other()),
            W::StreamGlobals(true, other()),
            W::StreamDims(false, dims(), Some(vec!["Latency".into()])),
            W::StreamDims(true, dims(), None),
            W::StreamDims(false, vec![], Some(vec!["Latency".into()])),
            W::StreamForce(Mode::High),
            W::StreamForce(Mode::NoMetric),
            W::StreamForce(Mode::Empty),
        ]
    };
    for a in kinds(rng) {
        out.push(Case::Entry(base(), vec![a.clone()]));
        for b in kinds(rng) {
            for mid_box in [false, true] {
                let ws = if mid_box { vec![a.clone(), W::Boxed(2), b.clone()] } else { vec![a.clone(), b.clone()] };
                if valid_stack(&ws).is_ok() {
                    out.push(Case::Entry(base(), ws));
                }
            }
        }
    }
    let wbase = || {
        VEntry::decode(
            "T5 V41=Mu436f756e74:h:4b~76:u1;u2;u3@d1+44~64 V42=Mn:-:4b~76:u1@d2+44~64+45~65@fh V43=Mn:h:.:f3ff0000000000000@fx@d0+44~64 \
             V44=Mn:x:.:u4@a@o V45=S61@x@on V46=Mn:-:.:u1;u2@co@t1 V47=Mn:-:4b~76:u7@r@d1+44~64@x V48=E62@o@t0 V49=S73 CS G4f70~46 G53~32 G54~33",
        )
        .unwrap()
    };
    for a in kinds(rng) {
        for ws in [vec![a.clone()], vec![a.clone(), W::Boxed(0)], vec![W::Boxed(2), a.clone()], vec![W::Boxed(1), a.clone(), W::Boxed(2)]] {
            if valid_stack_with(&ws, 1).is_ok() {
                out.push(Case::WEntry(wbase(), ws));
            }
        }
    }
    out.push(Case::WEntry(wbase(), vec![]));
    for n in 0..FOREIGN_CASES {
        out.push(Case::Foreign(n));
    }
    // one long-lived adapter (and every valid pair) x answer scripts with an error first / in the middle
    let adapters: Vec<W> = kinds(rng).into_iter().filter(|w| w.is_stream()).collect();
    let mut stacks: Vec<Vec<W>> = adapters.iter().map(|a| vec![a.clone()]).collect();
    for a in &adapters {
        for b in &adapters {
            let st = vec![a.clone(), b.clone()];
            if valid_stack(&st).is_ok() {
                stacks.push(st);
            }
        }
    }
    for st in stacks {
        for script in ["o,o,o", "v,o,o", "i,v,o", "o,i,o"] {
            let es = vec![(false, base()), (true, base()), (false, other()), (false, base())];
            out.push(Case::Seq(script.split(',').map(|t| t.chars().next().unwrap()).collect(), st.clone(), es));
        }
    }
    let vbase = || dec_val("Mu436f756e74:h:415a~61:u7;f3ff8000000000000").unwrap();
    let vkinds = || {
        vec![
            VW::Ref,
            VW::Box_,
            VW::Arc_,
            VW::CowOwned,
            VW::CowBorrowed,
            VW::Some_,
            VW::None_,
            VW::Dims(1, dims()),
            VW::Dims(0, vec![]),
            VW::Force(Mode::High),
            VW::Force(Mode::NoMetric),
            VW::Force(Mode::Empty),
            VW::Fmt(0),
            VW::Fmt(1),
        ]
    };
    for a in vkinds() {
        out.push(Case::Value(vbase(), vec![a.clone()]));
        for b in vkinds() {
            let ws = vec![a.clone(), b.clone()];
            if valid_vstack(&ws).is_ok() {
                out.push(Case::Value(vbase(), ws.clone()));
                out.push(Case::Value(GVal::Str("s".into()), ws));
            }
        }
    }
    out
}

/// neighbours of a disagreeing case for the oracle-only search
fn neighbour(rng: &mut Rng, c: &Case, max_depth: usize) -> Case {
    match c {
        Case::Entry(base, ws) => match rng.below(4) {
            0 => Case::Entry(gen_base(rng, 6), ws.clone()),
            1 => {
                let k = rng.range(0, ws.len() as u64) as usize;
                Case::Entry(base.clone(), ws[..k].to_vec())
            }
            2 => {
                let d = rng.range(1, max_depth as u64) as usize;
                Case::Entry(base.clone(), gen_stack(rng, d, base))
            }
            _ => gen_case(rng, max_depth),
        },
        Case::Foreign(_) => gen_case(rng, max_depth),
        Case::Q(q, inner) => Case::Q(*q, Box::new(neighbour(rng, inner, max_depth))),
        Case::Seq(script, ads, es) => match rng.below(3) {
            0 => {
                // same adapters and answers, other entries
                let es2 = es.iter().map(|(b, _)| (*b, gen_base(rng, 4))).collect();
                Case::Seq(script.clone(), ads.clone(), es2)
            }
            1 => {
                let sc = (0..es.len()).map(|_| *rng.pick(&['o', 'v', 'i'])).collect();
                Case::Seq(sc, ads.clone(), es.clone())
            }
            _ => gen_seq(rng),
        },
        Case::WEntry(base, ws) => match rng.below(3) {
            0 => Case::WEntry(gen_ventry(rng), ws.clone()),
            1 => {
                let k = rng.range(0, ws.len() as u64) as usize;
                Case::WEntry(base.clone(), ws[..k].to_vec())
            }
            _ => gen_case(rng, max_depth),
        },
        Case::Value(base, ws) => match rng.below(3) {
            0 => Case::Value(gen_val(rng), ws.clone()),
            1 => {
                let d = rng.range(0, VDEPTH as u64) as usize;
                Case::Value(base.clone(), gen_vstack(rng, d))
            }
            _ => gen_case(rng, max_depth),
        },
    }
}

fn main() {
    quiet_panics();
    let args = Args::parse();
    let rule = "case = (plain entry, stack of entry wrappers / stream adapters) or (plain value, stack of value wrappers) or \
                (entry with wrapped values, stack) or (one long-lived adapter stack, script of answers below, sequence of entries); \
                non-trivial = the stack is non-empty and the wrapped entry still writes at least one call \
                (value: the wrapped value still makes a call; sequence: a non-empty entry follows an entry the format below rejected); \
                distinct by case text";
    let mut rep = Report::new(&args, "wrappers", rule);
    let mut rng = Rng::new(args.seed);
    let max_depth = if args.thorough() { 7 } else { 4 };

    if let Some(line) = args.replay_case() {
        let cases: Vec<Case> = Case::decode(&line).into_iter().collect();
        if cases.is_empty() {
            rep.notes.push("replay case does not decode".into());
        }
        run_batch(&mut rep, &args, &cases, 1);
        rep.write(&args);
        return;
    }

    // corpus + systematic singles/pairs
    let mut first: Vec<Case> = vec![];
    for l in args.corpus_cases() {
        match Case::decode(&l) {
            Some(c) => first.push(c),
            None => rep.notes.push(format!("corpus line does not decode: {l}")),
        }
    }
    rep.bump_by("corpus cases", first.len() as u64);
    // every systematic case with an exact-size sample-group iterator and with one of the lazy shapes
    for (i, c) in systematic_cases(&mut rng).into_iter().enumerate() {
        first.push(Case::Q(1 + (i % (NSHAPES as usize - 1)) as u8, Box::new(c.clone())));
        first.push(c);
    }
    run_batch(&mut rep, &args, &first, 211);

    // random stacks, sharded
    let (shards, per_shard, chunk) = if args.thorough() { (12u64, 600_000usize, 25_000usize) } else { (3u64, 60_000usize, 20_000usize) };
    let forks: Vec<Rng> = (0..shards).map(|i| rng.fork(i)).collect();
    let reports: Vec<Report> = std::thread::scope(|sc| {
        let handles: Vec<_> = forks
            .into_iter()
            .map(|mut r| {
                let args = &args;
                sc.spawn(move || {
                    let mut rep = Report::new(args, "wrappers", "");
                    let mut done = 0;
                    while done < per_shard {
                        let n = chunk.min(per_shard - done);
                        let cases: Vec<Case> = (0..n).map(|_| gen_case(&mut r, max_depth)).collect();
                        run_batch(&mut rep, args, &cases, 4001);
                        done += n;
                    }
                    rep
                })
            })
            .collect();
        handles.into_iter().map(|h| h.join().expect("shard")).collect()
    });
    for r in reports {
        merge(&mut rep, r);
    }

    // a disagreement with the model but no oracle failure: search the neighbourhood with the oracle only
    if !rep.disagreements.is_empty() && rep.oracle_failures.is_empty() {
        let seeds: Vec<Case> = rep.disagreements.iter().filter_map(|d| Case::decode(&d.case)).take(5).collect();
        let budget = 10 * 3 * 60_000u64;
        let mut srng = rng.fork(0x5ea1c4);
        if !seeds.is_empty() {
            for i in 0..budget {
                let c = neighbour(&mut srng, &seeds[(i % seeds.len() as u64) as usize], max_depth);
                if valid(&c).is_err() {
                    continue;
                }
                rep.search_cases += 1;
                if check(&c).is_err() {
                    let small = shrink(&c);
                    if let Err((class, what, out)) = check(&small) {
                        rep.oracle_failure(&site_key(&small, &class), &small.encode(), &out, &what);
                        rep.search_found = true;
                        break;
                    }
                }
            }
        }
    }
    rep.write(&args);
}
