//! Engine `histogram` (C11): the three aggregation strategies of `metrique-aggregation` through the
//! public `Histogram` / `SharedHistogram` API, the closed value's observation list, re-aggregation of
//! closed histograms, and the `histogram` crate's bucket layout.
//!
//! Case lines
//!   `B <gp> <mvp> <i>`                       bucket `i` of the crate's layout: bounds, midpoint and
//!                                            `value_to_index` at lower-1, lower, upper, upper+1
//!   `H <kind> <path> <strategy> <src>*`      record the sources into one histogram, close it, observe the
//!                                            closed value, re-aggregate it (path `m` = `AggregateValue::
//!                                            insert` of the closed histogram, `a` = `add_value` of it) into a
//!                                            fresh histogram of the same strategy, close and observe again
//!        kind = u64|u32|f64|f32|dur|dur_s|dur_us|obs|obs_kb|obs_bit   (the Rust type `T`, incl. `WithUnit`)
//!        strategy = exp|atomic|sam ; src = `u<n>` | `f<bits>` | `d<secs>.<nanos>` | `r<total bits>.<occ>`
//!   `T <seed> <threads> <ops per thread>`    concurrent recording into the atomic strategy with drains
//!
//! Oracle (written from the property statement, independent of the Lean model) — for cases inside the
//! property's domain (finite, non-negative, < 2^43, total occurrences < 2^64):
//!   * every reported observation is `Repeated` with occurrences > 0 and the occurrences add up to the
//!     number of recorded observations (`Repeated{total, n}` counts as n observations of total/n);
//!   * exponential strategies: recorded and reported observations, both sorted, are matched unit by
//!     unit; each recorded value v must meet a reported value r (= total/occurrences) with
//!     |r − v| ≤ v/16 when v ≥ 1/32 and |r − v| < 1/1024 otherwise; atomic and non-atomic variants must
//!     report identical lists;
//!   * sort-and-merge: reported values are exactly the distinct recorded values, strictly ascending,
//!     occurrences = multiplicity, total = v·multiplicity (correctly rounded, one ulp tolerated);
//!   * re-aggregation: identical observation list when every product is exact (midpoint·count < 2^53 resp.
//!     v·multiplicity representable); otherwise same length, same occurrences, totals within one ulp
//!     (sort-and-merge) / occurrences conserved (exponential, see notes/C11.md).
//! Outside the domain (NaN, ±∞, negatives, huge values, wrapping counts) only count conservation (where
//! it is meaningful) and the model comparison apply.

use metrique_aggregation::histogram::{
    AggregationStrategy, AtomicExponentialAggregationStrategy, ExponentialAggregationStrategy, Histogram,
    HistogramClosed, SharedAggregationStrategy, SharedHistogram, SortAndMerge,
};
use metrique_aggregation::traits::AggregateValue;
use metrique_core::CloseValue;
use metrique_writer_core::unit::{Bit, Byte, Convert, Kilobyte, Microsecond, Millisecond, Second, WithUnit};
use metrique_writer_core::value::MetricFlags;
use metrique_writer_core::{MetricValue, Observation, Unit, ValidationError, Value, ValueWriter};
use std::sync::Arc;
use std::time::Duration;
use verif_harness::*;

// ------------------------------------------------------------------------------------------------
// observing values

struct Recorder<'a>(&'a mut Vec<Observation>, &'a mut Vec<String>);

impl ValueWriter for Recorder<'_> {
    fn string(self, v: &str) {
        self.1.push(format!("string:{v}"));
    }
    fn metric<'a>(
        self,
        distribution: impl IntoIterator<Item = Observation>,
        _unit: Unit,
        dimensions: impl IntoIterator<Item = (&'a str, &'a str)>,
        _flags: MetricFlags<'_>,
    ) {
        self.0.extend(distribution);
        if dimensions.into_iter().count() != 0 {
            self.1.push("dimensions".into());
        }
    }
    fn error(self, e: ValidationError) {
        self.1.push(format!("error:{e}"));
    }
}

fn observe(v: &impl Value) -> (Vec<Observation>, Vec<String>) {
    let (mut obs, mut other) = (vec![], vec![]);
    v.write(Recorder(&mut obs, &mut other));
    (obs, other)
}

/// canonical text of an observation list: `<total bits>:<occurrences>,…`; anything that is not
/// `Repeated` is rendered so that it can never equal a model reply
fn show_obs(obs: &[Observation], other: &[String]) -> String {
    let mut parts: Vec<String> = obs
        .iter()
        .map(|o| match o {
            Observation::Repeated { total, occurrences } => format!("{}:{}", f64_bits(*total), occurrences),
            Observation::Unsigned(u) => format!("unsigned!{u}"),
            Observation::Floating(f) => format!("floating!{}", f64_bits(*f)),
            _ => "unknown!".into(),
        })
        .collect();
    parts.extend(other.iter().map(|s| format!("other!{}", hex(s.as_bytes()))));
    if parts.is_empty() { "-".into() } else { parts.join(",") }
}

// ------------------------------------------------------------------------------------------------
// cases

#[derive(Clone, Debug, PartialEq)]
enum Src {
    U(u64),
    F(f64),
    D(u64, u32),
    R(f64, u64),
    /// one value that writes several observations (each `U` / `F` / `R`) in ONE `metric()` call
    M(Vec<Src>),
}

impl Src {
    fn enc(&self) -> String {
        match self {
            Src::U(n) => format!("u{n}"),
            Src::F(f) => format!("f{}", f64_bits(*f)),
            Src::D(s, n) => format!("d{s}.{n}"),
            Src::R(t, o) => format!("r{}.{}", f64_bits(*t), o),
            Src::M(v) => format!("m{}", v.iter().map(|o| o.enc()).collect::<Vec<_>>().join("+")),
        }
    }
    fn dec(s: &str) -> Option<Src> {
        let body = s.get(1..)?;
        let bits = |h: &str| -> Option<f64> {
            if h.len() != 16 {
                return None;
            }
            u64::from_str_radix(h, 16).ok().map(f64::from_bits)
        };
        match s.chars().next()? {
            'u' => body.parse().ok().map(Src::U),
            'f' => bits(body).map(Src::F),
            'd' => {
                let (a, b) = body.split_once('.')?;
                let n: u32 = b.parse().ok()?;
                if n >= 1_000_000_000 {
                    return None;
                }
                Some(Src::D(a.parse().ok()?, n))
            }
            'r' => {
                let (a, b) = body.split_once('.')?;
                Some(Src::R(bits(a)?, b.parse().ok()?))
            }
            'm' => {
                if body.is_empty() {
                    return Some(Src::M(vec![]));
                }
                let v: Option<Vec<Src>> = body.split('+').map(Src::dec).collect();
                let v = v?;
                if v.iter().all(|o| matches!(o, Src::U(_) | Src::F(_) | Src::R(..))) { Some(Src::M(v)) } else { None }
            }
            _ => None,
        }
    }
    fn as_observation(&self) -> Observation {
        match self.clone() {
            Src::U(n) => Observation::Unsigned(n),
            Src::F(f) => Observation::Floating(f),
            Src::R(total, occurrences) => Observation::Repeated { total, occurrences },
            Src::D(..) | Src::M(_) => unreachable!("not a single observation"),
        }
    }
}

const KINDS: [&str; 13] =
    ["u64", "u32", "f64", "f32", "dur", "dur_s", "dur_us", "obs", "obs_kb", "obs_bit", "multi", "multi_kb", "dist"];
const MULTI_KINDS: [&str; 3] = ["multi", "multi_kb", "dist"];
const STRATEGIES: [&str; 3] = ["exp", "atomic", "sam"];

#[derive(Clone, Debug)]
struct HCase {
    kind: String,
    path: char,
    strategy: String,
    srcs: Vec<Src>,
}

impl HCase {
    fn encode(&self) -> String {
        let mut s = format!("H {} {} {}", self.kind, self.path, self.strategy);
        for v in &self.srcs {
            s.push(' ');
            s.push_str(&v.enc());
        }
        s
    }
    fn decode(s: &str) -> Option<HCase> {
        let mut it = s.split_whitespace();
        if it.next()? != "H" {
            return None;
        }
        let kind = it.next()?.to_string();
        let path = it.next()?.chars().next()?;
        let strategy = it.next()?.to_string();
        if !KINDS.contains(&kind.as_str()) || !STRATEGIES.contains(&strategy.as_str()) || !"ma".contains(path) {
            return None;
        }
        let srcs: Option<Vec<Src>> = it.map(Src::dec).collect();
        let c = HCase { kind, path, strategy, srcs: srcs? };
        if c.srcs.iter().all(|s| src_fits(&c.kind, s)) { Some(c) } else { None }
    }
    /// the `RATIO` of the `WithUnit` wrapper of this kind, taken from the real crate
    fn ratio(&self) -> Option<f64> {
        match self.kind.as_str() {
            "dur_s" => Some(<Millisecond as Convert<Second>>::RATIO),
            "dur_us" => Some(<Millisecond as Convert<Microsecond>>::RATIO),
            "obs_kb" | "multi_kb" => Some(<Byte as Convert<Kilobyte>>::RATIO),
            "obs_bit" => Some(<Byte as Convert<Bit>>::RATIO),
            _ => None,
        }
    }
    fn request(&self) -> String {
        let mut s = format!("hist {} {}", self.strategy, self.ratio().map(f64_bits).unwrap_or("-".into()));
        for v in &self.srcs {
            s.push(' ');
            s.push_str(&v.enc());
        }
        s
    }
}

fn src_fits(kind: &str, s: &Src) -> bool {
    match (kind, s) {
        ("u64", Src::U(_)) => true,
        ("u32", Src::U(n)) => *n <= u32::MAX as u64,
        ("f64", Src::F(_)) => true,
        ("f32", Src::F(f)) => (*f as f32) as f64 == *f || f.is_nan(),
        ("dur" | "dur_s" | "dur_us", Src::D(..)) => true,
        ("obs" | "obs_kb" | "obs_bit", Src::U(_) | Src::F(_) | Src::R(..)) => true,
        ("multi" | "multi_kb" | "dist", Src::M(_)) => true,
        _ => false,
    }
}

// ------------------------------------------------------------------------------------------------
// running the implementation

struct ImplOut {
    closed: String,
    reagg: String,
    closed_obs: Vec<Observation>,
    reagg_obs: Vec<Observation>,
}

fn finish<T: MetricValue>(
    closed: HistogramClosed<T>,
    path: char,
    strategy: &str,
) -> ImplOut {
    let (closed_obs, other1) = observe(&closed);
    let closed_s = show_obs(&closed_obs, &other1);
    let (reagg_obs, other2) = match (strategy, path) {
        ("exp", 'm') => {
            let mut h: Histogram<T, ExponentialAggregationStrategy> = Histogram::default();
            <Histogram<T, ExponentialAggregationStrategy> as AggregateValue<HistogramClosed<T>>>::insert(&mut h, closed);
            observe(&h.close())
        }
        ("sam", 'm') => {
            let mut h: Histogram<T, SortAndMerge> = Histogram::default();
            <Histogram<T, SortAndMerge> as AggregateValue<HistogramClosed<T>>>::insert(&mut h, closed);
            observe(&h.close())
        }
        ("exp", _) => {
            let mut h: Histogram<HistogramClosed<T>, ExponentialAggregationStrategy> = Histogram::default();
            h.add_value(closed);
            observe(&h.close())
        }
        ("sam", _) => {
            let mut h: Histogram<HistogramClosed<T>, SortAndMerge> = Histogram::new(SortAndMerge::new());
            h.add_value(&closed);
            observe(&h.close())
        }
        _ => {
            let h: SharedHistogram<HistogramClosed<T>, AtomicExponentialAggregationStrategy> = SharedHistogram::default();
            h.add_value(closed);
            observe(&h.close())
        }
    };
    ImplOut { closed: closed_s, reagg: show_obs(&reagg_obs, &other2), closed_obs, reagg_obs }
}

fn run_typed<T: MetricValue>(strategy: &str, path: char, vals: Vec<T>) -> ImplOut {
    match strategy {
        "exp" => {
            let mut h: Histogram<T, ExponentialAggregationStrategy> = Histogram::default();
            for v in vals {
                h.add_value(v);
            }
            finish(h.close(), path, strategy)
        }
        "sam" => {
            let mut h: Histogram<T, SortAndMerge> = Histogram::new(SortAndMerge::new());
            for v in vals {
                h.add_value(&v);
            }
            finish(h.close(), path, strategy)
        }
        _ => {
            let h: SharedHistogram<T, AtomicExponentialAggregationStrategy> =
                SharedHistogram::new(AtomicExponentialAggregationStrategy::new());
            for v in vals {
                h.add_value(v);
            }
            finish(h.close(), path, strategy)
        }
    }
}

/// A value that writes all its observations in one `metric()` call (what a distribution-like value, a
/// pre-aggregated batch or a closed histogram does).
#[derive(Clone, Debug)]
struct Multi(Vec<Observation>);

impl Value for Multi {
    fn write(&self, writer: impl ValueWriter) {
        writer.metric(self.0.iter().copied(), Unit::None, [], MetricFlags::empty())
    }
}

impl MetricValue for Multi {
    type Unit = metrique_writer_core::unit::None;
}

fn multi(s: &Src) -> Multi {
    match s {
        Src::M(v) => Multi(v.iter().map(|o| o.as_observation()).collect()),
        _ => unreachable!(),
    }
}

type Dist = metrique_writer::value::Distribution<Observation>;

fn dist(s: &Src) -> Dist {
    multi(s).0.into_iter().collect()
}

fn dur(s: &Src) -> Duration {
    match *s {
        Src::D(secs, nanos) => Duration::new(secs, nanos),
        _ => unreachable!(),
    }
}

fn unsigned(s: &Src) -> u64 {
    match *s {
        Src::U(n) => n,
        _ => unreachable!(),
    }
}

fn floating(s: &Src) -> f64 {
    match *s {
        Src::F(f) => f,
        _ => unreachable!(),
    }
}

/// runs the implementation with strategy `strategy` (normally the case's own)
fn run_impl_with(c: &HCase, strategy: &str) -> Result<ImplOut, String> {
    let s = &c.srcs;
    catch(|| match c.kind.as_str() {
        "u64" => run_typed::<u64>(strategy, c.path, s.iter().map(unsigned).collect()),
        "u32" => run_typed::<u32>(strategy, c.path, s.iter().map(|v| unsigned(v) as u32).collect()),
        "f64" => run_typed::<f64>(strategy, c.path, s.iter().map(floating).collect()),
        "f32" => run_typed::<f32>(strategy, c.path, s.iter().map(|v| floating(v) as f32).collect()),
        "dur" => run_typed::<Duration>(strategy, c.path, s.iter().map(dur).collect()),
        "dur_s" => run_typed::<WithUnit<Duration, Second>>(strategy, c.path, s.iter().map(|v| dur(v).into()).collect()),
        "dur_us" => {
            run_typed::<WithUnit<Duration, Microsecond>>(strategy, c.path, s.iter().map(|v| dur(v).into()).collect())
        }
        "multi" => run_typed::<Multi>(strategy, c.path, s.iter().map(multi).collect()),
        "multi_kb" => run_typed::<WithUnit<WithUnit<Multi, Byte>, Kilobyte>>(
            strategy,
            c.path,
            s.iter().map(|v| WithUnit::from(WithUnit::from(multi(v)))).collect(),
        ),
        "dist" => run_typed::<Dist>(strategy, c.path, s.iter().map(dist).collect()),
        "obs" => run_typed::<Observation>(strategy, c.path, s.iter().map(|v| v.as_observation()).collect()),
        "obs_kb" => run_typed::<WithUnit<WithUnit<Observation, Byte>, Kilobyte>>(
            strategy,
            c.path,
            s.iter().map(|v| WithUnit::from(WithUnit::from(v.as_observation()))).collect(),
        ),
        _ => run_typed::<WithUnit<WithUnit<Observation, Byte>, Bit>>(
            strategy,
            c.path,
            s.iter().map(|v| WithUnit::from(WithUnit::from(v.as_observation()))).collect(),
        ),
    })
}

fn run_impl(c: &HCase) -> Result<ImplOut, String> {
    run_impl_with(c, &c.strategy)
}

/// what the source values are, as observations, according to their own `Value::write`
/// (the histogram is not involved): `(value, occurrences)`
fn originals(c: &HCase) -> Vec<(f64, u64)> {
    fn obs_of<T: Value>(v: T) -> Vec<Observation> {
        observe(&v).0
    }
    let mut out = vec![];
    for s in &c.srcs {
        let obs = match c.kind.as_str() {
            "u64" => obs_of(unsigned(s)),
            "u32" => obs_of(unsigned(s) as u32),
            "f64" => obs_of(floating(s)),
            "f32" => obs_of(floating(s) as f32),
            "dur" => obs_of(dur(s)),
            "dur_s" => obs_of(WithUnit::<Duration, Second>::from(dur(s))),
            "dur_us" => obs_of(WithUnit::<Duration, Microsecond>::from(dur(s))),
            "multi" => obs_of(multi(s)),
            "multi_kb" => obs_of(WithUnit::<WithUnit<Multi, Byte>, Kilobyte>::from(WithUnit::from(multi(s)))),
            "dist" => obs_of(dist(s)),
            "obs" => obs_of(s.as_observation()),
            "obs_kb" => obs_of(WithUnit::<WithUnit<Observation, Byte>, Kilobyte>::from(WithUnit::from(s.as_observation()))),
            _ => obs_of(WithUnit::<WithUnit<Observation, Byte>, Bit>::from(WithUnit::from(s.as_observation()))),
        };
        for o in obs {
            match o {
                Observation::Unsigned(u) => out.push((u as f64, 1)),
                Observation::Floating(f) => out.push((f, 1)),
                Observation::Repeated { total, occurrences } => {
                    if occurrences > 0 {
                        out.push((total / occurrences as f64, occurrences))
                    }
                }
                _ => {}
            }
        }
    }
    out
}

const SAM_MAX_OCCURRENCES: u64 = 100_000;
const DOMAIN_LIMIT: f64 = 8796093022208.0; // 2^43

fn total_count(orig: &[(f64, u64)]) -> Option<u64> {
    orig.iter().try_fold(0u64, |a, (_, n)| a.checked_add(*n))
}

fn in_domain(orig: &[(f64, u64)]) -> bool {
    total_count(orig).is_some()
        && orig.iter().all(|(v, _)| v.is_finite() && v.is_sign_positive() && *v < DOMAIN_LIMIT)
}

fn repeated(obs: &[Observation]) -> Result<Vec<(f64, u64)>, String> {
    obs.iter()
        .map(|o| match o {
            Observation::Repeated { total, occurrences } if *occurrences > 0 => Ok((*total, *occurrences)),
            other => Err(format!("closed histogram reports {other:?} (expected Repeated with occurrences > 0)")),
        })
        .collect()
}

fn within_one_ulp(a: f64, b: f64) -> bool {
    a == b || a.next_up() == b || a.next_down() == b
}

/// the property oracle for one `H` case; `Some((key, what))` on failure
fn oracle(c: &HCase, o: &ImplOut, rep: Option<&mut Report>) -> Option<(String, String)> {
    let orig = originals(c);
    let sam = c.strategy == "sam";
    let closed = match repeated(&o.closed_obs) {
        Ok(v) => v,
        Err(e) => return Some(("histogram:closed-shape".into(), e)),
    };
    let reagg = match repeated(&o.reagg_obs) {
        Ok(v) => v,
        Err(e) => return Some(("histogram:reaggregate-shape".into(), e)),
    };
    let nan_free = orig.iter().all(|(v, _)| !v.is_nan());
    // count conservation: for the exponential strategies every f64 lands in some bucket
    if let Some(n) = total_count(&orig) {
        if !sam || nan_free {
            let got: u128 = closed.iter().map(|(_, k)| *k as u128).sum();
            if got != n as u128 {
                return Some((
                    format!("histogram:{}:count", c.strategy),
                    format!("{n} observations recorded, closed histogram reports {got} occurrences"),
                ));
            }
            let got2: u128 = reagg.iter().map(|(_, k)| *k as u128).sum();
            if got2 != n as u128 {
                return Some((
                    format!("histogram:{}:reaggregate-count", c.strategy),
                    format!("{n} observations recorded, the re-aggregated histogram reports {got2} occurrences"),
                ));
            }
        }
    }
    if !in_domain(&orig) {
        return None;
    }
    let mut sorted = orig.clone();
    sorted.sort_by(|a, b| a.0.partial_cmp(&b.0).unwrap());
    if sam {
        // distinct values ascending with multiplicities
        let mut want: Vec<(f64, u64)> = vec![];
        for (v, n) in &sorted {
            match want.last_mut() {
                Some((w, k)) if *w == *v => *k += *n,
                _ => want.push((*v, *n)),
            }
        }
        if want.len() != closed.len() {
            return Some((
                "histogram:sam:values".into(),
                format!("{} distinct values recorded, {} reported", want.len(), closed.len()),
            ));
        }
        for ((v, k), (total, occ)) in want.iter().zip(closed.iter()) {
            if k != occ {
                return Some(("histogram:sam:multiplicity".into(), format!("value {v} recorded {k} times, reported {occ} times")));
            }
            if !within_one_ulp(*total, *v * (*k as f64)) {
                return Some((
                    "histogram:sam:total".into(),
                    format!("value {v} x {k}: reported total {total} is not the rounded product {}", *v * (*k as f64)),
                ));
            }
        }
        // (the order of the rows is fixed by the comparison with the ascending `want` above)
        // re-aggregation
        let exact = closed.iter().all(|(t, k)| {
            let v = t / *k as f64;
            v.mul_add(*k as f64, -*t) == 0.0 && want.iter().any(|(w, _)| *w == v)
        });
        if exact {
            if o.reagg != o.closed {
                return Some(("histogram:sam:reaggregate-values".into(), "re-aggregation changed the observation list although every product v*n is exact".into()));
            }
        } else {
            // products are rounded: judge observation unit by observation unit (k-th smallest against
            // k-th smallest): same number of units, each within one ulp. A change of the number of
            // rows alone (values one ulp apart collapsing) is the known ulp-collapse finding.
            let n1: u128 = closed.iter().map(|(_, k)| *k as u128).sum();
            let n2: u128 = reagg.iter().map(|(_, k)| *k as u128).sum();
            let strict = |what: String| Some(("histogram:sam:reaggregate-values".to_string(), what));
            if n1 != n2 {
                return strict(format!("re-aggregation changed the number of observations from {n1} to {n2}"));
            }
            let val = |r: &(f64, u64)| r.0 / r.1 as f64;
            // total/occurrences recovers a row's value only to one ulp, so ascending is judged to one ulp
            for w in reagg.windows(2) {
                if !(val(&w[0]) < val(&w[1]) || within_one_ulp(val(&w[0]), val(&w[1]))) {
                    return strict("re-aggregated values are not ascending".into());
                }
            }
            let (mut i, mut j) = (0usize, 0usize);
            let (mut li, mut lj) = (closed.first().map(|r| r.1).unwrap_or(0), reagg.first().map(|r| r.1).unwrap_or(0));
            while i < closed.len() && j < reagg.len() {
                let (a, b) = (val(&closed[i]), val(&reagg[j]));
                if !within_one_ulp(a, b) {
                    return strict(format!("re-aggregation moved an observation from {a} to {b}: more than one ulp"));
                }
                let take = li.min(lj);
                li -= take;
                lj -= take;
                if li == 0 {
                    i += 1;
                    li = closed.get(i).map(|r| r.1).unwrap_or(0);
                }
                if lj == 0 {
                    j += 1;
                    lj = reagg.get(j).map(|r| r.1).unwrap_or(0);
                }
            }
            if reagg.len() != closed.len() {
                return Some((
                    "histogram:sam:reaggregate-ulp-collapse".into(),
                    format!(
                        "re-aggregation changed the number of reported values from {} to {} (recorded values one ulp apart collapse: the closed histogram keeps v*n, not v)",
                        closed.len(),
                        reagg.len()
                    ),
                ));
            }
        }
        return None;
    }
    // exponential strategies: monotone unit-by-unit matching of recorded and reported observations
    let mut reported = closed.clone();
    reported.sort_by(|a, b| (a.0 / a.1 as f64).partial_cmp(&(b.0 / b.1 as f64)).unwrap());
    let mut j = 0usize;
    let mut left = reported.first().map(|r| r.1).unwrap_or(0);
    for (v, n) in &sorted {
        let mut need = *n;
        while need > 0 {
            while left == 0 {
                j += 1;
                if j >= reported.len() {
                    return Some((format!("histogram:{}:count", c.strategy), "reported occurrences run out".into()));
                }
                left = reported[j].1;
            }
            let r = reported[j].0 / reported[j].1 as f64;
            let err = (r - v).abs();
            // (the reported value is fl(fl(m*c)/c): up to one ulp of m <= 31/1024 away from the midpoint m)
            let ok = if *v >= 1.0 / 32.0 { err <= v / 16.0 } else { err < 1.0 / 1024.0 + 2e-17 };
            if !ok {
                return Some((
                    format!("histogram:{}:error-bound", c.strategy),
                    format!("recorded {v} is reported as {r}: error {err} exceeds {}", if *v >= 1.0 / 32.0 { "6.25%" } else { "1/1024" }),
                ));
            }
            let take = need.min(left);
            need -= take;
            left -= take;
        }
    }
    // atomic ≡ non-atomic
    let other = if c.strategy == "exp" { "atomic" } else { "exp" };
    match run_impl_with(c, other) {
        Ok(o2) => {
            if o2.closed != o.closed {
                return Some((
                    "histogram:atomic-differs".into(),
                    format!("{} reports {} but {} reports {}", c.strategy, o.closed, other, o2.closed),
                ));
            }
        }
        Err(p) => return Some(("histogram:panic".into(), format!("{other} variant panicked: {p}"))),
    }
    // re-aggregation
    let exact = closed.iter().all(|(t, k)| (t / *k as f64) * 1024.0 * (*k as f64) < 9007199254740992.0);
    if exact {
        if o.reagg != o.closed {
            return Some((
                format!("histogram:{}:reaggregate", c.strategy),
                format!("re-aggregation changed {} into {} although every midpoint*count is below 2^53", o.closed, o.reagg),
            ));
        }
    } else if o.reagg != o.closed {
        if let Some(rep) = rep {
            rep.bump("observed:reaggregation changed reported values where midpoint*count >= 2^53 (not judged, see notes/C11.md)");
            if rep.notes.len() < 3 {
                rep.notes.push(format!("re-aggregation beyond 2^53 changed {} into {} (case {})", o.closed, o.reagg, c.encode()));
            }
        }
    }
    None
}

fn oracle_fails(c: &HCase) -> Option<(String, String, String)> {
    match run_impl(c) {
        Ok(o) => oracle(c, &o, None).map(|(k, w)| (k, w, format!("{} | {}", o.closed, o.reagg))),
        Err(p) => Some(("histogram:panic".into(), format!("panicked: {p}"), format!("panic:{p}"))),
    }
}

// ------------------------------------------------------------------------------------------------
// the histogram crate's layout, observed through its public API

struct Layout {
    gp: u8,
    mvp: u8,
    ranges: Vec<(u64, u64)>,
}

impl Layout {
    fn new(gp: u8, mvp: u8) -> Layout {
        let h = histogram::Histogram::new(gp, mvp).expect("config");
        let ranges = h.iter().map(|b| (b.start(), b.end())).collect();
        Layout { gp, mvp, ranges }
    }
    fn index(&self, v: u64) -> String {
        let mut h = histogram::Histogram::new(self.gp, self.mvp).expect("config");
        match h.add(v, 1) {
            Ok(()) => h.as_slice().iter().position(|c| *c == 1).map(|i| i.to_string()).unwrap_or("lost".into()),
            Err(_) => "none".into(),
        }
    }
    fn answer(&self, i: usize) -> String {
        let (lo, hi) = self.ranges[i];
        let below = if lo == 0 { "-".into() } else { self.index(lo - 1) };
        let above = if hi == u64::MAX { "-".into() } else { self.index(hi + 1) };
        format!("{} {} {} {} {} {} {} {}", self.ranges.len(), lo, hi, lo.midpoint(hi), below, self.index(lo), self.index(hi), above)
    }
}

// ------------------------------------------------------------------------------------------------
// generators

fn ldexp(m: f64, e: i32) -> f64 {
    m * 2f64.powi(e)
}

/// a value of the property's domain
fn gen_value(rng: &mut Rng, layout: &Layout) -> f64 {
    match rng.below(10) {
        // log-uniform over the whole domain
        0..=2 => {
            let e = rng.range(0, 54) as i32 - 12;
            let m = 1.0 + (rng.below(1 << 52) as f64) / (1u64 << 52) as f64;
            ldexp(m, e).min(DOMAIN_LIMIT.next_down())
        }
        // the linear region below 1/32 and just above
        3 => (rng.below(1 << 20) as f64) / (1u64 << 24) as f64,
        // small integers
        4 => rng.below(2000) as f64,
        // an exact bucket boundary of the scaled value, or its float neighbours
        5..=7 => {
            let i = rng.below(layout.ranges.len() as u64) as usize;
            let (lo, hi) = layout.ranges[i];
            let n = *rng.pick(&[lo, hi, lo.saturating_sub(1), hi.saturating_add(1), lo.midpoint(hi)]);
            let v = (n as f64) / 1024.0;
            let v = match rng.below(4) {
                0 => v.next_down().max(0.0),
                1 => v.next_up(),
                _ => v,
            };
            if v < DOMAIN_LIMIT { v } else { (rng.below(1 << 43) as f64) + 0.5 }
        }
        // milliseconds with a few decimals
        8 => (rng.below(100_000_000) as f64) / 1000.0,
        _ => (rng.below(1 << 43)) as f64,
    }
}

fn nasty_value(rng: &mut Rng) -> f64 {
    *rng.pick(&[
        f64::NAN,
        f64::INFINITY,
        f64::NEG_INFINITY,
        -0.0,
        0.0,
        -1.5,
        f64::MIN_POSITIVE,
        5e-324,
        f64::MAX,
        f64::MIN,
        8796093022208.0,
        9007199254740992.0,
        18014398509481984.0,
        1.8014398509481982e16,
        1.8446744073709552e19,
        1.7e19,
        -f64::NAN,
        1.0 / 1024.0,
        (1.0f64 / 1024.0).next_down(),
        1.0 / 32.0,
        (1.0f64 / 32.0).next_down(),
    ])
}

fn gen_count(rng: &mut Rng, big: bool) -> u64 {
    match rng.below(if big { 8 } else { 4 }) {
        0 | 1 => 1,
        2 => rng.range(2, 9),
        3 => rng.range(10, 5000),
        4 => rng.range(1 << 20, 1 << 40),
        5 => rng.range(1 << 47, 1 << 56),
        6 => 3002399751580331 + rng.below(5),
        _ => rng.range(1 << 56, 1 << 60),
    }
}

fn gen_src(rng: &mut Rng, kind: &str, v: f64, big_counts: bool) -> Src {
    match kind {
        "u64" => Src::U(if v.is_finite() && v >= 0.0 { v as u64 } else { rng.next_u64() }),
        "u32" => Src::U(if v.is_finite() && v >= 0.0 { (v as u64) & 0xffff_ffff } else { rng.below(1 << 32) }),
        "f64" => Src::F(v),
        "f32" => Src::F((v as f32) as f64),
        "dur" | "dur_s" | "dur_us" => {
            // v is read as milliseconds
            let ms = if v.is_finite() && v >= 0.0 { v } else { rng.below(1 << 40) as f64 };
            let ns = (ms * 1e6).min(1.8e19) as u128;
            Src::D((ns / 1_000_000_000) as u64, (ns % 1_000_000_000) as u32)
        }
        _ => match rng.below(4) {
            0 => Src::U(if v.is_finite() && v >= 0.0 { v as u64 } else { rng.next_u64() }),
            1 => Src::F(v),
            _ => {
                let n = gen_count(rng, big_counts);
                if rng.chance(1, 20) { Src::R(v, 0) } else { Src::R(v * n as f64, n) }
            }
        },
    }
}

/// one single-observation source of kind `kind`, respecting the occurrence budget (`None`: budget used up)
fn gen_one(rng: &mut Rng, layout: &Layout, nasty: bool, pool: &[f64], kind: &str, sam: bool, budget: &mut u64) -> Option<Src> {
    let v = if nasty && rng.chance(1, 3) {
        nasty_value(rng)
    } else if rng.chance(1, 2) {
        *rng.pick(pool)
    } else {
        gen_value(rng, layout)
    };
    let big = !sam && (nasty || rng.chance(1, 4));
    let mut s = gen_src(rng, kind, v, big);
    // keep the total occurrence count below 2^64 (except in the nasty stream) and bounded for SortAndMerge
    if let Src::R(t, occ) = s {
        let cap = if sam { (*budget).min(rng.range(1, 50)) } else if nasty { u64::MAX } else { *budget / 2 };
        if occ > cap {
            let k = cap;
            s = Src::R(if k == 0 { t } else { t / occ as f64 * k as f64 }, k);
        }
    }
    let used = match s {
        Src::R(_, o) => o,
        _ => 1,
    };
    if sam && used > *budget {
        return None;
    }
    *budget = budget.saturating_sub(used);
    Some(s)
}

/// an empty repeat: zero occurrences, with an innocent or a nasty total
fn empty_repeat(rng: &mut Rng) -> Src {
    Src::R(*rng.pick(&[0.0, 0.0, 1.0, 1234.5, -1.0, f64::NAN, f64::INFINITY, f64::MAX, 5e-324]), 0)
}

/// one value writing several observations in ONE `metric()` call: mixes of Unsigned / Floating / Repeated
/// (incl. zero totals) with empty repeats first / in the middle / last / several / everywhere
fn gen_multi(rng: &mut Rng, layout: &Layout, nasty: bool, pool: &[f64], sam: bool, budget: &mut u64) -> Src {
    let m = match rng.below(8) {
        0 => 0,
        1 => 1,
        _ => rng.range(2, 6),
    };
    let mut obs = vec![];
    for _ in 0..m {
        if rng.chance(1, 12) && *budget >= 3 {
            // zero total with a positive count: n observations of 0
            let n = rng.range(1, 3);
            *budget = budget.saturating_sub(n);
            obs.push(Src::R(0.0, n));
            continue;
        }
        match gen_one(rng, layout, nasty, pool, "obs", sam, budget) {
            Some(s) => obs.push(s),
            None => break,
        }
    }
    let len = obs.len();
    match rng.below(9) {
        0 | 1 => {}
        2 => obs.insert(0, empty_repeat(rng)),
        3 => obs.push(empty_repeat(rng)),
        4 => obs.insert(len / 2, empty_repeat(rng)),
        5 => {
            obs.insert(0, empty_repeat(rng));
            obs.push(empty_repeat(rng));
        }
        6 => {
            for _ in 0..rng.range(2, 4) {
                let at = rng.below(obs.len() as u64 + 1) as usize;
                obs.insert(at, empty_repeat(rng));
            }
        }
        7 => {
            // at every position
            let mut all = vec![empty_repeat(rng)];
            for o in obs.drain(..) {
                all.push(o);
                all.push(empty_repeat(rng));
            }
            obs = all;
        }
        _ => {
            let at = rng.below(obs.len() as u64 + 1) as usize;
            obs.insert(at, empty_repeat(rng));
        }
    }
    Src::M(obs)
}

fn gen_hcase(rng: &mut Rng, layout: &Layout, nasty: bool) -> HCase {
    let strategy = (*rng.pick(&["exp", "exp", "atomic", "sam"])).to_string();
    let kind = if rng.chance(1, 3) { (*rng.pick(&MULTI_KINDS)).to_string() } else { (*rng.pick(&KINDS)).to_string() };
    let path = if strategy == "atomic" { 'a' } else { *rng.pick(&['m', 'a']) };
    let sam = strategy == "sam";
    let is_multi = MULTI_KINDS.contains(&kind.as_str());
    let n = match rng.below(10) {
        0 => 0,
        1 => 1,
        2..=7 => rng.range(2, 12),
        _ => if is_multi { rng.range(13, 24) } else { rng.range(13, 60) },
    } as usize;
    let pool: Vec<f64> = (0..rng.range(1, 6)).map(|_| gen_value(rng, layout)).collect();
    let mut srcs = vec![];
    let mut budget: u64 = if sam { if rng.chance(1, 50) { SAM_MAX_OCCURRENCES } else { 400 } } else { u64::MAX };
    for _ in 0..n {
        if is_multi {
            srcs.push(gen_multi(rng, layout, nasty, &pool, sam, &mut budget));
        } else {
            match gen_one(rng, layout, nasty, &pool, &kind, sam, &mut budget) {
                Some(s) => srcs.push(s),
                None => break,
            }
        }
    }
    HCase { kind, path, strategy, srcs }
}

/// boundary probes of bucket `i`: the four scaled integers around it, as f64 sources (with float
/// neighbours in the second variant), through the exponential strategies
fn boundary_cases(layout: &Layout, i: usize, rng: &mut Rng) -> Vec<HCase> {
    let (lo, hi) = layout.ranges[i];
    let ns = [lo.saturating_sub(1), lo, hi, hi.saturating_add(1)];
    let exact: Vec<Src> = ns.iter().map(|n| Src::F(*n as f64 / 1024.0)).collect();
    let mut around: Vec<Src> = vec![];
    for n in ns {
        let v = n as f64 / 1024.0;
        around.push(Src::F(v.next_down().max(0.0)));
        around.push(Src::F(v.next_up()));
    }
    let counted: Vec<Src> = ns
        .iter()
        .map(|n| {
            let k = rng.range(1, 1000);
            Src::R(*n as f64 / 1024.0 * k as f64, k)
        })
        .collect();
    let strategy = if i % 2 == 0 { "exp" } else { "atomic" };
    let path = if strategy == "exp" && i % 4 == 0 { 'm' } else { 'a' };
    // the four probes written by ONE value in one metric() call, an empty repeat at position i mod 5
    // (first … last), as Unsigned/Floating/Repeated mix; every third bucket through sort-and-merge
    let mut one_call: Vec<Src> = ns
        .iter()
        .enumerate()
        .map(|(k, n)| match (i + k) % 3 {
            0 => Src::F(*n as f64 / 1024.0),
            1 => Src::R(*n as f64 / 1024.0 * 3.0, 3),
            _ => Src::U(*n / 1024),
        })
        .collect();
    one_call.insert(i % 5, Src::R(if i % 2 == 0 { 0.0 } else { 7.5 }, 0));
    let (mstrategy, mpath) = match i % 3 {
        0 => ("sam", if i % 2 == 0 { 'm' } else { 'a' }),
        1 => ("exp", 'm'),
        _ => ("atomic", 'a'),
    };
    let mkind = ["multi", "dist", "multi_kb"][(i / 3) % 3];
    vec![
        HCase { kind: mkind.into(), path: mpath, strategy: mstrategy.into(), srcs: vec![Src::M(one_call)] },
        HCase { kind: "f64".into(), path, strategy: strategy.into(), srcs: exact },
        HCase { kind: "f64".into(), path, strategy: strategy.into(), srcs: around },
        HCase { kind: "obs".into(), path, strategy: strategy.into(), srcs: counted },
    ]
}

// ------------------------------------------------------------------------------------------------
// concurrent stage (T-trace)

struct TraceOut {
    request: String,
    recorded: u64,
    drained: u64,
    merged: Vec<(u64, u64)>,     // (total/occ bits, occurrences) summed over all drains
    sequential: Vec<(u64, u64)>, // the same records through the non-atomic strategy
    shared_closed: String,
    sequential_closed: String,
    drains: usize,
    /// stage (c): multi-observation values added by all threads into one SharedHistogram
    multi_request: String,
    multi_impl: String,
    multi_expected: u128,
    multi_got: u128,
}

fn run_trace(seed: u64, threads: usize, ops: usize, layout: &Layout) -> TraceOut {
    let mut rng = Rng::new(seed);
    let pool: Vec<f64> = (0..24)
        .map(|_| {
            let v = gen_value(&mut rng, layout);
            if v < 1e9 { v } else { (rng.below(1 << 30) as f64) / 16.0 }
        })
        .collect();
    let plans: Vec<Vec<(f64, u64)>> = (0..threads)
        .map(|t| {
            let mut r = rng.fork(t as u64);
            (0..ops).map(|_| (*r.pick(&pool), r.range(1, 3))).collect()
        })
        .collect();
    // (a) strategy level: record_many on all threads, one more thread draining all the time
    let strat = Arc::new(AtomicExponentialAggregationStrategy::new());
    let done = Arc::new(std::sync::atomic::AtomicBool::new(false));
    let mut handles = vec![];
    for plan in plans.clone() {
        let s = strat.clone();
        handles.push(std::thread::spawn(move || {
            for (i, (v, n)) in plan.iter().enumerate() {
                s.record_many(*v, *n);
                if i % 64 == 0 {
                    std::thread::yield_now();
                }
            }
        }));
    }
    let drainer = {
        let s = strat.clone();
        let d = done.clone();
        std::thread::spawn(move || {
            let mut out = vec![];
            while !d.load(std::sync::atomic::Ordering::SeqCst) {
                let obs = s.drain();
                if !obs.is_empty() {
                    out.push(obs);
                    if out.len() >= 400 {
                        break; // keeps the request line bounded; the final drain collects the rest
                    }
                }
                std::thread::yield_now();
            }
            out
        })
    };
    for h in handles {
        h.join().expect("recorder thread");
    }
    done.store(true, std::sync::atomic::Ordering::SeqCst);
    let mut drains = drainer.join().expect("drainer thread");
    drains.push(strat.drain());
    // (b) SharedHistogram::add_value on all threads, closed afterwards
    let shared: Arc<SharedHistogram<f64, AtomicExponentialAggregationStrategy>> = Arc::new(SharedHistogram::default());
    let mut handles = vec![];
    for plan in plans.clone() {
        let s = shared.clone();
        handles.push(std::thread::spawn(move || {
            for (v, n) in plan {
                for _ in 0..n {
                    s.add_value(v);
                }
            }
        }));
    }
    for h in handles {
        h.join().expect("add_value thread");
    }
    let shared = Arc::try_unwrap(shared).ok().expect("all clones dropped");
    let (so, sx) = observe(&shared.close());
    // sequential reference through the non-atomic strategy
    let mut seq = ExponentialAggregationStrategy::new();
    let mut hseq: Histogram<f64, ExponentialAggregationStrategy> = Histogram::default();
    let mut recorded = 0u64;
    let mut recs: std::collections::BTreeMap<u64, u64> = Default::default();
    for plan in &plans {
        for (v, n) in plan {
            seq.record_many(*v, *n);
            for _ in 0..*n {
                hseq.add_value(*v);
            }
            recorded += n;
            *recs.entry(v.to_bits()).or_insert(0) += n;
        }
    }
    let key = |o: &Observation| match o {
        Observation::Repeated { total, occurrences } => ((total / *occurrences as f64).to_bits(), *occurrences),
        _ => (u64::MAX, 0),
    };
    let mut merged: std::collections::BTreeMap<u64, u64> = Default::default();
    let mut drained = 0u64;
    for d in &drains {
        for o in d {
            let (k, n) = key(o);
            *merged.entry(k).or_insert(0) += n;
            drained += n;
        }
    }
    let sequential: Vec<(u64, u64)> = {
        let mut m: std::collections::BTreeMap<u64, u64> = Default::default();
        for o in seq.drain() {
            let (k, n) = key(&o);
            *m.entry(k).or_insert(0) += n;
        }
        m.into_iter().collect()
    };
    let (qo, qx) = observe(&hseq.close());
    // (c) SharedHistogram::add_value of values that write several observations in one metric() call
    // (empty repeats at every position) from all threads; closed afterwards
    let mut budget = 1u64 << 40; // per run; keeps the report's counters far from u64 overflow
    let mplans: Vec<Vec<Src>> = (0..threads)
        .map(|t| {
            let mut r = rng.fork(1000 + t as u64);
            (0..(ops / 16).max(8)).map(|_| gen_multi(&mut r, layout, false, &pool, false, &mut budget)).collect()
        })
        .collect();
    let mshared: Arc<SharedHistogram<Multi, AtomicExponentialAggregationStrategy>> = Arc::new(SharedHistogram::default());
    let mut handles = vec![];
    for plan in mplans.clone() {
        let s = mshared.clone();
        handles.push(std::thread::spawn(move || {
            for (i, v) in plan.iter().enumerate() {
                s.add_value(multi(v));
                if i % 16 == 0 {
                    std::thread::yield_now();
                }
            }
        }));
    }
    for h in handles {
        h.join().expect("multi add_value thread");
    }
    let mshared = Arc::try_unwrap(mshared).ok().expect("all clones dropped");
    let mout = finish(mshared.close(), 'a', "atomic");
    let multi_expected: u128 = mplans
        .iter()
        .flatten()
        .map(|v| match v {
            Src::M(obs) => obs.iter().map(|o| if let Src::R(_, n) = o { *n as u128 } else { 1 }).sum::<u128>(),
            _ => 0,
        })
        .sum();
    let multi_got: u128 = mout
        .closed_obs
        .iter()
        .map(|o| if let Observation::Repeated { occurrences, .. } = o { *occurrences as u128 } else { 0 })
        .sum();
    let multi_request = format!("hist atomic - {}", mplans.iter().flatten().map(|v| v.enc()).collect::<Vec<_>>().join(" "));
    let request = format!(
        "trace {} | {}",
        if recs.is_empty() { "-".into() } else { recs.iter().map(|(b, n)| format!("f{b:016x}*{n}")).collect::<Vec<_>>().join(",") },
        drains.iter().map(|d| show_obs(d, &[])).collect::<Vec<_>>().join(" / ")
    );
    TraceOut {
        request,
        recorded,
        drained,
        merged: merged.into_iter().collect(),
        sequential,
        shared_closed: show_obs(&so, &sx),
        sequential_closed: show_obs(&qo, &qx),
        drains: drains.len(),
        multi_request,
        multi_impl: format!("{} | {}", mout.closed, mout.reagg),
        multi_expected,
        multi_got,
    }
}

// ------------------------------------------------------------------------------------------------

enum Case {
    B(u8, u8, usize),
    H(HCase),
    T(u64, usize, usize),
}

impl Case {
    fn decode(s: &str) -> Option<Case> {
        let t: Vec<&str> = s.split_whitespace().collect();
        match *t.first()? {
            "B" if t.len() == 4 => Some(Case::B(t[1].parse().ok()?, t[2].parse().ok()?, t[3].parse().ok()?)),
            "H" => HCase::decode(s).map(Case::H),
            "T" if t.len() == 4 => Some(Case::T(t[1].parse().ok()?, t[2].parse().ok()?, t[3].parse().ok()?)),
            _ => None,
        }
    }
}

struct Pending {
    case: String,
    component: &'static str,
    impl_out: String,
    hcase: Option<HCase>,
}

fn process_shard(args: &Args, cases: Vec<Case>, layouts: &[Layout], shard: usize) -> Report {
    let mut rep = Report::new(args, "histogram", RULE);
    let mut requests: Vec<String> = vec![];
    let mut pending: Vec<Pending> = vec![];
    for (ci, case) in cases.iter().enumerate() {
        match case {
            Case::B(gp, mvp, i) => {
                let enc = format!("B {gp} {mvp} {i}");
                let Some(layout) = layouts.iter().find(|l| l.gp == *gp && l.mvp == *mvp) else {
                    rep.bump("skipped:unknown-layout");
                    continue;
                };
                if *i >= layout.ranges.len() {
                    rep.bump("skipped:bucket-out-of-range");
                    continue;
                }
                rep.case(&enc, true);
                rep.bump(&format!("bounds:({gp},{mvp})"));
                let ans = layout.answer(*i);
                // independent sanity of the crate's layout itself: contiguous, covering
                let (lo, hi) = layout.ranges[*i];
                let contiguous = if *i == 0 { lo == 0 } else { layout.ranges[*i - 1].1.wrapping_add(1) == lo };
                if !contiguous || lo > hi {
                    fail(&mut rep, "histogram:layout", &enc, &ans, "bucket ranges are not contiguous / ordered");
                }
                requests.push(format!("bounds {gp} {mvp} {i}"));
                pending.push(Pending { case: enc, component: "histogram/bucket-layout", impl_out: ans, hcase: None });
            }
            Case::H(c) => {
                let enc = c.encode();
                let orig = originals(c);
                rep.bump(&format!("strategy:{}", c.strategy));
                rep.bump(&format!("kind:{}", c.kind));
                rep.bump(&format!("path:{}", if c.path == 'm' { "merge-insert" } else { "add_value(closed)" }));
                rep.bump(match c.srcs.len() {
                    0 => "values:0",
                    1 => "values:1",
                    2..=12 => "values:2-12",
                    _ => "values:13+",
                });
                let multis: Vec<&Vec<Src>> = c.srcs.iter().filter_map(|s| if let Src::M(v) = s { Some(v) } else { None }).collect();
                if !multis.is_empty() {
                    let empty = |o: &Src| matches!(o, Src::R(_, 0));
                    rep.bump_by("multi: add_value calls writing several observations at once", multis.iter().filter(|v| v.len() >= 2).count() as u64);
                    rep.bump_by("multi: calls with an empty repeat first", multis.iter().filter(|v| v.len() >= 2 && empty(&v[0])).count() as u64);
                    rep.bump_by("multi: calls with an empty repeat last", multis.iter().filter(|v| v.len() >= 2 && empty(&v[v.len() - 1])).count() as u64);
                    rep.bump_by(
                        "multi: calls with an empty repeat in the middle",
                        multis.iter().filter(|v| v.len() >= 3 && v[1..v.len() - 1].iter().any(empty)).count() as u64,
                    );
                    rep.bump_by("multi: calls with several empty repeats", multis.iter().filter(|v| v.iter().filter(|o| empty(o)).count() >= 2).count() as u64);
                    rep.bump_by(
                        "multi: calls with a zero-total repeat (n > 0)",
                        multis.iter().filter(|v| v.iter().any(|o| matches!(o, Src::R(t, n) if *t == 0.0 && *n > 0))).count() as u64,
                    );
                    rep.bump_by(
                        "multi: calls with observations AFTER an empty repeat",
                        multis.iter().filter(|v| v.iter().position(empty).map(|p| v[p + 1..].iter().any(|o| !empty(o))).unwrap_or(false)).count() as u64,
                    );
                }
                rep.bump(if in_domain(&orig) { "domain:inside" } else { "domain:outside (NaN/inf/negative/>=2^43/count overflow)" });
                if orig.iter().any(|(_, n)| *n >= 1 << 47) {
                    rep.bump("counts:some >= 2^47");
                }
                if orig.iter().any(|(v, _)| *v < 1.0 / 32.0 && *v >= 0.0) {
                    rep.bump("values:some in the linear region (< 1/32)");
                }
                match run_impl(c) {
                    Ok(o) => {
                        let reported = o.closed_obs.len();
                        rep.case(&enc, reported >= 2);
                        rep.bump(match reported {
                            0 => "reported values:0",
                            1 => "reported values:1",
                            2..=5 => "reported values:2-5",
                            _ => "reported values:6+",
                        });
                        if (ci + shard) % 499 == 0 {
                            rep.sample(json!({"case": enc, "closed": o.closed, "reaggregated": o.reagg}));
                        }
                        if let Some((key, what)) = oracle(c, &o, Some(&mut rep)) {
                            let cc = shrink_case(c, &|cc: &HCase| oracle_fails(cc).map(|(k, _, _)| k == key).unwrap_or(false));
                            let (k, w, out) = oracle_fails(&cc).unwrap_or((key, what, format!("{} | {}", o.closed, o.reagg)));
                            fail(&mut rep, &k, &cc.encode(), &out, &w);
                        }
                        requests.push(c.request());
                        pending.push(Pending {
                            case: enc,
                            component: "histogram/record-close-reaggregate",
                            impl_out: format!("{} | {}", o.closed, o.reagg),
                            hcase: Some(c.clone()),
                        });
                    }
                    Err(p) => {
                        rep.case(&enc, false);
                        rep.bump("result:panic");
                        fail(&mut rep, "histogram:panic", &enc, &format!("panic:{p}"), "recording / closing panicked");
                    }
                }
            }
            Case::T(seed, threads, ops) => {
                let enc = format!("T {seed} {threads} {ops}");
                let Ok(t) = catch(|| run_trace(*seed, *threads, *ops, &layouts[0])) else {
                    fail(&mut rep, "histogram:concurrent:panic", &enc, "panic", "concurrent run panicked");
                    continue;
                };
                rep.case(&enc, t.drains >= 2);
                rep.bump("concurrent runs");
                rep.bump_by("concurrent: drains returned (incl. final)", t.drains as u64);
                rep.bump_by("concurrent: occurrences recorded", t.recorded);
                rep.traces_validated += 1;
                let summary = format!("recorded={} drained={} drains={}", t.recorded, t.drained, t.drains);
                if t.recorded != t.drained {
                    fail(&mut rep, "histogram:concurrent:count", &enc, &summary, "occurrences over all drains differ from the number recorded");
                } else if t.merged != t.sequential {
                    fail(&mut rep, "histogram:concurrent:values", &enc, &summary, "per reported value, drains do not add up to the sequential non-atomic result");
                } else if t.shared_closed != t.sequential_closed {
                    fail(&mut rep, 
                        "histogram:concurrent:shared",
                        &enc,
                        &t.shared_closed,
                        "SharedHistogram filled by 8 threads reports something else than Histogram filled sequentially",
                    );
                }
                rep.bump_by("concurrent: occurrences added through multi-observation values", t.multi_expected as u64);
                if t.multi_expected != t.multi_got {
                    fail(
                        &mut rep,
                        "histogram:concurrent:multi-count",
                        &enc,
                        &format!("expected={} reported={}", t.multi_expected, t.multi_got),
                        "SharedHistogram filled by 8 threads with multi-observation values (empty repeats at all positions) lost or invented observations",
                    );
                }
                requests.push(t.request);
                pending.push(Pending {
                    case: enc.clone(),
                    component: "histogram/concurrent-trace",
                    impl_out: format!("accept {}", t.recorded),
                    hcase: None,
                });
                requests.push(t.multi_request);
                pending.push(Pending { case: enc, component: "histogram/concurrent-add_value", impl_out: t.multi_impl, hcase: None });
            }
        }
    }
    match run_driver(&args.driver, "histogram", &requests) {
        Some(replies) => {
            rep.bump_by("model requests", requests.len() as u64);
            let mut searched = false;
            for (p, reply) in pending.iter().zip(replies.iter()) {
                if &p.impl_out != reply {
                    // the first disagreement of a batch is shrunk (model and implementation re-run per candidate)
                    let mut shrunk = None;
                    if let (Some(c), true) = (&p.hcase, rep.disagreements.is_empty()) {
                        let differs = |cc: &HCase| -> Option<(String, String)> {
                            let o = run_impl(cc).ok()?;
                            let i = format!("{} | {}", o.closed, o.reagg);
                            let m = run_driver(&args.driver, "histogram", &[cc.request()])?.pop()?;
                            if i != m { Some((i, m)) } else { None }
                        };
                        let cc = shrink_case(c, &|cc: &HCase| differs(cc).is_some());
                        if let Some((i, m)) = differs(&cc) {
                            shrunk = Some((cc.encode(), i, m));
                        }
                    }
                    match shrunk {
                        Some((case, i, m)) => rep.disagreement(p.component, &case, &i, &m),
                        None => rep.disagreement(p.component, &p.case, &p.impl_out, reply),
                    }
                    // targeted search around a disagreeing case, oracle only
                    if let (Some(c), false, true) = (&p.hcase, searched, rep.oracle_failures.is_empty()) {
                        searched = true;
                        let mut rng = Rng::new(args.seed ^ 0xC11);
                        let budget = 40_000;
                        for k in 0..budget {
                            let cc = neighbour(c, &mut rng, k);
                            rep.search_cases += 1;
                            if let Some((key, what, out)) = oracle_fails(&cc) {
                                let c2 = shrink_case(&cc, &|c2: &HCase| oracle_fails(c2).map(|(k2, _, _)| k2 == key).unwrap_or(false));
                                let (k2, w2, o2) = oracle_fails(&c2).unwrap_or((key, what, out));
                                fail(&mut rep, &k2, &c2.encode(), &o2, &w2);
                                rep.search_found = true;
                                break;
                            }
                        }
                    }
                }
            }
        }
        None => rep.driver_available = false,
    }
    rep
}

/// delta-debugging over the `add_value` calls, then inside every multi-observation value
fn shrink_case(c: &HCase, fails: &dyn Fn(&HCase) -> bool) -> HCase {
    let srcs = shrink_list(&c.srcs, |s| fails(&HCase { srcs: s.to_vec(), ..c.clone() }));
    let mut cur = HCase { srcs, ..c.clone() };
    for i in 0..cur.srcs.len() {
        if let Src::M(obs) = cur.srcs[i].clone() {
            let inner = shrink_list(&obs, |o| {
                let mut cc = cur.clone();
                cc.srcs[i] = Src::M(o.to_vec());
                fails(&cc)
            });
            cur.srcs[i] = Src::M(inner);
        }
    }
    cur
}

/// a case near `c`: same shape, values moved by a few ulps / to neighbouring buckets, counts perturbed
fn neighbour(c: &HCase, rng: &mut Rng, k: u64) -> HCase {
    let mut cc = c.clone();
    if cc.srcs.is_empty() {
        cc.srcs.push(Src::F(1.0));
    }
    let tweak = |v: f64, rng: &mut Rng| -> f64 {
        if !v.is_finite() {
            return rng.below(1 << 20) as f64 / 1024.0;
        }
        match rng.below(5) {
            0 => f64::from_bits(v.to_bits().wrapping_add(rng.below(4))),
            1 => f64::from_bits(v.to_bits().wrapping_sub(rng.below(4)).min(0x7fef_ffff_ffff_ffff)),
            2 => ((v * 1024.0).floor() + rng.below(3) as f64 - 1.0).max(0.0) / 1024.0,
            3 => (v * (1.0 + (rng.below(200) as f64 - 100.0) / 1000.0)).abs(),
            _ => rng.below(1 << 16) as f64 / 1024.0,
        }
    };
    let n = cc.srcs.len();
    for _ in 0..=(k % 3) {
        let i = rng.below(n as u64) as usize;
        cc.srcs[i] = match cc.srcs[i].clone() {
            Src::F(v) => {
                let w = tweak(v, rng);
                if cc.kind == "f32" { Src::F((w as f32) as f64) } else { Src::F(w) }
            }
            Src::U(u) => {
                let w = u.wrapping_add(rng.below(5)).wrapping_sub(2);
                Src::U(if cc.kind == "u32" { w & 0xffff_ffff } else { w })
            }
            Src::D(s, ns) => Src::D(s, (ns as u64 + rng.below(2_000_000)).min(999_999_999) as u32),
            Src::R(t, o) => {
                let o2 = if cc.strategy == "sam" { o.clamp(1, 50) } else { o.max(1) };
                let v = tweak(t / o.max(1) as f64, rng);
                Src::R(v * o2 as f64, o2)
            }
            Src::M(mut v) => {
                match rng.below(3) {
                    0 => {
                        let at = rng.below(v.len() as u64 + 1) as usize;
                        v.insert(at, Src::R(0.0, 0));
                    }
                    1 if !v.is_empty() => {
                        let at = rng.below(v.len() as u64) as usize;
                        v.remove(at);
                    }
                    _ => v.push(Src::F(rng.below(1 << 16) as f64 / 1024.0)),
                }
                Src::M(v)
            }
        };
    }
    cc
}

const RULE: &str = "case = one histogram life cycle (sources recorded, closed, re-aggregated, closed) | one bucket of the \
    crate layout | one concurrent run; non-trivial = the closed histogram reports at least two values (H), every bucket \
    probe (B), a concurrent run in which at least one drain overlapped recording (T); distinct by case text";

/// at most three witnesses per defect class, so that a frequent (possibly known) class cannot crowd
/// the others out of the report's bounded list
fn fail(rep: &mut Report, key: &str, case: &str, impl_out: &str, what: &str) {
    if rep.oracle_failures.iter().filter(|f| f.key == key).count() < 3 {
        rep.oracle_failure(key, case, impl_out, what);
    }
}

fn merge(rep: &mut Report, r: Report) {
    rep.evaluations += r.evaluations;
    rep.nontrivial.extend(r.nontrivial);
    for s in r.samples {
        rep.sample(s);
    }
    for (k, v) in r.distribution {
        rep.bump_by(&k, v);
    }
    for f in r.oracle_failures {
        fail(rep, &f.key, &f.case, &f.impl_out, &f.what);
    }
    for d in r.disagreements {
        rep.disagreement(&d.component, &d.case, &d.impl_out, &d.model_out);
    }
    rep.traces_validated += r.traces_validated;
    rep.driver_available &= r.driver_available;
    rep.search_cases += r.search_cases;
    rep.search_found |= r.search_found;
    for n in r.notes {
        if rep.notes.len() < 6 {
            rep.notes.push(n);
        }
    }
}

fn main() {
    if std::env::var("C11_LOUD").is_err() { quiet_panics(); }
    let args = Args::parse();
    let mut rng = Rng::new(args.seed);
    let thorough = args.thorough();

    // the generated constants, as the model sees them
    let cfg = run_driver(&args.driver, "histogram", &["config".to_string()]).and_then(|r| r.first().cloned());
    let nums: Vec<u8> = cfg.as_deref().unwrap_or("4 64 10 4 32").split(' ').filter_map(|x| x.parse().ok()).collect();
    let (gp, mvp, gp2, mvp2) = if nums.len() == 5 { (nums[0], nums[1], nums[3], nums[4]) } else { (4, 64, 4, 32) };
    let mk = |g: u8, m: u8| if histogram::Config::new(g, m).is_ok() { Layout::new(g, m) } else { Layout::new(4, 64) };
    let layouts = vec![mk(gp, mvp), mk(gp2, mvp2)];

    let mut cases: Vec<Case> = vec![];
    if let Some(line) = args.replay_case() {
        cases.extend(Case::decode(&line));
    } else {
        for l in args.corpus_cases() {
            cases.extend(Case::decode(&l));
        }
        // (1) every bucket of both layouts against the crate
        for l in &layouts {
            for i in 0..l.ranges.len() {
                cases.push(Case::B(l.gp, l.mvp, i));
            }
        }
        // (2) every bucket boundary through the real strategies
        for i in 0..layouts[0].ranges.len() {
            cases.extend(boundary_cases(&layouts[0], i, &mut rng).into_iter().map(Case::H));
        }
        // (3) random life cycles and (4) the nasty stream are generated inside the shards, see below
        // (5) concurrent runs
        let (n_conc, ops) = if thorough { (300, 4000) } else { (24, 2000) };
        for _ in 0..n_conc {
            cases.push(Case::T(rng.next_u64() >> 1, 8, ops));
        }
    }

    // shards (threads); each has its own PRNG stream and its own driver processes, and generates its
    // share of the random cases in batches (bounded memory)
    let replaying = args.replay_case().is_some();
    let (n_rand, n_nasty): (usize, usize) = if replaying {
        (0, 0)
    } else if thorough {
        (1_200_000, 300_000)
    } else {
        (48_000, 12_000)
    };
    let shards = if thorough { 12 } else { 4 };
    let mut buckets: Vec<Vec<Case>> = (0..shards).map(|_| vec![]).collect();
    // concurrent runs are kept in the first shard so that they do not compete with each other
    for (i, c) in cases.into_iter().enumerate() {
        match c {
            Case::T(..) => buckets[0].push(c),
            _ => buckets[i % shards].push(c),
        }
    }
    let layouts = Arc::new(layouts);
    let reports: Vec<Report> = std::thread::scope(|s| {
        let hs: Vec<_> = buckets
            .into_iter()
            .enumerate()
            .map(|(k, b)| {
                let a = args.clone();
                let l = layouts.clone();
                let mut r = rng.fork(k as u64);
                s.spawn(move || {
                    let mut rep = process_shard(&a, b, &l, k);
                    let mut todo: Vec<bool> = vec![];
                    todo.extend(std::iter::repeat_n(false, n_rand / shards));
                    todo.extend(std::iter::repeat_n(true, n_nasty / shards));
                    for chunk in todo.chunks(20_000) {
                        let batch: Vec<Case> = chunk.iter().map(|nasty| Case::H(gen_hcase(&mut r, &l[0], *nasty))).collect();
                        merge(&mut rep, process_shard(&a, batch, &l, k));
                    }
                    rep
                })
            })
            .collect();
        hs.into_iter().map(|h| h.join().expect("shard")).collect()
    });
    let mut rep = Report::new(&args, "histogram", RULE);
    for r in reports {
        merge(&mut rep, r);
    }
    if cfg.is_none() {
        rep.driver_available = false;
    }
    rep.notes.push(format!("generated constants seen by the model: {}", cfg.unwrap_or("driver unavailable".into())));
    rep.write(&args);
}
