//! Engine `global` (C17): routing of the global entry sinks declared by `global_entry_sink!`.
//!
//! T-step case line (identical to the Lean driver request):
//!   `init=<sink|-> <t>.<r|->:<op>[:<a>[:<b>]] ...`
//! `t` = calling thread 0..4 (0-2 plain worker threads, 3 and 4 own the current-thread tokio runtimes 0
//! and 1), `r` = runtime that is current on the thread during the op (`-` none; for thread 3+r the op runs
//! inside `block_on` of its own runtime, otherwise inside `handle.enter()`). `init` = a sink that was
//! attached and whose handle was forgotten before the script starts (a global can never be detached after
//! `forget`, so such globals stay in that state for the rest of the process and are reused for these cases).
//! Ops: attach:s dropAttach[U|T] forgetAttach setTL:s dropTL[U] setRT:r:s setRTCur:s dropRT[U|T]:r append:e tryAppend:e
//!      sink:e trySink:e isAttached hold:k useHeld:k:e
//! Suffix `U` = the guard/handle is dropped by the unwinder: a scope inside `catch_unwind` on the op's thread owns it
//! and panics; `T` = a freshly spawned thread owns it, panics and is joined. Same expected effect as a plain drop
//! (the Lean model has one event for all three).
//! Observable per op: `ok noop panic d<sink> ret<entry> none T F`, where `d<sink>` is derived from what the
//! id-tagged recording sinks received during the op (exactly one record, of that entry, intact).
//!
//! T-trace case line: `race <n per thread> <threads> <detach after this many appends completed> <queue capacity, 0 = attach_to_stream default> [U|T]`
//! (`U`/`T`: the handle is dropped by a contained unwinding panic, in a scope / on a spawned thread); the observed history is sent to the
//! driver as `race closed=.. trace=.. written=..` and judged by `Global.raceAccept`.
//!
//! Gated race case line: `gate <third thread 0|1> <wait ms> [U|T]`: one accepted append is held in flight inside the
//! attached sink (a gate in the harness' sink) while another thread drops the attach handle; the detach must
//! not return before the append completed; judged by the same Lean predicate and an accounting oracle.
//!
//! Install-during-slow-drop case line: `adrace <a|r|t> <wait ms> <3|4> | init=- <ops>` (see `AdCase`): an attach
//! while another thread's detach is parked inside the drop of the old (sink, join handle) pair, and the
//! mirrors for runtime / thread-local test sinks; judged by "some sequential order of the overlapping ops explains
//! every result" and by the Lean micro-step model (`take` .. `dropPair`).
//!
//! Contention case line: `hammer <threads> <iterations> <attached 0|1> <seed>` (see `HammerCase`): readers inside
//! runtime contexts hammer the global while the coordinator installs / probes / drops runtime test-sink guards;
//! after every guard drop the next destination must take over and a re-install must succeed.
//!
//! Oracle (independent of Lean, written from the property statement): a tracker of what is installed
//! where (attached sink, live handle, per-thread and per-runtime test sinks, held sink clones) predicts for
//! every op the single destination by the stated precedence (thread-local, else current runtime's, else
//! attached, else handed back / panic), which ops must panic (attach while attached, second test sink of
//! the same kind, `set_test_sink_on_current_tokio_runtime` outside a runtime, `append`/`sink()` with no
//! destination) and that nothing else does; records must appear exactly once, only during the op that
//! carries the entry, with id and payload intact; every case must end detached after its guards and handle
//! are dropped.

use metrique_writer::sink::{AttachGlobalEntrySinkExt, BackgroundQueueBuilder};
use metrique_writer::test_util::to_test_entry;
use metrique_writer_core::global::{
    AttachGlobalEntrySink, AttachHandle, ThreadLocalTestSinkGuard, TokioRuntimeTestSinkGuard,
};
use metrique_writer_core::sink::FlushWait;
use metrique_writer_core::{
    AnyEntrySink, BoxEntry, BoxEntrySink, Entry, EntryIoStream, EntrySink, EntryWriter, GlobalEntrySink, IoStreamError,
};
use std::collections::HashMap;
use std::sync::atomic::{AtomicBool, AtomicU64, Ordering};
use std::sync::mpsc::{Receiver, Sender, channel};
use std::sync::{Arc, Mutex};
use tokio::runtime::Handle;
use verif_harness::*;

// ------------------------------------------------------------------------------------------------
// entries and recording sinks

#[derive(Clone, Debug, PartialEq)]
struct Tagged {
    id: u64,
    payload: String,
}

fn payload_of(id: u64) -> String {
    format!("p{}-{}", id, id.wrapping_mul(0x9E37_79B9_7F4A_7C15) >> 40)
}

fn tagged(id: u64) -> Tagged {
    Tagged { id, payload: payload_of(id) }
}

impl Entry for Tagged {
    fn write<'a>(&'a self, w: &mut impl EntryWriter<'a>) {
        w.value("id", &self.id);
        w.value("payload", self.payload.as_str());
    }
}

/// (entry id, payload intact) as seen by a sink / stream through the real `Entry::write`
fn decode(e: &impl Entry) -> (u64, bool) {
    let te = to_test_entry(e);
    let id = te.metrics.get("id").map(|m| m.as_u64()).unwrap_or(u64::MAX);
    let intact = te.values.get("payload").map(|p| *p == payload_of(id)).unwrap_or(false)
        && te.metrics.len() == 1
        && te.values.len() == 1;
    (id, intact)
}

#[derive(Clone, Copy, Debug, PartialEq)]
struct Rec {
    sink: u64,
    entry: u64,
    intact: bool,
}

type Log = Arc<Mutex<Vec<Rec>>>;

/// id-tagged inspector sink; the label is a cell so that a sink stuck in a global after `forget()` can be
/// given the id the next case knows it by
#[derive(Clone)]
struct RecSink {
    label: Arc<AtomicU64>,
    log: Log,
    /// when present, `append` announces itself and waits until the gate is opened (an append held in flight)
    gate: Option<Arc<Gate>>,
}

#[derive(Default)]
struct Gate {
    /// event counter of the case (orders "flush complete" against the completion of other threads' operations)
    seq: AtomicU64,
    /// sequence number at which the gated drop (the flush of the detached sink) completed; 0 = not yet
    flushed: AtomicU64,
    entered: AtomicU64,
    open: Mutex<bool>,
    cv: std::sync::Condvar,
}

impl Gate {
    fn pass(&self) {
        self.entered.fetch_add(1, Ordering::AcqRel);
        let mut g = self.open.lock().unwrap();
        while !*g {
            g = self.cv.wait(g).unwrap();
        }
    }
    fn open(&self) {
        *self.open.lock().unwrap() = true;
        self.cv.notify_all();
    }
}

impl EntrySink<BoxEntry> for RecSink {
    fn append(&self, entry: BoxEntry) {
        if let Some(g) = &self.gate {
            g.pass();
        }
        let (id, intact) = decode(&entry);
        self.log.lock().unwrap().push(Rec { sink: self.label.load(Ordering::SeqCst), entry: id, intact });
    }
    fn flush_async(&self) -> FlushWait {
        FlushWait::ready()
    }
}

/// a join handle (the second component of what is attached) whose drop is slow: it announces itself and
/// waits until the harness opens the gate
struct GatedDrop(Arc<Gate>);

impl Drop for GatedDrop {
    fn drop(&mut self) {
        self.0.pass();
        // the flush-complete event of the detached sink
        self.0.flushed.store(self.0.seq.fetch_add(1, Ordering::SeqCst) + 1, Ordering::SeqCst);
    }
}

/// a test sink whose drop is slow in the same way (dropped by the guard that removes it from its slot)
struct GatedDropSink {
    inner: RecSink,
    gate: Arc<Gate>,
}

impl EntrySink<BoxEntry> for GatedDropSink {
    fn append(&self, entry: BoxEntry) {
        self.inner.append(entry)
    }
    fn flush_async(&self) -> FlushWait {
        FlushWait::ready()
    }
}

impl Drop for GatedDropSink {
    fn drop(&mut self) {
        self.gate.pass();
    }
}

// ------------------------------------------------------------------------------------------------
// the globals: declared with the real macro; a table of fn pointers gives dynamic access

struct Vt {
    name: &'static str,
    attach: fn(RecSink) -> AttachHandle,
    attach_stream: fn(RecStream) -> AttachHandle,
    attach_queue: fn(RecStream, usize) -> AttachHandle,
    attach_gated: fn(RecSink, GatedDrop) -> AttachHandle,
    append: fn(Tagged),
    try_append: fn(Tagged) -> Result<(), Tagged>,
    sink: fn() -> BoxEntrySink,
    try_sink: fn() -> Option<BoxEntrySink>,
    is_attached: fn() -> bool,
    set_tl: fn(BoxEntrySink) -> ThreadLocalTestSinkGuard,
    set_rt: fn(&Handle, BoxEntrySink) -> TokioRuntimeTestSinkGuard,
    set_rt_cur: fn(BoxEntrySink) -> TokioRuntimeTestSinkGuard,
}

macro_rules! globals {
    ($($n:ident)*) => {
        $( metrique_writer_core::global_entry_sink! { $n } )*
        static GLOBALS: &[Vt] = &[ $( Vt {
            name: stringify!($n),
            attach: |s| $n::attach((s, ())),
            attach_stream: |s| $n::attach_to_stream(s),
            attach_queue: |s, cap| $n::attach(BackgroundQueueBuilder::new().capacity(cap).build::<BoxEntry>(s)),
            attach_gated: |s, h| $n::attach((s, h)),
            append: |e| $n::append(e),
            try_append: |e| $n::try_append(e),
            sink: || $n::sink(),
            try_sink: || $n::try_sink(),
            is_attached: || $n::is_attached(),
            set_tl: |s| $n::set_test_sink(s),
            set_rt: |h, s| $n::set_test_sink_for_tokio_runtime(h, s),
            set_rt_cur: |s| $n::set_test_sink_on_current_tokio_runtime(s),
        } ),* ];
    };
}

globals! {
    G000 G001 G002 G003 G004 G005 G006 G007 G008 G009 G010 G011 G012 G013 G014 G015
    G016 G017 G018 G019 G020 G021 G022 G023 G024 G025 G026 G027 G028 G029 G030 G031
    G032 G033 G034 G035 G036 G037 G038 G039 G040 G041 G042 G043 G044 G045 G046 G047
    G048 G049 G050 G051 G052 G053 G054 G055 G056 G057 G058 G059 G060 G061 G062 G063
    G064 G065 G066 G067 G068 G069 G070 G071 G072 G073 G074 G075 G076 G077 G078 G079
    G080 G081 G082 G083 G084 G085 G086 G087 G088 G089 G090 G091 G092 G093 G094 G095
    G096 G097 G098 G099 G100 G101 G102 G103 G104 G105 G106 G107 G108 G109 G110 G111
    G112 G113 G114 G115 G116 G117 G118 G119 G120 G121 G122 G123 G124 G125 G126 G127
    G128 G129 G130 G131 G132 G133 G134 G135 G136 G137 G138 G139 G140 G141 G142 G143
    G144 G145 G146 G147 G148 G149 G150 G151 G152 G153 G154 G155 G156 G157 G158 G159
    G160 G161 G162 G163 G164 G165 G166 G167 G168 G169 G170 G171 G172 G173 G174 G175
    G176 G177 G178 G179 G180 G181 G182 G183 G184 G185 G186 G187 G188 G189 G190 G191
    G192 G193 G194 G195 G196 G197 G198 G199 G200 G201 G202 G203 G204 G205 G206 G207
    G208 G209 G210 G211 G212 G213 G214 G215 G216 G217 G218 G219 G220 G221 G222 G223
    G224 G225 G226 G227 G228 G229 G230 G231 G232 G233 G234 G235 G236 G237 G238 G239
    G240 G241 G242 G243 G244 G245 G246 G247 G248 G249 G250 G251 G252 G253 G254 G255
}

const POOL_PER_SHARD: usize = 32;
const MAX_SHARDS: usize = 8;
const THREADS: usize = 5;
const RUNTIMES: usize = 2;

// ------------------------------------------------------------------------------------------------
// script

/// How a guard / handle is dropped. The property (and the Lean model: one event) does not distinguish them:
/// a drop performed by the unwinder is still a drop.
#[derive(Clone, Copy, Debug, PartialEq)]
enum How {
    /// plain `drop(x)`
    Normal,
    /// on the op's thread: a scope inside `catch_unwind` owns the object and panics (suffix `U`)
    Unwind,
    /// a freshly spawned thread (entering the op's runtime, if any) owns the object, panics, is joined (suffix `T`)
    Thread,
}

impl How {
    fn suffix(self) -> &'static str {
        match self {
            How::Normal => "",
            How::Unwind => "U",
            How::Thread => "T",
        }
    }
}

#[derive(Clone, Debug, PartialEq)]
enum Op {
    Attach(u64),
    DropAttach(How),
    ForgetAttach,
    SetTL(u64),
    /// `How::Thread` does not exist for this one: `ThreadLocalTestSinkGuard` is `!Send`
    DropTL(How),
    SetRT(usize, u64),
    SetRTCur(u64),
    DropRT(usize, How),
    Append(u64),
    TryAppend(u64),
    Sink(u64),
    TrySink(u64),
    IsAttached,
    Hold(u64),
    UseHeld(u64, u64),
}

#[derive(Clone, Debug, PartialEq)]
struct Item {
    t: usize,
    r: Option<usize>,
    op: Op,
}

impl Item {
    fn encode(&self) -> String {
        let r = self.r.map(|r| r.to_string()).unwrap_or("-".into());
        let op = match &self.op {
            Op::Attach(s) => format!("attach:{s}"),
            Op::DropAttach(h) => format!("dropAttach{}", h.suffix()),
            Op::ForgetAttach => "forgetAttach".into(),
            Op::SetTL(s) => format!("setTL:{s}"),
            Op::DropTL(h) => format!("dropTL{}", h.suffix()),
            Op::SetRT(r, s) => format!("setRT:{r}:{s}"),
            Op::SetRTCur(s) => format!("setRTCur:{s}"),
            Op::DropRT(r, h) => format!("dropRT{}:{r}", h.suffix()),
            Op::Append(e) => format!("append:{e}"),
            Op::TryAppend(e) => format!("tryAppend:{e}"),
            Op::Sink(e) => format!("sink:{e}"),
            Op::TrySink(e) => format!("trySink:{e}"),
            Op::IsAttached => "isAttached".into(),
            Op::Hold(k) => format!("hold:{k}"),
            Op::UseHeld(k, e) => format!("useHeld:{k}:{e}"),
        };
        format!("{}.{}:{}", self.t, r, op)
    }
    fn decode(s: &str) -> Option<Item> {
        let mut p = s.split(':');
        let ctx = p.next()?;
        let (t, r) = ctx.split_once('.')?;
        let t: usize = t.parse().ok()?;
        let r: Option<usize> = if r == "-" { None } else { Some(r.parse().ok()?) };
        if t >= THREADS || r.map(|r| r >= RUNTIMES).unwrap_or(false) {
            return None;
        }
        let name = p.next()?;
        let a: Option<u64> = p.next().and_then(|x| x.parse().ok());
        let b: Option<u64> = p.next().and_then(|x| x.parse().ok());
        let op = match name {
            "attach" => Op::Attach(a?),
            "dropAttach" => Op::DropAttach(How::Normal),
            "dropAttachU" => Op::DropAttach(How::Unwind),
            "dropAttachT" => Op::DropAttach(How::Thread),
            "forgetAttach" => Op::ForgetAttach,
            "setTL" => Op::SetTL(a?),
            "dropTL" => Op::DropTL(How::Normal),
            "dropTLU" => Op::DropTL(How::Unwind),
            "setRT" => {
                if a? as usize >= RUNTIMES {
                    return None;
                }
                Op::SetRT(a? as usize, b?)
            }
            "setRTCur" => Op::SetRTCur(a?),
            "dropRT" | "dropRTU" | "dropRTT" => {
                if a? as usize >= RUNTIMES {
                    return None;
                }
                Op::DropRT(a? as usize, match name {
                    "dropRT" => How::Normal,
                    "dropRTU" => How::Unwind,
                    _ => How::Thread,
                })
            }
            "append" => Op::Append(a?),
            "tryAppend" => Op::TryAppend(a?),
            "sink" => Op::Sink(a?),
            "trySink" => Op::TrySink(a?),
            "isAttached" => Op::IsAttached,
            "hold" => Op::Hold(a?),
            "useHeld" => Op::UseHeld(a?, b?),
            _ => return None,
        };
        Some(Item { t, r, op })
    }
    fn name(&self) -> &'static str {
        match self.op {
            Op::Attach(_) => "attach",
            Op::DropAttach(How::Normal) => "dropAttach",
            Op::DropAttach(How::Unwind) => "dropAttachU",
            Op::DropAttach(How::Thread) => "dropAttachT",
            Op::ForgetAttach => "forgetAttach",
            Op::SetTL(_) => "setTL",
            Op::DropTL(How::Normal) => "dropTL",
            Op::DropTL(_) => "dropTLU",
            Op::SetRT(..) => "setRT",
            Op::SetRTCur(_) => "setRTCur",
            Op::DropRT(_, How::Normal) => "dropRT",
            Op::DropRT(_, How::Unwind) => "dropRTU",
            Op::DropRT(_, How::Thread) => "dropRTT",
            Op::Append(_) => "append",
            Op::TryAppend(_) => "tryAppend",
            Op::Sink(_) => "sink",
            Op::TrySink(_) => "trySink",
            Op::IsAttached => "isAttached",
            Op::Hold(_) => "hold",
            Op::UseHeld(..) => "useHeld",
        }
    }
    fn entry(&self) -> Option<u64> {
        match self.op {
            Op::Append(e) | Op::TryAppend(e) | Op::Sink(e) | Op::TrySink(e) | Op::UseHeld(_, e) => Some(e),
            _ => None,
        }
    }
}

#[derive(Clone, Debug)]
struct Case {
    init: Option<u64>,
    ops: Vec<Item>,
}

impl Case {
    fn encode(&self) -> String {
        let mut s = format!("init={}", self.init.map(|i| i.to_string()).unwrap_or("-".into()));
        for o in &self.ops {
            s.push(' ');
            s.push_str(&o.encode());
        }
        s
    }
    fn decode(s: &str) -> Option<Case> {
        let mut it = s.split_whitespace();
        let init = it.next()?.strip_prefix("init=")?;
        let init = if init == "-" { None } else { Some(init.parse().ok()?) };
        let ops: Option<Vec<Item>> = it.map(Item::decode).collect();
        Some(Case { init, ops: ops? })
    }
    fn has_forget(&self) -> bool {
        self.ops.iter().any(|o| o.op == Op::ForgetAttach)
    }
}

// ------------------------------------------------------------------------------------------------
// the crew: 3 plain worker threads + 2 threads owning a current-thread tokio runtime each

#[derive(Clone, Copy)]
enum Mode {
    Plain,
    Enter(usize),
    BlockOn,
}

struct Local {
    /// thread-local test sink guards of this thread (they are !Send), by global index
    tl_guards: HashMap<usize, ThreadLocalTestSinkGuard>,
}

type Job = Box<dyn FnOnce(&mut Local) -> String + Send>;

struct Crew {
    txs: Vec<Sender<(Mode, Job, Sender<String>)>>,
    handles: Vec<Handle>,
}

impl Crew {
    fn new() -> Crew {
        let mut rts = vec![];
        let mut handles = vec![];
        for _ in 0..RUNTIMES {
            let rt = tokio::runtime::Builder::new_current_thread().enable_all().build().expect("runtime");
            handles.push(rt.handle().clone());
            rts.push(Some(rt));
        }
        let mut txs = vec![];
        for t in 0..THREADS {
            let (tx, rx): (Sender<(Mode, Job, Sender<String>)>, Receiver<_>) = channel();
            let rt = if t >= THREADS - RUNTIMES { rts[t - (THREADS - RUNTIMES)].take() } else { None };
            let hs = handles.clone();
            std::thread::Builder::new()
                .name(format!("crew-{t}"))
                .spawn(move || {
                    let mut local = Local { tl_guards: HashMap::new() };
                    for (mode, job, reply) in rx {
                        let out = match mode {
                            Mode::Plain => job(&mut local),
                            Mode::Enter(k) => {
                                let _g = hs[k].enter();
                                job(&mut local)
                            }
                            Mode::BlockOn => {
                                let rt = rt.as_ref().expect("BlockOn on a runtime thread");
                                rt.block_on(async { job(&mut local) })
                            }
                        };
                        let _ = reply.send(out);
                    }
                })
                .expect("spawn");
            txs.push(tx);
        }
        Crew { txs, handles }
    }
    fn mode_for(t: usize, r: Option<usize>) -> Mode {
        match r {
            None => Mode::Plain,
            Some(k) if t == THREADS - RUNTIMES + k => Mode::BlockOn,
            Some(k) => Mode::Enter(k),
        }
    }
    fn submit(&self, t: usize, mode: Mode, job: Job) -> Receiver<String> {
        let (tx, rx) = channel();
        self.txs[t].send((mode, job, tx)).expect("crew thread alive");
        rx
    }
    fn exec(&self, t: usize, mode: Mode, job: Job) -> String {
        self.submit(t, mode, job).recv().expect("crew reply")
    }
}

// ------------------------------------------------------------------------------------------------
// running one script against one real global

#[derive(Default)]
struct Shared {
    handle: Option<(AttachHandle, Arc<AtomicU64>)>,
    rt_guards: [Option<TokioRuntimeTestSinkGuard>; RUNTIMES],
    held: HashMap<u64, BoxEntrySink>,
    forgot: Option<Arc<AtomicU64>>,
}

/// payload of the harness' own, contained panics
struct ContainedPanic;

fn panic_text(e: Box<dyn std::any::Any + Send>) -> String {
    if let Some(s) = e.downcast_ref::<&str>() {
        s.to_string()
    } else if let Some(s) = e.downcast_ref::<String>() {
        s.clone()
    } else {
        "panic".to_string()
    }
}

/// `obj` is owned by a scope that panics; the unwinder drops it; the panic is contained by `catch_unwind`.
/// (If the drop itself panics while unwinding the process aborts: that cannot be contained by anyone.)
fn drop_unwinding<T>(obj: T) -> Result<(), String> {
    match std::panic::catch_unwind(std::panic::AssertUnwindSafe(move || {
        let _owned = obj;
        std::panic::panic_any(ContainedPanic);
    })) {
        Ok(()) => Err("the owning scope did not panic".into()),
        Err(e) if e.is::<ContainedPanic>() => Ok(()),
        Err(e) => Err(panic_text(e)),
    }
}

/// `obj` is moved to a freshly spawned thread (which enters the runtime current here, if any) that owns
/// it, panics, and is joined.
fn drop_on_panicking_thread<T: Send + 'static>(obj: T) -> Result<(), String> {
    let enter = Handle::try_current().ok();
    let joined = std::thread::Builder::new()
        .name("panicking-owner".into())
        .spawn(move || {
            let _ctx = enter.as_ref().map(|h| h.enter());
            let _owned = obj; // dropped first (reverse declaration order), i.e. inside the runtime context
            std::panic::panic_any(ContainedPanic);
        })
        .expect("spawn")
        .join();
    match joined {
        Ok(()) => Err("the owning thread did not panic".into()),
        Err(e) if e.is::<ContainedPanic>() => Ok(()),
        Err(e) => Err(panic_text(e)),
    }
}

fn drop_send<T: Send + 'static>(obj: T, how: How) -> Result<(), String> {
    match how {
        How::Normal => catch(|| drop(obj)),
        How::Unwind => drop_unwinding(obj),
        How::Thread => drop_on_panicking_thread(obj),
    }
}

/// raw outcome of the implementation call(s) of one op
fn exec_op(g: usize, op: &Op, local: &mut Local, shared: &Arc<Mutex<Shared>>, log: &Log, handles: &[Handle]) -> String {
    let vt = &GLOBALS[g];
    let mk = |s: u64| RecSink { label: Arc::new(AtomicU64::new(s)), log: log.clone(), gate: None };
    let done = |r: Result<(), String>| match r {
        Ok(()) => "done".to_string(),
        Err(p) => format!("panic:{p}"),
    };
    match op {
        Op::Attach(s) => {
            let sink = mk(*s);
            let label = sink.label.clone();
            match catch(|| (vt.attach)(sink)) {
                Ok(h) => {
                    let prev = shared.lock().unwrap().handle.replace((h, label));
                    match prev {
                        // cannot happen unless attach succeeded while attached; keep the older handle alive
                        // (forgetting it would detach nothing) and say so
                        Some((old, _)) => {
                            old.forget();
                            "done:second-handle".into()
                        }
                        None => "done".into(),
                    }
                }
                Err(p) => format!("panic:{p}"),
            }
        }
        Op::DropAttach(how) => {
            let h = shared.lock().unwrap().handle.take();
            match h {
                Some((h, _)) => done(drop_send(h, *how)),
                None => "noop".into(),
            }
        }
        Op::ForgetAttach => {
            let h = shared.lock().unwrap().handle.take();
            match h {
                Some((h, label)) => {
                    let r = done(catch(|| h.forget()));
                    shared.lock().unwrap().forgot = Some(label);
                    r
                }
                None => "noop".into(),
            }
        }
        Op::SetTL(s) => {
            let sink = BoxEntrySink::new(mk(*s));
            match catch(|| (vt.set_tl)(sink)) {
                Ok(guard) => {
                    if let Some(old) = local.tl_guards.insert(g, guard) {
                        std::mem::forget(old);
                        return "done:second-guard".into();
                    }
                    "done".into()
                }
                Err(p) => format!("panic:{p}"),
            }
        }
        Op::DropTL(how) => match local.tl_guards.remove(&g) {
            Some(guard) => done(match how {
                How::Normal => catch(|| drop(guard)),
                _ => drop_unwinding(guard),
            }),
            None => "noop".into(),
        },
        Op::SetRT(r, s) => {
            let sink = BoxEntrySink::new(mk(*s));
            match catch(|| (vt.set_rt)(&handles[*r], sink)) {
                Ok(guard) => {
                    if let Some(old) = shared.lock().unwrap().rt_guards[*r].replace(guard) {
                        std::mem::forget(old);
                        return "done:second-guard".into();
                    }
                    "done".into()
                }
                Err(p) => format!("panic:{p}"),
            }
        }
        Op::SetRTCur(s) => {
            let sink = BoxEntrySink::new(mk(*s));
            // which runtime the guard belongs to is known from the context the op runs in
            let cur = Handle::try_current().ok().map(|h| h.id());
            match catch(|| (vt.set_rt_cur)(sink)) {
                Ok(guard) => {
                    let r = handles.iter().position(|h| Some(h.id()) == cur);
                    match r {
                        Some(r) => {
                            if let Some(old) = shared.lock().unwrap().rt_guards[r].replace(guard) {
                                std::mem::forget(old);
                                return "done:second-guard".into();
                            }
                            "done".into()
                        }
                        None => {
                            drop(guard);
                            "done:no-current-runtime".into()
                        }
                    }
                }
                Err(p) => format!("panic:{p}"),
            }
        }
        Op::DropRT(r, how) => {
            let guard = shared.lock().unwrap().rt_guards[*r].take();
            match guard {
                Some(guard) => done(drop_send(guard, *how)),
                None => "noop".into(),
            }
        }
        Op::Append(e) => done(catch(|| (vt.append)(tagged(*e)))),
        Op::TryAppend(e) => match catch(|| (vt.try_append)(tagged(*e))) {
            Ok(Ok(())) => "done".into(),
            Ok(Err(back)) => {
                if back == tagged(*e) {
                    format!("returned:{}", back.id)
                } else {
                    format!("returned-changed:{}:{}", back.id, back.payload)
                }
            }
            Err(p) => format!("panic:{p}"),
        },
        Op::Sink(e) => done(catch(|| (vt.sink)().append_any(tagged(*e)))),
        Op::TrySink(e) => match catch(|| (vt.try_sink)().map(|s| s.append_any(tagged(*e)))) {
            Ok(Some(())) => "done".into(),
            Ok(None) => "none".into(),
            Err(p) => format!("panic:{p}"),
        },
        Op::IsAttached => match catch(|| (vt.is_attached)()) {
            Ok(true) => "T".into(),
            Ok(false) => "F".into(),
            Err(p) => format!("panic:{p}"),
        },
        Op::Hold(k) => match catch(|| (vt.sink)()) {
            Ok(s) => {
                // the model's observable is which sink the clone leads to; the clone itself does not say, so
                // the harness marks it with a probe entry (id = 900000 + k) that the canonicaliser strips
                s.append_any(tagged(900_000 + *k));
                shared.lock().unwrap().held.insert(*k, s);
                "done".into()
            }
            Err(p) => format!("panic:{p}"),
        },
        Op::UseHeld(k, e) => {
            let s = shared.lock().unwrap().held.get(k).cloned();
            match s {
                Some(s) => done(catch(|| s.append_any(tagged(*e)))),
                None => "noop".into(),
            }
        }
    }
}

/// canonical observable of one op: raw outcome + what the recording sinks received during it
fn canonical(item: &Item, raw: &str, delta: &[Rec]) -> (String, Option<String>) {
    let carried = match item.op {
        Op::Hold(k) => Some(900_000 + k),
        _ => item.entry(),
    };
    let mut problem = None;
    let res = if raw == "done" {
        match carried {
            Some(e) => {
                if delta.len() == 1 && delta[0].entry == e && delta[0].intact {
                    format!("d{}", delta[0].sink)
                } else {
                    problem = Some(format!(
                        "op returned normally but the sinks received {} record(s) during it: {:?} (expected exactly one intact record of entry {e})",
                        delta.len(),
                        delta
                    ));
                    format!("d?{}", delta.len())
                }
            }
            None => {
                if !delta.is_empty() {
                    problem = Some(format!("an op that carries no entry delivered {:?}", delta));
                }
                "ok".to_string()
            }
        }
    } else {
        if !delta.is_empty() {
            problem = Some(format!("op ended with `{raw}` but the sinks received {:?} during it", delta));
        }
        if raw.starts_with("panic:") {
            "panic".to_string()
        } else if let Some(id) = raw.strip_prefix("returned:") {
            format!("ret{id}")
        } else {
            raw.to_string() // noop none T F, or an anomaly marker (done:second-handle, returned-changed:…)
        }
    };
    (res, problem)
}

/// The property oracle: what the statement says must happen, tracked from the script alone.
#[derive(Default, Clone)]
struct Tracker {
    attached: Option<u64>,
    handle: bool,
    tl: [Option<u64>; THREADS],
    rt: [Option<u64>; RUNTIMES],
    held: HashMap<u64, u64>,
    /// statistics for the "non-trivial" rule
    contested: bool,
    panic_then_delivery: bool,
    seen_panic: bool,
}

impl Tracker {
    fn dest(&mut self, t: usize, r: Option<usize>) -> Option<u64> {
        let cands = [self.tl[t], r.and_then(|r| self.rt[r]), self.attached];
        if cands.iter().filter(|c| c.is_some()).count() >= 2 {
            self.contested = true;
        }
        cands.into_iter().flatten().next()
    }
    /// expected canonical observable (and class of the requirement, for the failure key)
    fn expect(&mut self, it: &Item) -> (String, &'static str) {
        let (t, r) = (it.t, it.r);
        let deliver = |me: &mut Tracker, d: Option<u64>, otherwise: String| match d {
            Some(d) => {
                if me.seen_panic {
                    me.panic_then_delivery = true;
                }
                format!("d{d}")
            }
            None => otherwise,
        };
        let out = match &it.op {
            Op::Attach(s) => {
                if self.attached.is_some() {
                    ("panic".to_string(), "attach-while-attached")
                } else {
                    self.attached = Some(*s);
                    self.handle = true;
                    ("ok".to_string(), "attach")
                }
            }
            Op::DropAttach(_) => {
                if self.handle {
                    self.handle = false;
                    self.attached = None;
                    ("ok".to_string(), "detach")
                } else {
                    ("noop".to_string(), "detach")
                }
            }
            Op::ForgetAttach => {
                if self.handle {
                    self.handle = false;
                    ("ok".to_string(), "forget")
                } else {
                    ("noop".to_string(), "forget")
                }
            }
            Op::SetTL(s) => {
                if self.tl[t].is_some() {
                    ("panic".to_string(), "second-thread-local-sink")
                } else {
                    self.tl[t] = Some(*s);
                    ("ok".to_string(), "set-thread-local")
                }
            }
            Op::DropTL(_) => {
                if self.tl[t].take().is_some() {
                    ("ok".to_string(), "drop-thread-local")
                } else {
                    ("noop".to_string(), "drop-thread-local")
                }
            }
            Op::SetRT(k, s) => {
                if self.rt[*k].is_some() {
                    ("panic".to_string(), "second-runtime-sink")
                } else {
                    self.rt[*k] = Some(*s);
                    ("ok".to_string(), "set-runtime")
                }
            }
            Op::SetRTCur(s) => match r {
                None => ("panic".to_string(), "no-current-runtime"),
                Some(k) => {
                    if self.rt[k].is_some() {
                        ("panic".to_string(), "second-runtime-sink")
                    } else {
                        self.rt[k] = Some(*s);
                        ("ok".to_string(), "set-runtime")
                    }
                }
            },
            Op::DropRT(k, _) => {
                if self.rt[*k].take().is_some() {
                    ("ok".to_string(), "drop-runtime")
                } else {
                    ("noop".to_string(), "drop-runtime")
                }
            }
            Op::Append(_) | Op::Sink(_) => {
                let d = self.dest(t, r);
                (deliver(self, d, "panic".into()), "route")
            }
            Op::TryAppend(e) => {
                let d = self.dest(t, r);
                (deliver(self, d, format!("ret{e}")), "route")
            }
            Op::TrySink(_) => {
                let d = self.dest(t, r);
                (deliver(self, d, "none".into()), "route")
            }
            Op::IsAttached => {
                let d = self.dest(t, r);
                ((if d.is_some() { "T" } else { "F" }).to_string(), "route")
            }
            Op::Hold(k) => {
                let d = self.dest(t, r);
                if let Some(d) = d {
                    self.held.insert(*k, d);
                }
                (deliver(self, d, "panic".into()), "route")
            }
            Op::UseHeld(k, _) => {
                let d = self.held.get(k).copied();
                (deliver(self, d, "noop".into()), "held-clone")
            }
        };
        if out.0 == "panic" {
            self.seen_panic = true;
        }
        out
    }
}

#[derive(Clone)]
struct Outcome {
    results: Vec<String>,
    /// first deviation from the property: (class, description)
    failure: Option<(String, String)>,
    nontrivial: bool,
    forgot: bool,
}

struct Shard {
    crew: Crew,
    log: Log,
    /// globals never left attached-forever
    clean: Vec<usize>,
    /// globals stuck with a forgotten sink (its label cell)
    stuck: Vec<(usize, Arc<AtomicU64>)>,
    retired: usize,
}

impl Shard {
    fn new(index: usize) -> Shard {
        let lo = index * POOL_PER_SHARD;
        Shard {
            crew: Crew::new(),
            log: Arc::new(Mutex::new(vec![])),
            clean: (lo..lo + POOL_PER_SHARD).rev().collect(),
            stuck: vec![],
            retired: 0,
        }
    }

    /// a global in the case's initial state, or None when the pool cannot provide one
    fn acquire(&mut self, init: Option<u64>) -> Option<usize> {
        match init {
            None => self.clean.last().copied(),
            Some(s) => {
                if let Some((g, label)) = self.stuck.last() {
                    label.store(s, Ordering::SeqCst);
                    return Some(*g);
                }
                if self.clean.len() < 2 {
                    return None;
                }
                let g = self.clean.pop()?;
                let sink = RecSink { label: Arc::new(AtomicU64::new(s)), log: self.log.clone(), gate: None };
                let label = sink.label.clone();
                let ok = catch(|| (GLOBALS[g].attach)(sink).forget()).is_ok();
                if !ok {
                    self.retired += 1;
                    return None;
                }
                self.stuck.push((g, label));
                Some(g)
            }
        }
    }

    /// a global that went through a failing case is reused only if all of this works without a panic
    fn healthy(&self, g: usize, stuck: bool) -> bool {
        let hs = self.crew.handles.clone();
        let log = self.log.clone();
        let r = self.crew.exec(
            0,
            Mode::Plain,
            Box::new(move |_| {
                let vt = &GLOBALS[g];
                let mk = || RecSink { label: Arc::new(AtomicU64::new(0)), log: log.clone(), gate: None };
                let ok = catch(|| {
                    if !stuck {
                        let h = (vt.attach)(mk());
                        assert!((vt.is_attached)());
                        drop(h);
                    }
                    assert_eq!((vt.is_attached)(), stuck);
                    for h in &hs {
                        let g1 = (vt.set_rt)(h, BoxEntrySink::new(mk()));
                        drop(g1);
                    }
                    let g2 = (vt.set_tl)(BoxEntrySink::new(mk()));
                    drop(g2);
                    assert_eq!((vt.is_attached)(), stuck);
                })
                .is_ok();
                if ok { "ok".into() } else { "broken".into() }
            }),
        );
        r == "ok"
    }

    fn retire(&mut self, g: usize) {
        self.clean.retain(|x| *x != g);
        self.stuck.retain(|x| x.0 != g);
        self.retired += 1;
    }

    /// run the script on a real global; None when no suitable global is left
    fn run(&mut self, case: &Case) -> Option<Outcome> {
        let g = self.acquire(case.init)?;
        self.log.lock().unwrap().clear();
        let shared = Arc::new(Mutex::new(Shared::default()));
        let mut tracker = Tracker { attached: case.init, ..Default::default() };
        let mut results = vec![];
        let mut failure: Option<(String, String)> = None;
        let mut seen = 0usize;
        for (i, it) in case.ops.iter().enumerate() {
            let (res, problem, raw) = self.exec_item(g, &shared, it, &mut seen);
            Self::judge(&mut tracker, &mut failure, i, it, &res, problem, &raw);
            results.push(res);
        }
        let (stuck_now, _) = self.finish(g, &shared, case.init, &mut failure);
        Some(Outcome {
            results,
            failure,
            nontrivial: tracker.contested || tracker.panic_then_delivery,
            forgot: stuck_now && case.init.is_none(),
        })
    }

    /// run one op on its thread/context; canonical observable, anomaly (if any), raw outcome
    fn exec_item(&self, g: usize, shared: &Arc<Mutex<Shared>>, it: &Item, seen: &mut usize) -> (String, Option<String>, String) {
        let (op, sh, log, hs) = (it.op.clone(), shared.clone(), self.log.clone(), self.crew.handles.clone());
        let raw = self.crew.exec(
            it.t,
            Crew::mode_for(it.t, it.r),
            Box::new(move |local| exec_op(g, &op, local, &sh, &log, &hs)),
        );
        let delta: Vec<Rec> = {
            let l = self.log.lock().unwrap();
            let d = l[*seen..].to_vec();
            *seen = l.len();
            d
        };
        let (res, problem) = canonical(it, &raw, &delta);
        (res, problem, raw)
    }

    /// compare one observable with what the property requires (the tracker is advanced)
    fn judge(tracker: &mut Tracker, failure: &mut Option<(String, String)>, i: usize, it: &Item, res: &str, problem: Option<String>, raw: &str) {
        let (want, class) = tracker.expect(it);
        if failure.is_none() {
            if let Some(p) = problem {
                *failure = Some(("exactly-one".into(), format!("op {i} `{}`: {p}", it.encode())));
            } else if res != want {
                let class = if res == "panic" || want == "panic" { format!("panic:{class}") } else { class.to_string() };
                *failure = Some((
                    class,
                    format!("op {i} `{}`: the property requires `{want}`, the implementation did `{res}` (raw `{raw}`)", it.encode()),
                ));
            }
        }
    }

    /// end of a case: drop everything, check the global is back in its resting state, pool bookkeeping;
    /// returns (left attached forever, kept in the pool)
    fn finish(&mut self, g: usize, shared: &Arc<Mutex<Shared>>, init: Option<u64>, failure: &mut Option<(String, String)>) -> (bool, bool) {
        // every case ends detached: drop thread-local guards on their threads, runtime guards, the handle
        let mut cleanup_panic = None;
        for t in 0..THREADS {
            let r = self.crew.exec(
                t,
                Mode::Plain,
                Box::new(move |local| match local.tl_guards.remove(&g) {
                    Some(guard) => catch(|| drop(guard)).err().unwrap_or_default(),
                    None => String::new(),
                }),
            );
            if !r.is_empty() {
                cleanup_panic = Some(r);
            }
        }
        let (guards, handle, forgot) = {
            let mut s = shared.lock().unwrap();
            let guards: Vec<_> = s.rt_guards.iter_mut().filter_map(|x| x.take()).collect();
            s.held.clear();
            (guards, s.handle.take(), s.forgot.take())
        };
        if let Err(p) = catch(|| drop(guards)) {
            cleanup_panic = Some(p);
        }
        if let Err(p) = catch(|| drop(handle)) {
            cleanup_panic = Some(p);
        }
        let stuck_now = forgot.is_some() || init.is_some();
        // observe the final state from every thread (a leaked thread-local sink) and from inside both runtimes
        let mut leftover = None;
        for (t, mode) in [
            (0, Mode::Plain),
            (1, Mode::Plain),
            (2, Mode::Plain),
            (3, Mode::Plain),
            (4, Mode::Plain),
            (1, Mode::Enter(0)),
            (THREADS - 1, Mode::BlockOn),
        ] {
            let r = self.crew.exec(
                t,
                mode,
                Box::new(move |_| match catch(|| (GLOBALS[g].is_attached)()) {
                    Ok(true) => "T".into(),
                    Ok(false) => "F".into(),
                    Err(p) => format!("panic:{p}"),
                }),
            );
            let want = if stuck_now { "T" } else { "F" };
            if r != want {
                leftover = Some(format!(
                    "after dropping every guard and handle, {}::is_attached() on thread {t} ({}) is {r}, expected {want}",
                    GLOBALS[g].name,
                    match mode {
                        Mode::Plain => "no runtime",
                        Mode::Enter(_) => "entered runtime 0",
                        Mode::BlockOn => "inside runtime 1",
                    }
                ));
            }
        }
        let (cleanup_panic_seen, leftover_seen) = (cleanup_panic.clone(), leftover.clone());
        if failure.is_none() {
            if let Some(p) = cleanup_panic {
                *failure = Some(("panic:cleanup".into(), format!("dropping a guard/handle at the end of the case panicked: {p}")));
            } else if let Some(l) = leftover {
                *failure = Some(("restore".into(), l));
            }
        }
        // bookkeeping of the pool
        let mut kept = true;
        if failure.is_some() {
            // keep the global only if it demonstrably still works (no poisoned lock, nothing left installed)
            let healthy = cleanup_panic_seen.is_none() && leftover_seen.is_none() && self.healthy(g, stuck_now);
            if !healthy {
                self.retire(g);
                kept = false;
            } else if let Some(label) = forgot {
                if init.is_none() {
                    self.clean.retain(|x| *x != g);
                    self.stuck.push((g, label));
                }
            }
        } else if let Some(label) = forgot {
            if init.is_none() {
                self.clean.retain(|x| *x != g);
                self.stuck.push((g, label));
            }
        }
        (stuck_now, kept)
    }
}

// ------------------------------------------------------------------------------------------------
// T-trace: appends racing a detach over a real BackgroundQueue

#[derive(Clone, Copy, Debug, PartialEq)]
enum StreamEv {
    Entry(u64, bool),
    Flush,
    Closed,
}

struct RecStream {
    log: Arc<Mutex<Vec<StreamEv>>>,
}

impl EntryIoStream for RecStream {
    fn next(&mut self, entry: &impl Entry) -> Result<(), IoStreamError> {
        let (id, intact) = decode(entry);
        self.log.lock().unwrap().push(StreamEv::Entry(id, intact));
        Ok(())
    }
    fn flush(&mut self) -> std::io::Result<()> {
        self.log.lock().unwrap().push(StreamEv::Flush);
        Ok(())
    }
}

impl Drop for RecStream {
    fn drop(&mut self) {
        self.log.lock().unwrap().push(StreamEv::Closed);
    }
}

#[derive(Clone, Debug)]
enum Conc {
    Race(RaceCase),
    Gate(GateCase),
    Ad(AdCase),
    Hammer(HammerCase),
}

impl Conc {
    fn encode(&self) -> String {
        match self {
            Conc::Race(r) => r.encode(),
            Conc::Gate(g) => g.encode(),
            Conc::Ad(a) => a.encode(),
            Conc::Hammer(h) => h.encode(),
        }
    }
    fn decode(s: &str) -> Option<Conc> {
        RaceCase::decode(s).map(Conc::Race).or_else(|| GateCase::decode(s).map(Conc::Gate)).or_else(|| AdCase::decode(s).map(Conc::Ad)).or_else(|| HammerCase::decode(s).map(Conc::Hammer))
    }
}

#[derive(Clone, Debug)]
struct GateCase {
    third: bool,
    wait_ms: u64,
    how: How,
}

fn how_of(tok: Option<&&str>) -> Option<How> {
    match tok.copied() {
        None | Some("n") => Some(How::Normal),
        Some("U") => Some(How::Unwind),
        Some("T") => Some(How::Thread),
        _ => None,
    }
}

fn how_tok(h: How) -> &'static str {
    match h {
        How::Normal => "",
        How::Unwind => " U",
        How::Thread => " T",
    }
}

impl GateCase {
    fn encode(&self) -> String {
        format!("gate {} {}{}", self.third as u8, self.wait_ms, how_tok(self.how))
    }
    fn decode(s: &str) -> Option<GateCase> {
        let v: Vec<&str> = s.split_whitespace().collect();
        if !(v.len() == 3 || v.len() == 4) || v[0] != "gate" {
            return None;
        }
        let c = GateCase { third: v[1] == "1", wait_ms: v[2].parse().ok()?, how: how_of(v.get(3))? };
        if c.wait_ms > 2000 {
            return None;
        }
        Some(c)
    }
}

#[derive(Clone, Debug)]
struct RaceCase {
    per_thread: u64,
    threads: usize,
    /// the coordinator drops the handle once this many `try_append`s (over all threads) have completed
    target: u64,
    /// 0 = `attach_to_stream` (default queue), otherwise `BackgroundQueue::builder().capacity(cap)`
    cap: usize,
    /// how the attach handle is dropped (optional last token `U` / `T`)
    how: How,
}

impl RaceCase {
    fn encode(&self) -> String {
        format!("race {} {} {} {}{}", self.per_thread, self.threads, self.target, self.cap, how_tok(self.how))
    }
    fn decode(s: &str) -> Option<RaceCase> {
        let v: Vec<&str> = s.split_whitespace().collect();
        if !(v.len() == 5 || v.len() == 6) || v[0] != "race" {
            return None;
        }
        let c = RaceCase {
            per_thread: v[1].parse().ok()?,
            threads: v[2].parse().ok()?,
            target: v[3].parse().ok()?,
            cap: v[4].parse().ok()?,
            how: how_of(v.get(5))?,
        };
        if c.threads == 0 || c.threads > THREADS || c.per_thread > 900 || c.target > c.per_thread * c.threads as u64 {
            return None;
        }
        Some(c)
    }
}

struct RaceOutcome {
    /// request line for the Lean predicate
    request: String,
    failure: Option<String>,
    accepted: usize,
    returned: usize,
}

impl Shard {
    fn race(&mut self, c: &RaceCase) -> Option<RaceOutcome> {
        let g = *self.clean.last()?;
        let vt = &GLOBALS[g];
        let slog = Arc::new(Mutex::new(vec![]));
        let stream = RecStream { log: slog.clone() };
        let handle = match catch(|| if c.cap == 0 { (vt.attach_stream)(stream) } else { (vt.attach_queue)(stream, c.cap) }) {
            Ok(h) => h,
            Err(p) => {
                self.retire(g);
                return Some(RaceOutcome { request: String::new(), failure: Some(format!("attach panicked: {p}")), accepted: 0, returned: 0 });
            }
        };
        let go = Arc::new(AtomicBool::new(false));
        let progress = Arc::new(AtomicU64::new(0));
        let mut pending = vec![];
        for t in 0..c.threads {
            let go = go.clone();
            let progress = progress.clone();
            let n = c.per_thread;
            let mode = if t >= THREADS - RUNTIMES { Mode::BlockOn } else { Mode::Plain };
            pending.push(self.crew.submit(
                t,
                mode,
                Box::new(move |_| {
                    while !go.load(Ordering::Acquire) {
                        std::hint::spin_loop();
                    }
                    let mut out = String::new();
                    for k in 0..n {
                        let id = t as u64 * 1000 + k;
                        let r = catch(|| (GLOBALS[g].try_append)(tagged(id)));
                        out.push(match r {
                            Ok(Ok(())) => '1',
                            Ok(Err(back)) if back == tagged(id) => '0',
                            Ok(Err(_)) => 'x',
                            Err(_) => 'p',
                        });
                        progress.fetch_add(1, Ordering::AcqRel);
                    }
                    out
                }),
            ));
        }
        go.store(true, Ordering::Release);
        while progress.load(Ordering::Acquire) < c.target {
            std::hint::spin_loop();
        }
        let dropped = drop_send(handle, c.how);
        let at_return: Vec<StreamEv> = slog.lock().unwrap().clone();
        let per_thread: Vec<String> = pending.into_iter().map(|p| p.recv().expect("crew reply")).collect();
        let fin: Vec<StreamEv> = slog.lock().unwrap().clone();

        // ---- oracle on the real history
        let mut failure = None;
        let mut fail = |s: String| {
            if failure.is_none() {
                failure = Some(s);
            }
        };
        if let Err(p) = dropped {
            fail(format!("dropping the attach handle panicked: {p}"));
        }
        if at_return.last() != Some(&StreamEv::Closed) {
            fail(format!("when drop(handle) returned the stream had not been closed (last events {:?})", &at_return[at_return.len().saturating_sub(3)..]));
        }
        let last_entry = at_return.iter().rposition(|e| matches!(e, StreamEv::Entry(..)));
        let last_flush = at_return.iter().rposition(|e| *e == StreamEv::Flush);
        if let Some(le) = last_entry {
            if last_flush.map(|lf| lf < le).unwrap_or(true) {
                fail("entries were written after the last flush before the close".into());
            }
        }
        if fin != at_return {
            fail(format!("the detached stream kept receiving events after drop(handle) returned: {:?}", &fin[at_return.len().min(fin.len())..]));
        }
        let written: Vec<u64> = at_return.iter().filter_map(|e| if let StreamEv::Entry(id, _) = e { Some(*id) } else { None }).collect();
        if at_return.iter().any(|e| matches!(e, StreamEv::Entry(_, false))) {
            fail("an entry reached the stream with a changed payload".into());
        }
        let (mut accepted, mut returned) = (0, 0);
        for (t, s) in per_thread.iter().enumerate() {
            let mut want = vec![];
            let mut handed_back = false;
            for (k, ch) in s.chars().enumerate() {
                let id = t as u64 * 1000 + k as u64;
                match ch {
                    '1' => {
                        accepted += 1;
                        want.push(id);
                        if handed_back {
                            fail(format!("thread {t}: entry {id} accepted after an earlier one had been handed back (nothing was re-attached)"));
                        }
                    }
                    '0' => {
                        returned += 1;
                        handed_back = true;
                    }
                    'x' => fail(format!("thread {t}: entry {id} handed back changed")),
                    _ => fail(format!("thread {t}: try_append panicked for entry {id}")),
                }
            }
            let got: Vec<u64> = written.iter().copied().filter(|id| id / 1000 == t as u64).collect();
            if got != want {
                let lost: Vec<_> = want.iter().filter(|i| !got.contains(i)).collect();
                let extra: Vec<_> = got.iter().filter(|i| !want.contains(i)).collect();
                fail(format!(
                    "thread {t}: accepted entries and written entries differ when drop(handle) returned: {} accepted, {} written, lost {:?}, not-accepted-but-written {:?}{}",
                    want.len(),
                    got.len(),
                    &lost[..lost.len().min(5)],
                    &extra[..extra.len().min(5)],
                    if lost.is_empty() && extra.is_empty() { " (order or multiplicity differs)" } else { "" }
                ));
            }
        }
        if written.iter().any(|id| (id / 1000) as usize >= c.threads) {
            fail("foreign entry in the stream".into());
        }
        if catch(|| (vt.is_attached)()) != Ok(false) {
            fail("still attached after drop(handle)".into());
        }
        // ---- the same history for the Lean predicate
        let mut trace = vec![];
        for (t, s) in per_thread.iter().enumerate() {
            for (k, ch) in s.chars().enumerate() {
                trace.push(format!("{t}.{k}.{}", if ch == '1' { 1 } else { 0 }));
            }
        }
        let wr: Vec<String> = written.iter().map(|id| format!("{}.{}", id / 1000, id % 1000)).collect();
        let request = format!(
            "race closed={} trace={} written={}",
            if at_return.contains(&StreamEv::Closed) { 1 } else { 0 },
            if trace.is_empty() { "-".to_string() } else { trace.join(",") },
            if wr.is_empty() { "-".to_string() } else { wr.join(",") }
        );
        if failure.is_some() {
            self.retire(g);
        }
        Some(RaceOutcome { request, failure, accepted, returned })
    }
}


const DETACH_RETURNED: u64 = u64::MAX;

impl Shard {
    /// Gated race (deterministic): an accepted append is held *inside* the attached sink while another
    /// thread drops the attach handle. The detach must not return before the append has completed (the
    /// entry would otherwise arrive at a sink that is already detached — for a queue: after its final
    /// drain, i.e. lost). Optionally a third thread calls `try_append` while the detach is waiting; it may
    /// be accepted (then delivered before the detach returns) or handed back, nothing else.
    /// The only timing element is one-sided: the harness waits `wait_ms` to give a premature detach the
    /// time to return; a correct implementation cannot return however long the wait is.
    fn gated(&mut self, with_third: bool, wait_ms: u64, how: How) -> Option<RaceOutcome> {
        let g = *self.clean.last()?;
        let vt = &GLOBALS[g];
        self.log.lock().unwrap().clear();
        let gate = Arc::new(Gate::default());
        let sink = RecSink { label: Arc::new(AtomicU64::new(1)), log: self.log.clone(), gate: Some(gate.clone()) };
        let handle = match catch(|| (vt.attach)(sink)) {
            Ok(h) => h,
            Err(p) => {
                self.retire(g);
                return Some(RaceOutcome { request: String::new(), failure: Some(format!("attach panicked: {p}")), accepted: 0, returned: 0 });
            }
        };
        let appender = |id: u64| -> Job {
            Box::new(move |_| match catch(|| (GLOBALS[g].try_append)(tagged(id))) {
                Ok(Ok(())) => "1".into(),
                Ok(Err(back)) if back == tagged(id) => "0".into(),
                Ok(Err(_)) => "x".into(),
                Err(_) => "p".into(),
            })
        };
        let a = self.crew.submit(0, Mode::Plain, appender(0));
        let t0 = std::time::Instant::now();
        while gate.entered.load(Ordering::Acquire) == 0 && t0.elapsed().as_secs() < 20 {
            std::thread::yield_now();
        }
        let mut failure: Option<String> = None;
        if gate.entered.load(Ordering::Acquire) == 0 {
            failure = Some("try_append on an attached global never reached the attached sink".into());
        }
        let log = self.log.clone();
        let b = self.crew.submit(
            1,
            Mode::Plain,
            Box::new(move |_| {
                let r = drop_send(handle, how);
                log.lock().unwrap().push(Rec { sink: DETACH_RETURNED, entry: 0, intact: true });
                match r {
                    Ok(()) => "dropped".into(),
                    Err(p) => format!("panic:{p}"),
                }
            }),
        );
        let c = if with_third { Some(self.crew.submit(THREADS - 1, Mode::BlockOn, appender(2000))) } else { None };
        std::thread::sleep(std::time::Duration::from_millis(wait_ms));
        let early = b.try_recv().ok();
        if early.is_some() && failure.is_none() {
            failure = Some("drop(attach handle) returned while an accepted append was still in flight inside the attached sink".into());
        }
        gate.open();
        let ra = a.recv().expect("crew reply");
        let rb = match early {
            Some(r) => r,
            None => b.recv().expect("crew reply"),
        };
        let rc = c.map(|c| c.recv().expect("crew reply"));
        let recs: Vec<Rec> = self.log.lock().unwrap().clone();
        let marker = recs.iter().position(|r| r.sink == DETACH_RETURNED).unwrap_or(recs.len());
        let mut fail = |s: String| {
            if failure.is_none() {
                failure = Some(s);
            }
        };
        if rb != "dropped" {
            fail(format!("dropping the attach handle: {rb}"));
        }
        let mut trace = vec![];
        let (mut accepted, mut returned) = (0, 0);
        for (t, id, r) in [(0u64, 0u64, Some(ra)), (2, 2000, rc)].into_iter().filter_map(|(t, id, r)| r.map(|r| (t, id, r))) {
            let before = recs[..marker].iter().filter(|x| x.entry == id).count();
            let after = recs[marker..].iter().filter(|x| x.entry == id && x.sink != DETACH_RETURNED).count();
            match r.as_str() {
                "1" => {
                    accepted += 1;
                    if before != 1 || after != 0 {
                        fail(format!("entry {id} was accepted but the attached sink received it {before} time(s) before and {after} time(s) after drop(handle) returned"));
                    }
                }
                "0" => {
                    returned += 1;
                    if before + after != 0 {
                        fail(format!("entry {id} was handed back and also delivered"));
                    }
                }
                other => fail(format!("try_append of entry {id}: {other}")),
            }
            trace.push(format!("{t}.0.{}", if r == "1" { 1 } else { 0 }));
        }
        if recs.iter().any(|x| !x.intact) {
            fail("an entry arrived changed".into());
        }
        if catch(|| (vt.is_attached)()) != Ok(false) {
            fail("still attached after drop(handle)".into());
        }
        let wr: Vec<String> = recs[..marker].iter().map(|x| format!("{}.0", x.entry / 1000)).collect();
        let request = format!("race closed=1 trace={} written={}", trace.join(","), if wr.is_empty() { "-".to_string() } else { wr.join(",") });
        if failure.is_some() {
            self.retire(g);
        }
        Some(RaceOutcome { request, failure, accepted, returned })
    }
}

// ------------------------------------------------------------------------------------------------
// install during a slow drop (deterministic): attach during detach, and the test-sink mirrors

/// Case line: `adrace <kind a|r|t> <wait ms> <block 3|4> | init=- <ops>`.
/// ops[0] installs an object whose drop is gated by the harness (kind `a`: `attach((sink, slow join handle))`;
/// `r`: a runtime test sink with a slow drop; `t`: a thread-local test sink with a slow drop);
/// ops[1] (A) drops its handle / guard and parks inside the old object's drop; while it is parked
/// ops[2] (B, another thread: installs a replacement) and, if block = 4, ops[3] (C, a third thread: an append)
/// are issued; they may complete at once or only after the gate opens (both are fine); the gate opens, all are
/// joined; the remaining ops run sequentially and observe the final state.
/// Judgement: A, B, C overlap, so the property allows any sequential order of them; there must be one that
/// explains every result of the block *and* of the ops after it (exactly one sink installed, routed to, a
/// further install panics, dropping it restores ...).
#[derive(Clone, Debug)]
struct AdCase {
    kind: char,
    wait_ms: u64,
    block: usize,
    /// number of plain ops executed sequentially before the gated install (header token `pre=<n>`)
    pre: usize,
    case: Case,
}

impl AdCase {
    fn encode(&self) -> String {
        let pre = if self.pre > 0 { format!(" pre={}", self.pre) } else { String::new() };
        format!("adrace {} {} {}{} | {}", self.kind, self.wait_ms, self.block, pre, self.case.encode())
    }
    fn decode(s: &str) -> Option<AdCase> {
        let (head, rest) = s.split_once(" | ")?;
        let v: Vec<&str> = head.split_whitespace().collect();
        if !(v.len() == 4 || v.len() == 5) || v[0] != "adrace" {
            return None;
        }
        let kind = v[1].chars().next()?;
        let pre: usize = match v.get(4) {
            Some(p) => p.strip_prefix("pre=")?.parse().ok()?,
            None => 0,
        };
        let c = AdCase { kind, wait_ms: v[2].parse().ok()?, block: v[3].parse().ok()?, pre, case: Case::decode(rest)? };
        if c.case.ops.len() < pre + c.block || !(3..=6).contains(&c.block) || (c.block > 4 && kind != 'f') {
            return None;
        }
        let ops = &c.case.ops[pre..];
        let ok = matches!(kind, 'a' | 'r' | 't' | 'd' | 'f')
            && ops.len() >= c.block
            && c.wait_ms <= 2000
            && c.case.init.is_none()
            && match (kind, &ops[0].op, &ops[1].op, &ops[2].op) {
                ('a', Op::Attach(_), Op::DropAttach(_), Op::Attach(_)) => true,
                // `f`: observers of any kind while the detach is inside the detached sink's flush
                ('f', Op::Attach(_), Op::DropAttach(_), _) => ops[2..c.block].iter().all(|o| {
                    matches!(
                        o.op,
                        Op::Attach(_) | Op::TryAppend(_) | Op::Append(_) | Op::Sink(_) | Op::TrySink(_) | Op::IsAttached | Op::SetTL(_) | Op::SetRT(..) | Op::SetRTCur(_)
                    )
                }),
                ('r', Op::SetRT(k, _), Op::DropRT(k1, _), Op::SetRT(..) | Op::SetRTCur(_)) => k == k1,
                ('t', Op::SetTL(_), Op::DropTL(_), Op::SetTL(_)) => ops[0].t == ops[1].t,
                // `d`: while A's guard drop is parked inside the registry's critical section, B drops (or
                // installs) the guard of ANOTHER runtime
                ('d', Op::SetRT(k, _), Op::DropRT(k1, _), Op::DropRT(k2, _) | Op::SetRT(k2, _)) => k == k1 && k2 != k,
                _ => false,
            }
            // A parks its thread, B may block: the three concurrent ops need three different threads
            && {
                let mut ts: Vec<usize> = ops[1..c.block].iter().map(|o| o.t).collect();
                ts.sort_unstable();
                ts.dedup();
                ts.len() == c.block - 1
            }
            && (kind == 'f' || c.block == 3 || ops[3].entry().is_some());
        if ok { Some(c) } else { None }
    }
}

struct AdOutcome {
    /// request for the Lean driver (the sequential / micro-step order that explains the block) and the
    /// implementation's results in that order
    request: String,
    results: String,
    failure: Option<(String, String)>,
    b_waited: bool,
    order: String,
}

fn permutations(n: usize) -> Vec<Vec<usize>> {
    fn rec(cur: &mut Vec<usize>, used: &mut Vec<bool>, out: &mut Vec<Vec<usize>>) {
        if cur.len() == used.len() {
            out.push(cur.clone());
            return;
        }
        for i in 0..used.len() {
            if !used[i] {
                used[i] = true;
                cur.push(i);
                rec(cur, used, out);
                cur.pop();
                used[i] = false;
            }
        }
    }
    let mut out = vec![];
    rec(&mut vec![], &mut vec![false; n], &mut out);
    out
}

impl Shard {
    fn adrace(&mut self, ad: &AdCase) -> Option<AdOutcome> {
        let g = self.acquire(None)?;
        self.log.lock().unwrap().clear();
        let shared = Arc::new(Mutex::new(Shared::default()));
        let gate = Arc::new(Gate::default());
        let mut failure: Option<(String, String)> = None;
        let mut tracker = Tracker::default();
        let mut results: Vec<String> = vec![];
        let mut seen0 = 0usize;
        for (i, it) in ad.case.ops[..ad.pre].iter().enumerate() {
            let (res, problem, raw) = self.exec_item(g, &shared, it, &mut seen0);
            Self::judge(&mut tracker, &mut failure, i, it, &res, problem, &raw);
            results.push(res);
        }
        let ops = &ad.case.ops[ad.pre..];

        // ---- ops[0]: install the object with the gated drop
        let setup = {
            let (op, sh, log, hs, gate, kind) = (ops[0].op.clone(), shared.clone(), self.log.clone(), self.crew.handles.clone(), gate.clone(), ad.kind);
            self.crew.exec(
                ops[0].t,
                Crew::mode_for(ops[0].t, ops[0].r),
                Box::new(move |local| {
                    let vt = &GLOBALS[g];
                    let mk = |s: u64| RecSink { label: Arc::new(AtomicU64::new(s)), log: log.clone(), gate: None };
                    let r = match (kind, &op) {
                        ('a' | 'f', Op::Attach(s)) => {
                            let sink = mk(*s);
                            let label = sink.label.clone();
                            catch(|| (vt.attach_gated)(sink, GatedDrop(gate))).map(|h| {
                                sh.lock().unwrap().handle = Some((h, label));
                            })
                        }
                        ('r' | 'd', Op::SetRT(k, s)) => {
                            let sink = BoxEntrySink::new(GatedDropSink { inner: mk(*s), gate });
                            catch(|| (vt.set_rt)(&hs[*k], sink)).map(|guard| {
                                sh.lock().unwrap().rt_guards[*k] = Some(guard);
                            })
                        }
                        ('t', Op::SetTL(s)) => {
                            let sink = BoxEntrySink::new(GatedDropSink { inner: mk(*s), gate });
                            catch(|| (vt.set_tl)(sink)).map(|guard| {
                                local.tl_guards.insert(g, guard);
                            })
                        }
                        _ => Err("malformed adrace case".into()),
                    };
                    match r {
                        Ok(()) => "done".into(),
                        Err(p) => format!("panic:{p}"),
                    }
                }),
            )
        };
        let (res0, problem0) = canonical(&ops[0], &setup, &[]);
        Self::judge(&mut tracker, &mut failure, 0, &ops[0], &res0, problem0, &setup);
        results.push(res0);

        // ---- the concurrent block
        // every concurrent op reports the event number at which it completed
        let submit = |me: &Shard, it: &Item| {
            let (op, sh, log, hs, gt) = (it.op.clone(), shared.clone(), me.log.clone(), me.crew.handles.clone(), gate.clone());
            me.crew.submit(
                it.t,
                Crew::mode_for(it.t, it.r),
                Box::new(move |local| {
                    let raw = exec_op(g, &op, local, &sh, &log, &hs);
                    format!("{raw}\u{1}{}", gt.seq.fetch_add(1, Ordering::SeqCst) + 1)
                }),
            )
        };
        let split = |s: String| -> (String, u64) {
            match s.rsplit_once('\u{1}') {
                Some((raw, n)) => (raw.to_string(), n.parse().unwrap_or(0)),
                None => (s, 0),
            }
        };
        let a = submit(self, &ops[1]);
        let t0 = std::time::Instant::now();
        while gate.entered.load(Ordering::Acquire) == 0 && t0.elapsed().as_secs() < 20 {
            std::thread::yield_now();
        }
        if gate.entered.load(Ordering::Acquire) == 0 && failure.is_none() {
            failure = Some(("concurrent:slow-drop".into(), format!("`{}` never reached the drop of the object it removes", ops[1].encode())));
        }
        let observers: Vec<_> = ops[2..ad.block].iter().map(|it| submit(self, it)).collect();
        std::thread::sleep(std::time::Duration::from_millis(ad.wait_ms));
        let early: Vec<Option<String>> = observers.iter().map(|o| o.try_recv().ok()).collect();
        let a_early = a.try_recv().ok();
        if a_early.is_some() && failure.is_none() {
            failure = Some(("concurrent:slow-drop".into(), format!("`{}` returned before the drop of the removed object had finished", ops[1].encode())));
        }
        gate.open();
        let (raw_a, _) = split(a_early.unwrap_or_else(|| a.recv().expect("crew reply")));
        let b_waited = early.first().map(|e| e.is_none()).unwrap_or(true);
        let mut block_raw = vec![raw_a];
        let mut done_seq = vec![0u64];
        for (o, e) in observers.into_iter().zip(early) {
            let (raw, n) = split(e.unwrap_or_else(|| o.recv().expect("crew reply")));
            block_raw.push(raw);
            done_seq.push(n);
        }
        let flushed_at = gate.flushed.load(Ordering::SeqCst);
        let recs: Vec<Rec> = self.log.lock().unwrap()[seen0..].to_vec();
        let mut seen = seen0 + recs.len();
        let mut block_res = vec![];
        for (j, raw) in block_raw.iter().enumerate() {
            let it = &ops[1 + j];
            let delta: Vec<Rec> = match it.entry() {
                Some(e) => recs.iter().filter(|r| r.entry == e).cloned().collect(),
                None => vec![],
            };
            let (res, problem) = canonical(it, raw, &delta);
            if let (Some(p), true) = (problem, failure.is_none()) {
                failure = Some(("concurrent:exactly-one".into(), format!("`{}`: {p}", it.encode())));
            }
            block_res.push(res);
        }
        // ---- flush ordering (attach handle only): whoever observes the detached state — an entry handed back, `None`,
        // `is_attached() == false`, the "must be attached" panic of append()/sink(), a successful re-attach — must do
        // so after the detached sink's flush (the drop of the taken pair) has completed
        let sees_detached = |it: &Item, res: &str| -> bool {
            res.starts_with("ret")
                || res == "none"
                || res == "F"
                || (res == "panic" && matches!(it.op, Op::Append(_) | Op::Sink(_) | Op::Hold(_)))
                || (res == "ok" && matches!(it.op, Op::Attach(_)))
        };
        let mut early_idx: Vec<usize> = vec![];
        if matches!(ad.kind, 'a' | 'f') {
            for j in 1..block_res.len() {
                if done_seq[j] != 0 && (flushed_at == 0 || done_seq[j] < flushed_at) {
                    early_idx.push(j);
                    if sees_detached(&ops[1 + j], &block_res[j]) && failure.is_none() {
                        failure = Some((
                            "concurrent:detached-before-flush".into(),
                            format!(
                                "`{}` answered `{}` (the global looks detached) while the drop of the attach handle was still inside the detached sink's flush: \
                                 the property restores routing to the next destination only after flushing what the detached sink had accepted",
                                ops[1 + j].encode(),
                                block_res[j]
                            ),
                        ));
                    }
                }
            }
        }
        let carried: Vec<u64> = ops[1..ad.block].iter().filter_map(|i| i.entry()).collect();
        if recs.iter().any(|r| !carried.contains(&r.entry)) && failure.is_none() {
            failure = Some(("concurrent:exactly-one".into(), format!("records of unknown entries during the block: {recs:?}")));
        }

        // ---- the ops after the block, sequentially
        let mut tail_res = vec![];
        let mut tail_raw = vec![];
        for it in &ops[ad.block..] {
            let (res, problem, raw) = self.exec_item(g, &shared, it, &mut seen);
            if let (Some(p), true) = (problem, failure.is_none()) {
                failure = Some(("concurrent:exactly-one".into(), format!("`{}`: {p}", it.encode())));
            }
            tail_res.push(res);
            tail_raw.push(raw);
        }

        // ---- is there a sequential order of the overlapping ops that explains everything?
        let n = ad.block - 1;
        let mut best: Option<(Vec<usize>, usize, String)> = None; // (order, ops explained, first mismatch)
        for perm in permutations(n) {
            let mut t = tracker.clone();
            let mut explained = 0;
            let mut mismatch = String::new();
            let seq = perm.iter().map(|j| (&ops[1 + j], &block_res[*j])).chain(ops[ad.block..].iter().zip(tail_res.iter()));
            for (it, res) in seq {
                let (want, _) = t.expect(it);
                if &want != res {
                    mismatch = format!("`{}`: the property requires `{want}`, the implementation did `{res}`", it.encode());
                    break;
                }
                explained += 1;
            }
            if best.as_ref().map(|b| explained > b.1).unwrap_or(true) {
                best = Some((perm, explained, mismatch));
            }
        }
        let (perm, explained, mismatch) = best.expect("at least one order");
        let total = n + ops.len() - ad.block;
        if explained < total && failure.is_none() {
            let names: Vec<String> = perm.iter().map(|j| format!("{}→{}", ops[1 + j].encode(), block_res[*j])).collect();
            failure = Some((
                format!("concurrent:install-during-slow-drop:{}", ad.kind),
                format!(
                    "no sequential order of the overlapping ops explains the results; the best one ({}) breaks at {mismatch}; B {}",
                    names.join(" ; "),
                    if b_waited { "completed only after the gate opened" } else { "completed while the old object was still being dropped" }
                ),
            ));
        }
        // ---- the same order for the Lean model: kind `a` as a micro-step schedule (take .. dropPair)
        let mut req = vec!["init=-".to_string()];
        req.extend(ad.case.ops[..=ad.pre].iter().map(|i| i.encode()));
        results.truncate(ad.pre + 1);
        // kinds a/f: `<A>:take`, the ops directly after it that completed before the flush did, `<A>:dropPair`, the rest
        let micro = matches!(ad.kind, 'a' | 'f');
        let apos = perm.iter().position(|j| *j == 0).unwrap_or(0);
        // (the explaining order is kept as it is: `dropPair` goes after the longest run of ops following A that
        // completed before the flush did)
        let mut order: Vec<usize> = perm[..apos].to_vec();
        order.push(0);
        let n_early = perm[apos + 1..].iter().take_while(|j| micro && early_idx.contains(j)).count();
        order.extend(&perm[apos + 1..apos + 1 + n_early]);
        order.push(usize::MAX); // dropPair marker
        order.extend(&perm[apos + 1 + n_early..]);
        let actx = ops[1].encode().split(':').next().unwrap_or("").to_string();
        for j in &order {
            if *j == usize::MAX {
                if micro {
                    req.push(format!("{actx}:dropPair"));
                }
                continue;
            }
            if micro && *j == 0 {
                req.push(format!("{actx}:take"));
            } else {
                req.push(ops[1 + j].encode());
            }
            results.push(block_res[*j].clone());
        }
        for (it, res) in ops[ad.block..].iter().zip(tail_res.iter()) {
            req.push(it.encode());
            results.push(res.clone());
        }
        let _ = tail_raw;
        self.finish(g, &shared, None, &mut failure);
        Some(AdOutcome {
            request: req.join(" "),
            results: format!("{}{}", results.join(" "), if micro { " flush=ok" } else { "" }),
            failure,
            b_waited,
            order: perm.iter().map(|j| ["A", "B", "C", "D", "E"][*j]).collect::<Vec<_>>().join(""),
        })
    }
}

fn gen_adrace(rng: &mut Rng, kind: char, wait_ms: u64) -> AdCase {
    let mut threads: Vec<usize> = (0..THREADS).collect();
    rng.shuffle(&mut threads);
    let (ta, tb, tc, tp) = (threads[0], threads[1], threads[2], threads[3]);
    let k = rng.below(RUNTIMES as u64) as usize;
    let how_a = gen_how(rng, kind != 't');
    let third = rng.chance(1, 2);
    let ctx_k = |t: usize| Item { t, r: Some(k), op: Op::IsAttached };
    let at = |t: usize, r: Option<usize>, op: Op| Item { t, r, op };
    let mut ops = vec![];
    let mut e = 1000;
    let mut next = || {
        e += 1;
        e
    };
    let mut pre = 0;
    let mut block_override = None;
    match kind {
        'f' => {
            // observers of every kind while the detach is parked inside the detached sink's flush
            ops.push(at(ta, None, Op::Attach(1)));
            ops.push(at(ta, None, Op::DropAttach(how_a)));
            let others = [tb, tc, tp, threads[4]];
            let n_obs = rng.range(1, 4) as usize;
            let mut kinds: Vec<u64> = (0..9).collect();
            rng.shuffle(&mut kinds);
            for (i, t) in others.iter().take(n_obs).enumerate() {
                let r = if rng.chance(1, 4) { Some(k) } else { None };
                let op = match kinds[i] {
                    0 | 8 => Op::TryAppend(next()),
                    1 => Op::IsAttached,
                    2 => Op::TrySink(next()),
                    3 => Op::Sink(next()),
                    4 => Op::Append(next()),
                    5 => Op::Attach(2),
                    6 => Op::SetTL(5),
                    _ => Op::SetRT(k, 6),
                };
                ops.push(at(*t, r, op));
            }
            block_override = Some(2 + n_obs);
            for (t, r) in [(tp, None), (tc, Some(k)), (ta, None), (tb, Some(1 - k))] {
                ops.push(at(t, r, Op::TryAppend(next())));
            }
            ops.push(at(tb, None, Op::IsAttached));
            ops.push(at(tp, None, Op::Attach(3)));
            ops.push(at(ta, None, Op::TryAppend(next())));
            ops.push(at(tc, None, Op::DropAttach(gen_how(rng, true))));
            ops.push(at(ta, None, Op::TryAppend(next())));
            ops.push(at(tb, None, Op::DropTL(How::Normal)));
            ops.push(at(tc, None, Op::DropTL(How::Normal)));
            ops.push(at(tp, None, Op::DropRT(k, How::Normal)));
            ops.push(at(ta, Some(k), Op::TryAppend(next())));
        }
        'd' => {
            // runtime 1-k has a plain test sink (and sometimes something is attached); runtime k's sink has the slow drop
            let k2 = 1 - k;
            let attached = rng.chance(1, 2);
            if attached {
                ops.push(at(tp, None, Op::Attach(9)));
                pre += 1;
            }
            let b_drops = rng.chance(3, 4);
            if b_drops {
                ops.push(at(tp, None, Op::SetRT(k2, 2)));
                pre += 1;
            }
            ops.push(at(ta, None, Op::SetRT(k, 1)));
            ops.push(at(ta, None, Op::DropRT(k, how_a)));
            ops.push(at(tb, None, if b_drops { Op::DropRT(k2, gen_how(rng, true)) } else { Op::SetRT(k2, 2) }));
            if third {
                ops.push(at(tc, Some(if rng.chance(1, 2) { k } else { k2 }), Op::TryAppend(next())));
            }
            for (t, r) in [(tp, Some(k2)), (tc, Some(k2)), (tp, Some(k)), (ta, None)] {
                ops.push(at(t, r, Op::TryAppend(next())));
            }
            ops.push(at(tb, Some(k2), Op::IsAttached));
            ops.push(at(tp, None, Op::SetRT(k2, 3)));
            ops.push(at(tc, Some(k2), Op::TryAppend(next())));
            ops.push(at(tc, None, Op::DropRT(k2, How::Normal)));
            ops.push(at(tp, None, Op::SetRT(k, 4)));
            ops.push(at(tc, Some(k), Op::TryAppend(next())));
            ops.push(at(tb, None, Op::DropRT(k, gen_how(rng, true))));
            ops.push(at(tp, Some(k), Op::TryAppend(next())));
            ops.push(at(tp, Some(k2), Op::TryAppend(next())));
        }
        'a' => {
            ops.push(at(ta, None, Op::Attach(1)));
            ops.push(at(ta, None, Op::DropAttach(how_a)));
            ops.push(at(tb, None, Op::Attach(2)));
            if third {
                ops.push(at(tc, None, if rng.chance(1, 2) { Op::TryAppend(next()) } else { Op::TrySink(next()) }));
            }
            for (t, r) in [(tp, None), (tc, Some(k)), (ta, None)] {
                ops.push(at(t, r, Op::TryAppend(next())));
            }
            ops.push(at(tc, None, Op::Append(next())));
            ops.push(at(tp, None, Op::Sink(next())));
            ops.push(at(tb, None, Op::IsAttached));
            ops.push(at(tp, None, Op::Attach(3)));
            ops.push(at(tp, None, Op::TryAppend(next())));
            ops.push(at(tc, None, Op::DropAttach(gen_how(rng, true))));
            ops.push(at(tp, None, Op::TryAppend(next())));
            ops.push(at(ta, None, Op::IsAttached));
            ops.push(at(tb, None, Op::Attach(4)));
            ops.push(at(tp, None, Op::TryAppend(next())));
            ops.push(at(tb, None, Op::DropAttach(How::Normal)));
            ops.push(at(tp, None, Op::TryAppend(next())));
        }
        'r' => {
            ops.push(at(ta, None, Op::SetRT(k, 1)));
            ops.push(at(ta, None, Op::DropRT(k, how_a)));
            ops.push(if rng.chance(1, 2) { at(tb, None, Op::SetRT(k, 2)) } else { at(tb, Some(k), Op::SetRTCur(2)) });
            if third {
                ops.push(at(tc, if rng.chance(2, 3) { Some(k) } else { None }, Op::TryAppend(next())));
            }
            for (t, r) in [(tp, Some(k)), (tc, Some(k)), (ta, None), (tp, Some(1 - k))] {
                ops.push(at(t, r, Op::TryAppend(next())));
            }
            ops.push(ctx_k(tb));
            ops.push(at(tp, None, Op::SetRT(k, 3)));
            ops.push(at(tp, Some(k), Op::TryAppend(next())));
            ops.push(at(tc, None, Op::DropRT(k, gen_how(rng, true))));
            ops.push(at(tp, Some(k), Op::TryAppend(next())));
            ops.push(at(tb, Some(k), Op::SetRTCur(4)));
            ops.push(at(tp, Some(k), Op::TryAppend(next())));
            ops.push(at(tb, None, Op::DropRT(k, How::Normal)));
            ops.push(at(tp, Some(k), Op::TryAppend(next())));
        }
        _ => {
            ops.push(at(ta, None, Op::SetTL(1)));
            ops.push(at(ta, None, Op::DropTL(how_a)));
            ops.push(at(tb, None, Op::SetTL(2)));
            if third {
                ops.push(at(tc, None, Op::TryAppend(next())));
            }
            for t in [ta, tb, tp] {
                ops.push(at(t, None, Op::TryAppend(next())));
            }
            ops.push(at(ta, None, Op::SetTL(3)));
            ops.push(at(tb, None, Op::SetTL(4)));
            ops.push(at(ta, None, Op::TryAppend(next())));
            ops.push(at(tb, None, Op::TryAppend(next())));
            ops.push(at(ta, None, Op::DropTL(How::Unwind)));
            ops.push(at(tb, None, Op::DropTL(How::Normal)));
            ops.push(at(ta, None, Op::TryAppend(next())));
            ops.push(at(tb, None, Op::TryAppend(next())));
        }
    }
    AdCase { kind, wait_ms, block: block_override.unwrap_or(if third { 4 } else { 3 }), pre, case: Case { init: None, ops } }
}

// ------------------------------------------------------------------------------------------------
// contention stage (statistical): readers hammer the global from inside runtime contexts while the
// coordinator installs / probes / drops runtime test-sink guards

/// Case line: `hammer <threads 1..4> <iterations> <attached 0|1> <seed>`.
/// Crew threads 1..=threads (1, 2 entered into runtime 0 / 1; 3, 4 inside `block_on` of their own runtime; none has a
/// thread-local sink) loop over `is_attached()` / `try_sink()` / `try_append` on the global until told to stop.
/// Meanwhile the coordinator repeats: install a test sink for runtime k, append from inside runtime k (must go to
/// it), drop the guard (plain / `U` / `T`), append from inside runtime k again (must go to the attached sink or be
/// handed back — never to the dropped test sink), and the next install on the same runtime must succeed.
/// The coordinator's own ops are sequential and the hammering ops never change the routing state
/// (`c17_readers_neutral`), so its script has exactly the model's results; every post-condition is deterministic.
#[derive(Clone, Debug)]
struct HammerCase {
    threads: usize,
    iters: u64,
    attached: bool,
    seed: u64,
}

impl HammerCase {
    fn encode(&self) -> String {
        format!("hammer {} {} {} {}", self.threads, self.iters, self.attached as u8, self.seed)
    }
    fn decode(s: &str) -> Option<HammerCase> {
        let v: Vec<&str> = s.split_whitespace().collect();
        if v.len() != 5 || v[0] != "hammer" {
            return None;
        }
        let c = HammerCase { threads: v[1].parse().ok()?, iters: v[2].parse().ok()?, attached: v[3] == "1", seed: v[4].parse().ok()? };
        if c.threads == 0 || c.threads > 4 || c.iters > 100_000 {
            return None;
        }
        Some(c)
    }
}

struct HammerOutcome {
    request: String,
    results: String,
    failure: Option<(String, String)>,
    hammer_ops: u64,
}

impl Shard {
    fn hammer(&mut self, c: &HammerCase) -> Option<HammerOutcome> {
        let g = self.acquire(None)?;
        let vt = &GLOBALS[g];
        self.log.lock().unwrap().clear();
        let mut rng = Rng::new(c.seed);
        let mk = |me: &Shard, s: u64| RecSink { label: Arc::new(AtomicU64::new(s)), log: me.log.clone(), gate: None };
        let mut failure: Option<(String, String)> = None;
        let mut script: Vec<Item> = vec![];
        let mut results: Vec<String> = vec![];
        let mut handle = None;
        if c.attached {
            script.push(Item { t: 0, r: None, op: Op::Attach(9) });
            match catch(|| (vt.attach)(mk(self, 9))) {
                Ok(h) => {
                    handle = Some(h);
                    results.push("ok".into());
                }
                Err(p) => {
                    results.push("panic".into());
                    failure = Some(("hammer".into(), format!("attach panicked: {p}")));
                }
            }
        }
        // ---- start the readers
        let stop = Arc::new(AtomicBool::new(false));
        let mut pending = vec![];
        for t in 1..=c.threads {
            let stop = stop.clone();
            let mode = if t >= THREADS - RUNTIMES { Mode::BlockOn } else { Mode::Enter(t % 2) };
            pending.push(self.crew.submit(
                t,
                mode,
                Box::new(move |_| {
                    let vt = &GLOBALS[g];
                    let (mut n, mut ok, mut err, mut panics) = (0u64, 0u64, 0u64, 0u64);
                    while !stop.load(Ordering::Acquire) {
                        let r = match n % 8 {
                            0 => catch(|| match (vt.try_append)(tagged(5_000_000 + n + t as u64)) /* n is a multiple of 8 here, t < 8: unique */ {
                                Ok(()) => 1,
                                Err(_) => 0,
                            }),
                            1 => catch(|| {
                                drop((vt.try_sink)());
                                2
                            }),
                            _ => catch(|| {
                                (vt.is_attached)();
                                2
                            }),
                        };
                        match r {
                            Ok(1) => ok += 1,
                            Ok(0) => err += 1,
                            Ok(_) => {}
                            Err(_) => panics += 1,
                        }
                        n += 1;
                    }
                    format!("{n}:{ok}:{err}:{panics}")
                }),
            ));
        }
        // ---- the coordinator's loop
        let hs = self.crew.handles.clone();
        let mut pos = 0usize;
        let mut find = |me: &Shard, entry: u64| -> Vec<u64> {
            let l = me.log.lock().unwrap();
            let hits: Vec<u64> = l[pos..].iter().filter(|r| r.entry == entry).map(|r| r.sink).collect();
            pos = l.len();
            hits
        };
        let mut tracker = Tracker::default();
        if c.attached {
            tracker.expect(&script[0]);
        }
        let mut record = |script: &mut Vec<Item>, results: &mut Vec<String>, failure: &mut Option<(String, String)>, it: Item, res: String, i: u64| {
            let (want, _) = tracker.expect(&it);
            if want != res && failure.is_none() {
                *failure = Some((
                    "hammer:guard-drop-under-contention".into(),
                    format!("iteration {i}, `{}`: the property requires `{want}`, the implementation did `{res}` (readers were hammering the global)", it.encode()),
                ));
            }
            script.push(it);
            results.push(res);
        };
        for i in 0..c.iters {
            if failure.is_some() {
                break;
            }
            let k = ((i / 2) % 2) as usize;
            let s = 10 + i;
            // install
            let guard = catch(|| (vt.set_rt)(&hs[k], BoxEntrySink::new(mk(self, s))));
            record(&mut script, &mut results, &mut failure, Item { t: 0, r: None, op: Op::SetRT(k, s) }, if guard.is_ok() { "ok".into() } else { "panic".into() }, i);
            let Ok(guard) = guard else { break };
            // append from inside runtime k: to the test sink
            let probe = |e: u64| -> String {
                let _ctx = hs[k].enter();
                match catch(|| (vt.try_append)(tagged(e))) {
                    Ok(Ok(())) => "done".into(),
                    Ok(Err(back)) if back == tagged(e) => format!("ret{e}"),
                    Ok(Err(_)) => "returned-changed".into(),
                    Err(_) => "panic".into(),
                }
            };
            let canon = |raw: String, hits: Vec<u64>| -> String {
                if raw == "done" {
                    if hits.len() == 1 { format!("d{}", hits[0]) } else { format!("d?{}", hits.len()) }
                } else if !hits.is_empty() {
                    format!("{raw}+delivered")
                } else {
                    raw
                }
            };
            let e1 = 100_000 + 2 * i;
            let raw = probe(e1);
            let res = canon(raw, find(self, e1));
            record(&mut script, &mut results, &mut failure, Item { t: 0, r: Some(k), op: Op::TryAppend(e1) }, res, i);
            // drop the guard while the readers keep going
            let how = match rng.below(16) {
                0 => How::Thread,
                1 | 2 => How::Unwind,
                _ => How::Normal,
            };
            let dropped = drop_send(guard, how);
            record(&mut script, &mut results, &mut failure, Item { t: 0, r: None, op: Op::DropRT(k, how) }, if dropped.is_ok() { "ok".into() } else { "panic".into() }, i);
            // now the next destination takes over, deterministically
            let e2 = e1 + 1;
            let raw = probe(e2);
            let res = canon(raw, find(self, e2));
            record(&mut script, &mut results, &mut failure, Item { t: 0, r: Some(k), op: Op::TryAppend(e2) }, res, i);
        }
        stop.store(true, Ordering::Release);
        let mut hammer_ops = 0;
        let mut accepted = 0u64;
        for p in pending {
            let r = p.recv().expect("crew reply");
            let v: Vec<u64> = r.split(':').filter_map(|x| x.parse().ok()).collect();
            hammer_ops += v[0];
            accepted += v[1];
            if v[3] > 0 && failure.is_none() {
                failure = Some(("hammer:panic".into(), format!("{} reader operations panicked", v[3])));
            }
        }
        // exactly-once accounting of the readers' appends
        {
            let l = self.log.lock().unwrap();
            let mut ids: Vec<u64> = l.iter().filter(|r| r.entry >= 5_000_000).map(|r| r.entry).collect();
            let n = ids.len() as u64;
            ids.sort_unstable();
            ids.dedup();
            if (n != accepted || ids.len() as u64 != n) && failure.is_none() {
                failure = Some(("hammer:exactly-one".into(), format!("readers had {accepted} appends accepted, the sinks hold {n} records of them ({} distinct)", ids.len())));
            }
            if l.iter().any(|r| !r.intact) && failure.is_none() {
                failure = Some(("hammer:exactly-one".into(), "an entry arrived changed".into()));
            }
        }
        if let Some(h) = handle {
            script.push(Item { t: 0, r: None, op: Op::DropAttach(How::Normal) });
            results.push(if catch(|| drop(h)).is_ok() { "ok".into() } else { "panic".into() });
        }
        let shared = Arc::new(Mutex::new(Shared::default()));
        self.finish(g, &shared, None, &mut failure);
        let request = Case { init: None, ops: script }.encode();
        Some(HammerOutcome { request, results: results.join(" "), failure, hammer_ops })
    }
}

// ------------------------------------------------------------------------------------------------
// generators

fn gen_ctx(rng: &mut Rng) -> (usize, Option<usize>) {
    let t = rng.below(THREADS as u64) as usize;
    let r = if t >= THREADS - RUNTIMES {
        let own = t - (THREADS - RUNTIMES);
        match rng.below(10) {
            0 => None,
            1 => Some(1 - own),
            _ => Some(own),
        }
    } else {
        match rng.below(10) {
            0..=5 => None,
            k => Some((k % 2) as usize),
        }
    };
    (t, r)
}

/// probes: a `tryAppend` from every thread in its natural context (+ two entered contexts)
fn probes(base: u64) -> Vec<Item> {
    let mut v = vec![];
    for t in 0..THREADS {
        let r = if t >= THREADS - RUNTIMES { Some(t - (THREADS - RUNTIMES)) } else { None };
        v.push(Item { t, r, op: Op::TryAppend(base + t as u64) });
    }
    v.push(Item { t: 0, r: Some(0), op: Op::TryAppend(base + 5) });
    v.push(Item { t: 1, r: Some(1), op: Op::TryAppend(base + 6) });
    v
}

/// how a drop happens: 60% plain, otherwise by a contained unwinding panic (scope / spawned thread)
fn gen_how(rng: &mut Rng, thread_ok: bool) -> How {
    match rng.below(10) {
        0..=5 => How::Normal,
        6..=7 => How::Unwind,
        _ => {
            if thread_ok {
                How::Thread
            } else {
                How::Unwind
            }
        }
    }
}

fn gen_random(rng: &mut Rng, allow_forget: bool, stuck: bool) -> Case {
    let n = rng.range(1, 26) as usize;
    let mut ops = vec![];
    // per-case bias: which kinds of install are common (so that all three overlap often)
    let w_attach = rng.range(1, 4);
    let w_tl = rng.range(1, 4);
    let w_rt = rng.range(1, 4);
    for i in 0..n {
        let (t, r) = gen_ctx(rng);
        let s = i as u64 + 1;
        let e = 1000 + i as u64;
        let install = w_attach + w_tl + w_rt;
        let k = rng.below(install * 2 + 14);
        let op = if k < w_attach {
            Op::Attach(s)
        } else if k < w_attach + w_tl {
            Op::SetTL(s)
        } else if k < install {
            if rng.chance(1, 2) { Op::SetRT(rng.below(2) as usize, s) } else { Op::SetRTCur(s) }
        } else if k < install * 2 {
            // a drop of something
            match rng.below(7) {
                0 | 1 => Op::DropAttach(gen_how(rng, true)),
                2 | 3 => Op::DropTL(gen_how(rng, false)),
                4 | 5 => Op::DropRT(rng.below(2) as usize, gen_how(rng, true)),
                _ => {
                    if allow_forget {
                        Op::ForgetAttach
                    } else {
                        Op::DropAttach(gen_how(rng, true))
                    }
                }
            }
        } else {
            match k - install * 2 {
                0..=3 => Op::TryAppend(e),
                4..=6 => Op::Append(e),
                7 => Op::Sink(e),
                8 => Op::TrySink(e),
                9 => Op::IsAttached,
                10 | 11 => Op::Hold(rng.below(2)),
                _ => Op::UseHeld(rng.below(2), e),
            }
        };
        ops.push(Item { t, r, op });
    }
    if allow_forget {
        // make it likely that the forget finds a live handle
        let (t, r) = gen_ctx(rng);
        let at = rng.below(ops.len() as u64 / 2 + 1) as usize;
        ops.insert(at, Item { t, r, op: Op::Attach(90) });
        let (t, r) = gen_ctx(rng);
        let at2 = at + 1 + rng.below((ops.len() - at) as u64) as usize;
        ops.insert(at2, Item { t, r, op: Op::ForgetAttach });
    }
    if rng.chance(1, 2) {
        ops.extend(probes(2000));
    }
    Case { init: if stuck { Some(rng.range(50, 59)) } else { None }, ops }
}

/// every order of installing and removing the three overrides, observed after each step from the thread
/// that owns the thread-local sink, inside and outside the runtime
fn gen_orders(rng: &mut Rng, out: &mut Vec<Case>, count: usize) {
    let events = ["A", "T", "R", "a", "t", "r"];
    let mut perms: Vec<Vec<usize>> = vec![];
    fn rec(cur: &mut Vec<usize>, used: &mut [bool; 6], perms: &mut Vec<Vec<usize>>) {
        if cur.len() == 6 {
            perms.push(cur.clone());
            return;
        }
        for i in 0..6 {
            if !used[i] {
                used[i] = true;
                cur.push(i);
                rec(cur, used, perms);
                cur.pop();
                used[i] = false;
            }
        }
    }
    rec(&mut vec![], &mut [false; 6], &mut perms);
    rng.shuffle(&mut perms);
    for p in perms.into_iter().take(count) {
        let t = rng.below(THREADS as u64) as usize;
        let k = rng.below(RUNTIMES as u64) as usize;
        let other = (t + 1 + rng.below(THREADS as u64 - 1) as usize) % THREADS;
        let mut ops = vec![];
        let mut e = 1000;
        for (step, ev) in p.iter().enumerate() {
            let s = step as u64 + 1;
            let (ot, or) = gen_ctx(rng);
            let op = match events[*ev] {
                "A" => Item { t: ot, r: or, op: Op::Attach(s) },
                "T" => Item { t, r: or, op: Op::SetTL(s) },
                "R" => Item { t: ot, r: or, op: Op::SetRT(k, s) },
                "a" => Item { t: ot, r: or, op: Op::DropAttach(gen_how(rng, true)) },
                "t" => Item { t, r: or, op: Op::DropTL(gen_how(rng, false)) },
                _ => Item { t: ot, r: or, op: Op::DropRT(k, gen_how(rng, true)) },
            };
            ops.push(op);
            for (pt, pr) in [(t, Some(k)), (t, None), (other, Some(k)), (other, None)] {
                e += 1;
                ops.push(Item { t: pt, r: pr, op: if e % 3 == 0 { Op::Append(e) } else { Op::TryAppend(e) } });
            }
        }
        out.push(Case { init: None, ops });
    }
}

/// every script of the given length over a reduced alphabet (14 ops x 4 contexts), each followed by probes
fn gen_exhaustive(len: usize) -> Vec<Case> {
    let ctxs = [(0usize, None), (0, Some(0usize)), (3, Some(0)), (3, None)];
    let mut alphabet: Vec<(usize, Option<usize>, usize)> = vec![];
    for (t, r) in ctxs {
        for o in 0..14 {
            alphabet.push((t, r, o));
        }
    }
    let mut out = vec![];
    let n = alphabet.len();
    let total = n.pow(len as u32);
    for mut code in 0..total {
        let mut ops = vec![];
        for pos in 0..len {
            let (t, r, o) = alphabet[code % n];
            code /= n;
            let s = pos as u64 + 1;
            let e = 1000 + pos as u64;
            let op = match o {
                0 => Op::Attach(s),
                1 => Op::DropAttach(How::Normal),
                2 => Op::SetTL(s),
                3 => Op::DropTL(How::Normal),
                4 => Op::SetRT(0, s),
                5 => Op::DropRT(0, How::Normal),
                6 => Op::SetRTCur(s),
                7 => Op::TryAppend(e),
                8 => Op::Sink(e),
                9 => Op::DropAttach(How::Unwind),
                10 => Op::DropTL(How::Unwind),
                11 => Op::DropRT(0, How::Unwind),
                12 => Op::DropAttach(How::Thread),
                _ => Op::DropRT(0, How::Thread),
            };
            ops.push(Item { t, r, op });
        }
        ops.extend(probes(2000));
        out.push(Case { init: None, ops });
    }
    out
}

/// panics in the middle of a populated state, then everything keeps working
fn gen_panics(rng: &mut Rng) -> Case {
    let t = rng.below(THREADS as u64) as usize;
    let k = rng.below(RUNTIMES as u64) as usize;
    let mut ops = vec![
        Item { t: rng.below(5) as usize, r: None, op: Op::Attach(1) },
        Item { t, r: None, op: Op::SetTL(2) },
        Item { t: rng.below(5) as usize, r: None, op: Op::SetRT(k, 3) },
    ];
    rng.shuffle(&mut ops);
    let n = rng.range(1, 5);
    for i in 0..n {
        let (ot, or) = gen_ctx(rng);
        let s = 10 + i;
        ops.push(match rng.below(5) {
            0 => Item { t: ot, r: or, op: Op::Attach(s) },
            1 => Item { t, r: or, op: Op::SetTL(s) },
            2 => Item { t: ot, r: or, op: Op::SetRT(k, s) },
            3 => Item { t: ot, r: Some(k), op: Op::SetRTCur(s) },
            _ => Item { t: ot, r: None, op: Op::SetRTCur(s) },
        });
        if rng.chance(1, 2) {
            let (pt, pr) = gen_ctx(rng);
            ops.push(Item { t: pt, r: pr, op: Op::Append(1000 + i) });
        }
    }
    ops.extend(probes(2000));
    let mut drops = vec![
        Item { t: rng.below(5) as usize, r: None, op: Op::DropAttach(gen_how(rng, true)) },
        Item { t, r: None, op: Op::DropTL(gen_how(rng, false)) },
        Item { t: rng.below(5) as usize, r: None, op: Op::DropRT(k, gen_how(rng, true)) },
    ];
    rng.shuffle(&mut drops);
    for (i, d) in drops.into_iter().enumerate() {
        ops.push(d);
        ops.extend(probes(3000 + 100 * i as u64));
        if rng.chance(1, 3) {
            ops.push(Item { t: rng.below(5) as usize, r: None, op: Op::Attach(20 + i as u64) });
        }
    }
    Case { init: None, ops }
}

// ------------------------------------------------------------------------------------------------

struct ShardResult {
    /// (case line, canonical results of the implementation, non-trivial) in order
    step: Vec<(String, String, bool)>,
    dist: std::collections::BTreeMap<String, u64>,
    races: Vec<(String, RaceOutcome, bool)>,
    ads: Vec<(String, AdOutcome)>,
    hammers: Vec<(String, HammerOutcome)>,
    skipped: u64,
    /// shrunk failures: (key, case, impl, what)
    failures: Vec<(String, String, String, String)>,
    search_cases: u64,
}

fn shrink_failure(shard: &mut Shard, case: &Case, orig: Outcome, class: &str) -> (Case, Outcome) {
    let ops = shrink_list(&case.ops, |cand| {
        let c = Case { init: case.init, ops: cand.to_vec() };
        match shard.run(&c) {
            Some(o) => o.failure.as_ref().map(|f| f.0 == class).unwrap_or(false),
            None => false,
        }
    });
    let c = Case { init: case.init, ops };
    match shard.run(&c) {
        Some(o) if o.failure.is_some() => (c, o),
        _ => (case.clone(), orig),
    }
}

fn run_shard(index: usize, cases: Vec<Case>, races: Vec<Conc>) -> ShardResult {
    let mut shard = Shard::new(index);
    let mut res = ShardResult { step: vec![], dist: Default::default(), races: vec![], ads: vec![], hammers: vec![], skipped: 0, failures: vec![], search_cases: 0 };
    fn bump(d: &mut std::collections::BTreeMap<String, u64>, k: &str) {
        *d.entry(k.to_string()).or_insert(0) += 1;
    }
    let mut failed_classes: Vec<String> = vec![];
    for c in cases {
        match shard.run(&c) {
            Some(o) => {
                if let Some((class, _)) = &o.failure {
                    if !failed_classes.contains(class) && failed_classes.len() < 4 {
                        failed_classes.push(class.clone());
                        let (sc, so) = shrink_failure(&mut shard, &c, o.clone(), class);
                        let what = so.failure.as_ref().map(|f| f.1.clone()).unwrap_or_default();
                        res.failures.push((format!("global:{class}"), sc.encode(), so.results.join(" "), what));
                    }
                }
                let d = &mut res.dist;
                bump(d, &format!("init:{}", if c.init.is_some() { "forgotten-sink" } else { "detached" }));
                bump(d, &format!("script-len:{}", match c.ops.len() { 0..=5 => "01-05", 6..=15 => "06-15", 16..=30 => "16-30", _ => "31+" }));
                if o.forgot {
                    bump(d, "cases ending attached-forever (forget took effect)");
                }
                for (it, r) in c.ops.iter().zip(&o.results) {
                    bump(d, &format!("op:{}", it.name()));
                    let kind = if r.starts_with("d?") { "anomaly" } else if r.starts_with('d') { "dest" } else if r.starts_with("ret") { "returned" } else { r.as_str() };
                    bump(d, &format!("result:{}:{}", it.name(), kind));
                    bump(
                        d,
                        &format!(
                            "ctx:{}",
                            match (it.t >= THREADS - RUNTIMES, it.r) {
                                (false, None) => "worker/plain",
                                (false, Some(_)) => "worker/entered-runtime",
                                (true, None) => "runtime-thread/outside",
                                (true, Some(k)) if it.t == THREADS - RUNTIMES + k => "runtime-thread/block_on",
                                (true, Some(_)) => "runtime-thread/entered-other",
                            }
                        ),
                    );
                }
                res.step.push((c.encode(), if o.results.is_empty() { "-".into() } else { o.results.join(" ") }, o.nontrivial));
            }
            None => res.skipped += 1,
        }
    }
    for rc in races {
        if let Conc::Hammer(hc) = &rc {
            match shard.hammer(hc) {
                Some(o) => {
                    if let Some((class, what)) = &o.failure {
                        if !failed_classes.contains(class) {
                            failed_classes.push(class.clone());
                            // the statistical witness cannot be shrunk meaningfully: report the iteration that failed
                            let shown: String = o.results.chars().rev().take(200).collect::<String>().chars().rev().collect();
                            res.failures.push((format!("global:{class}"), rc.encode(), format!("…{shown}"), what.clone()));
                        }
                    }
                    res.hammers.push((rc.encode(), o));
                }
                None => res.skipped += 1,
            }
            continue;
        }
        if let Conc::Ad(ad) = &rc {
            match shard.adrace(ad) {
                Some(o) => {
                    if let Some((class, what)) = &o.failure {
                        let class = if class.starts_with("concurrent:") { class.clone() } else { format!("concurrent:{class}") };
                        if !failed_classes.contains(&class) {
                            failed_classes.push(class.clone());
                            // shrink the ops after the concurrent block (bounded: every failing run may cost a global)
                            let mut budget = 14;
                            let tail = shrink_list(&ad.case.ops[ad.pre + ad.block..], |cand| {
                                if budget == 0 {
                                    return false;
                                }
                                budget -= 1;
                                let mut c = ad.clone();
                                c.case.ops.truncate(ad.pre + ad.block);
                                c.case.ops.extend_from_slice(cand);
                                matches!(shard.adrace(&c), Some(AdOutcome { failure: Some(_), .. }))
                            });
                            let mut small = ad.clone();
                            small.case.ops.truncate(ad.pre + ad.block);
                            small.case.ops.extend(tail);
                            match shard.adrace(&small) {
                                Some(AdOutcome { failure: Some((_, w)), results, .. }) => {
                                    res.failures.push((format!("global:{class}"), small.encode(), results, w))
                                }
                                _ => res.failures.push((format!("global:{class}"), rc.encode(), o.results.clone(), what.clone())),
                            }
                        }
                    }
                    res.ads.push((rc.encode(), o));
                }
                None => res.skipped += 1,
            }
            continue;
        }
        let (out, class, is_gate) = match &rc {
            Conc::Race(r) => (shard.race(r), "race-detach", false),
            Conc::Gate(g) => (shard.gated(g.third, g.wait_ms, g.how), "race-detach-gated", true),
            Conc::Ad(_) | Conc::Hammer(_) => unreachable!(),
        };
        match out {
            Some(o) => {
                if let Some(what) = &o.failure {
                    if !failed_classes.iter().any(|c| c == class) {
                        failed_classes.push(class.into());
                        res.failures.push((format!("global:{class}"), rc.encode(), o.request.chars().take(400).collect(), what.clone()));
                    }
                }
                res.races.push((rc.encode(), o, is_gate));
            }
            None => res.skipped += 1,
        }
    }
    res
}

fn main() {
    quiet_panics();
    let args = Args::parse();
    let mut rep = Report::new(
        &args,
        "global",
        "T-step case = (initial state, op script over 5 threads / 2 runtimes); non-trivial = at some routed op at least two \
         candidate destinations were installed for its context (precedence decides), or a panicking op was followed by a \
         delivery; T-trace case = appends from several threads racing drop(attach handle) over a real BackgroundQueue; \
         non-trivial = the detach landed between appends (some accepted and some handed back); distinct by case text",
    );
    let mut rng = Rng::new(args.seed);
    let thorough = args.thorough();
    let shards = if thorough { MAX_SHARDS } else { 2 };

    let mut step_cases: Vec<Vec<Case>> = vec![vec![]; shards];
    let mut race_cases: Vec<Vec<Conc>> = vec![vec![]; shards];
    if let Some(line) = args.replay_case() {
        let line = line.split(" ## ").next().unwrap_or("").to_string();
        if let Some(rc) = Conc::decode(&line) {
            // a race is a schedule sample: repeat it
            for _ in 0..(if matches!(rc, Conc::Race(_)) { 200 } else { 5 }) {
                race_cases[0].push(rc.clone());
            }
        } else if let Some(c) = Case::decode(&line) {
            step_cases[0].push(c);
        } else {
            rep.notes.push(format!("replay case not understood: {line}"));
        }
    } else {
        for l in args.corpus_cases() {
            if let Some(rc) = Conc::decode(&l) {
                race_cases[0].push(rc);
            } else if let Some(c) = Case::decode(&l) {
                step_cases[0].push(c);
            } else {
                rep.notes.push(format!("corpus line not understood: {l}"));
            }
        }
        // `--conc-only 1` (diagnostics): only the concurrent stages
        for (i, c) in gen_exhaustive(if args.extra.contains_key("conc-only") { 0 } else if thorough { 3 } else { 2 }).into_iter().enumerate() {
            step_cases[i % shards].push(c);
        }
        let n_random = if thorough { 80_000 } else { 3_000 };
        let n_orders = if thorough { 720 } else { 120 };
        let n_panics = if thorough { 4_000 } else { 300 };
        let n_races = if thorough { 1_500 } else { 60 };
        // forget can make a global unusable for clean cases: bounded number of such cases per shard
        let forget_budget = POOL_PER_SHARD - 8;
        for s in 0..shards {
            let mut r = rng.fork(s as u64);
            let mut forget_left = forget_budget;
            let mut v = vec![];
            gen_orders(&mut r, &mut v, n_orders);
            for i in 0..n_random {
                let stuck = i % 8 == 7;
                let allow_forget = !stuck && forget_left > 0 && i % 16 == 3;
                let c = gen_random(&mut r, allow_forget, stuck);
                if !stuck && c.has_forget() {
                    forget_left -= 1;
                }
                v.push(c);
            }
            for _ in 0..n_panics {
                v.push(gen_panics(&mut r));
            }
            if !args.extra.contains_key("conc-only") {
                step_cases[s].extend(v);
            }
            for i in 0..n_races {
                race_cases[s].push(Conc::Race(RaceCase {
                    per_thread: *r.pick(&[0, 1, 5, 40, 120, 300]),
                    threads: r.range(1, THREADS as u64) as usize,
                    target: 0,
                    cap: if r.chance(1, 3) { 0 } else { 4096 },
                    how: gen_how(&mut r, true),
                }));
                let Some(Conc::Race(rc)) = race_cases[s].last_mut() else { unreachable!() };
                let total = rc.per_thread * rc.threads as u64;
                rc.target = match i % 5 {
                    0 => 0,
                    1 => total,
                    _ => r.below(total + 1),
                };
            }
            let n_hammer = if thorough { 8 } else { 2 };
            for i in 0..n_hammer {
                race_cases[s].push(Conc::Hammer(HammerCase {
                    threads: [4, 2, 3, 4][i % 4],
                    iters: if thorough { 3_000 } else { 600 },
                    attached: i % 2 == 1,
                    seed: r.next_u64() % 1_000_000,
                }));
            }
            let n_ad = if thorough { 70 } else { 14 };
            for i in 0..n_ad {
                let kind = ['a', 'f', 'd', 'f', 'r', 'f', 'a', 'd', 't', 'f', 'a', 'r', 'd', 'f'][i % 14];
                race_cases[s].push(Conc::Ad(gen_adrace(&mut r, kind, if thorough { 25 } else { 30 })));
            }
            let n_gates = if thorough { 30 } else { 6 };
            for i in 0..n_gates {
                race_cases[s].push(Conc::Gate(GateCase {
                    third: i % 2 == 1,
                    wait_ms: if thorough { 30 } else { 40 },
                    how: [How::Normal, How::Normal, How::Unwind, How::Thread, How::Unwind, How::Thread][i % 6],
                }));
            }
        }
    }

    let results: Vec<ShardResult> = std::thread::scope(|sc| {
        let hs: Vec<_> = step_cases
            .into_iter()
            .zip(race_cases)
            .enumerate()
            .map(|(i, (c, r))| sc.spawn(move || run_shard(i, c, r)))
            .collect();
        hs.into_iter().map(|h| h.join().expect("shard")).collect()
    });

    // report + correspondence
    let mut requests: Vec<String> = vec![];
    let mut answers: Vec<(String, Option<String>, &'static str)> = vec![]; // (impl answer, case text if not the request, component)
    let mut any_oracle_failure = false;
    for sr in results {
        rep.bump_by("skipped:no-suitable-global", sr.skipped);
        rep.search_cases += sr.search_cases;
        for (key, case, imp, what) in &sr.failures {
            any_oracle_failure = true;
            rep.oracle_failure(key, case, imp, what);
        }
        for (k, v) in &sr.dist {
            rep.bump_by(k, *v);
        }
        for (ci, (enc, results, nontrivial)) in sr.step.into_iter().enumerate() {
            rep.case(&enc, nontrivial);
            if ci % 1499 == 0 && ci / 1499 < 4 {
                rep.sample(json!({"case": enc, "impl": results}));
            }
            requests.push(enc);
            answers.push((results, None, "global/step"));
        }
        for (ci, (enc, o)) in sr.hammers.iter().enumerate() {
            rep.case(&format!("{enc} #{ci}"), o.hammer_ops > 0);
            rep.bump("hammer:cases");
            rep.bump_by("hammer:reader operations concurrent with guard installs/drops", o.hammer_ops);
            rep.bump_by("hammer:guard drops judged", enc.split_whitespace().nth(2).and_then(|x| x.parse().ok()).unwrap_or(0));
            if ci == 0 {
                rep.sample(json!({"case": enc, "reader_ops": o.hammer_ops, "impl_head": o.results.chars().take(60).collect::<String>()}));
            }
            rep.traces_validated += 1;
            requests.push(o.request.clone());
            answers.push((o.results.clone(), Some(enc.clone()), "global/hammer"));
        }
        for (ci, (enc, o)) in sr.ads.iter().enumerate() {
            rep.case(&format!("{enc} #{ci}"), true);
            let kind = enc.split_whitespace().nth(1).unwrap_or("?");
            rep.bump(&format!("install-during-slow-drop:{kind}: B {}", if o.b_waited { "waited for the old object's drop" } else { "completed at once" }));
            rep.bump(&format!("install-during-slow-drop:{kind}: explaining order {}", o.order));
            if ci == 0 {
                rep.sample(json!({"case": enc, "impl": o.results, "order": o.order}));
            }
            rep.traces_validated += 1;
            requests.push(o.request.clone());
            answers.push((o.results.clone(), Some(enc.clone()), "global/install-during-slow-drop"));
        }
        for (ci, (enc, o, is_gate)) in sr.races.iter().enumerate() {
            let enc = enc.clone();
            let mid = (o.accepted > 0 && o.returned > 0) || *is_gate;
            rep.case(&format!("{enc} #{ci} {} {}", o.accepted, o.returned), mid);
            if *is_gate {
                rep.bump("gated-race:append held in flight during drop(handle)");
                rep.bump(&format!("gated-race:third thread {}", if !enc.starts_with("gate 1") { "absent" } else if o.accepted == 2 { "accepted" } else { "handed back" }));
            } else {
                rep.bump(if mid { "race:detach-between-appends" } else if o.returned == 0 { "race:all-accepted" } else { "race:all-handed-back" });
            }
            rep.bump_by("race:entries accepted", o.accepted as u64);
            rep.bump_by("race:entries handed back", o.returned as u64);
            if o.request.is_empty() {
                continue;
            }
            if ci % 97 == 0 {
                rep.sample(json!({"case": enc, "accepted": o.accepted, "handed_back": o.returned}));
            }
            rep.traces_validated += 1;
            requests.push(o.request.clone());
            answers.push(("accept".into(), Some(enc), "global/race-trace"));
        }
    }
    let mut disagreeing: Vec<String> = vec![];
    match run_driver(&args.driver, "global", &requests) {
        Some(replies) => {
            for ((ans, case, comp), (req, reply)) in answers.iter().zip(requests.iter().zip(replies.iter())) {
                if ans != reply {
                    let shown: String = match case {
                        None => req.clone(),
                        Some(case) => format!("{case} ## {}", req.chars().take(600).collect::<String>()),
                    };
                    rep.disagreement(comp, &shown, ans, reply);
                    if *comp == "global/step" && disagreeing.len() < 5 {
                        disagreeing.push(req.clone());
                    }
                }
            }
            rep.bump_by("model requests", requests.len() as u64);
        }
        None => rep.driver_available = false,
    }
    // a disagreement without an oracle failure: search the neighbourhood of the disagreeing scripts with the oracle
    if !disagreeing.is_empty() && !any_oracle_failure {
        let mut shard = Shard::new(MAX_SHARDS - 1 + 0); // last pool slice; shards of a quick run use the first two
        if thorough {
            rep.notes.push("targeted search skipped in the thorough tier (all pool slices in use)".into());
        } else {
            let budget = 15_000u64;
            let mut srng = rng.fork(0xC17);
            'outer: for line in &disagreeing {
                let Some(base) = Case::decode(line) else { continue };
                for _ in 0..budget / disagreeing.len() as u64 {
                    let mut c = base.clone();
                    // neighbours: drop a prefix/suffix, change contexts, splice random ops
                    let extra = gen_random(&mut srng, false, false).ops;
                    match srng.below(4) {
                        0 => {
                            let k = srng.below(c.ops.len() as u64 + 1) as usize;
                            c.ops.truncate(k);
                            c.ops.extend(extra.into_iter().take(6));
                        }
                        1 => {
                            for it in c.ops.iter_mut() {
                                if srng.chance(1, 3) {
                                    let (t, r) = gen_ctx(&mut srng);
                                    it.t = t;
                                    it.r = r;
                                }
                            }
                        }
                        2 => {
                            let k = srng.below(c.ops.len() as u64 + 1) as usize;
                            let tail = c.ops.split_off(k);
                            c.ops.extend(extra.into_iter().take(3));
                            c.ops.extend(tail);
                        }
                        _ => {
                            if !c.ops.is_empty() {
                                let k = srng.below(c.ops.len() as u64) as usize;
                                c.ops.remove(k);
                            }
                            c.ops.extend(probes(5000));
                        }
                    }
                    c.ops.retain(|o| o.op != Op::ForgetAttach);
                    rep.search_cases += 1;
                    match shard.run(&c) {
                        Some(o) => {
                            if let Some((class, _)) = &o.failure {
                                let class = class.clone();
                                let (sc, so) = shrink_failure(&mut shard, &c, o.clone(), &class);
                                let what = so.failure.as_ref().map(|f| f.1.clone()).unwrap_or_default();
                                rep.oracle_failure(&format!("global:{class}"), &sc.encode(), &so.results.join(" "), &what);
                                rep.search_found = true;
                                break 'outer;
                            }
                        }
                        None => break 'outer,
                    }
                }
            }
        }
    }
    rep.write(&args);
}
